//! C11: replay IoHelpers behaviours (spec/Gen_IoHelpers.tla) on the real compio-io helpers.
//!
//! Every case = helper + parameters + the schedule of inner-call outcomes.  The real helper runs
//! over scripted streams that follow the schedule (hio::iohelpers).  Two verdicts per run:
//!   * contract: the REFERENCE of the helper ("first n bytes or UnexpectedEof", "all bytes appended",
//!     ...) is evaluated here, in Rust, on the real result and the streams' own logs - independent of
//!     the code-shaped model.  A false predicate, a panic or an endless loop is a property violation.
//!   * mismatch: the real observation differs from what the code-shaped model produced while the
//!     contract holds (spec drift).
use std::{
    io::{Cursor, ErrorKind},
    panic::{AssertUnwindSafe, catch_unwind},
    sync::{
        Arc, Mutex,
        atomic::{AtomicU64, Ordering},
        mpsc,
    },
    time::Duration,
};

use compio_buf::{BufResult, IntoInner};
use compio_io::{
    AsyncBufRead, AsyncRead, AsyncReadAt, AsyncReadAtExt, AsyncReadExt, AsyncWrite, AsyncWriteAt, AsyncWriteAtExt, AsyncWriteExt,
    BufReader, BufWriter, util::copy_with_size,
};
use futures_executor::block_on;
use hcore::out::{Report, cases_from_arg, panic_msg, silence_panics};
use hio::iohelpers::*;
use serde_json::{Value, json};

// ------------------------------------------------------------------------------------------
// case and observation
// ------------------------------------------------------------------------------------------
#[derive(Debug, Clone)]
struct Case {
    h: String,
    l: usize,
    n: usize,
    cap: usize,
    pre: usize,
    native: bool,
    caps: Vec<usize>,
    lens: Vec<usize>,
    bc: usize,
    uc: usize,
    lim: usize,
    pos: usize,
    chunks: Vec<usize>,
    inner: String,
    sched: Vec<i64>,
    wsched: Vec<i64>,
    rcap: Vec<usize>,
    wlen: Vec<usize>,
}

fn us(v: &Value) -> usize {
    v.as_u64().unwrap() as usize
}
fn usv(v: &Value) -> Vec<usize> {
    v.as_array().unwrap().iter().map(us).collect()
}
fn iv(v: &Value) -> Vec<i64> {
    v.as_array().unwrap().iter().map(|x| x.as_i64().unwrap()).collect()
}
fn bytes_of(v: &Value) -> Vec<u8> {
    v.as_array().unwrap().iter().map(|x| x.as_u64().unwrap() as u8).collect()
}

impl Case {
    fn parse(c: &Value) -> Case {
        let o = &c["op"];
        Case {
            h: o["h"].as_str().unwrap().to_string(),
            l: us(&o["L"]),
            n: us(&o["n"]),
            cap: us(&o["cap"]),
            pre: us(&o["pre"]),
            native: o["native"].as_bool().unwrap(),
            caps: usv(&o["caps"]),
            lens: usv(&o["lens"]),
            bc: us(&o["bc"]),
            uc: us(&o["uc"]),
            lim: us(&o["lim"]),
            pos: us(&o["pos"]),
            chunks: usv(&o["chunks"]),
            inner: o["inner"].as_str().unwrap().to_string(),
            sched: iv(&c["sched"]),
            wsched: iv(&c["wsched"]),
            rcap: usv(&c["rcap"]),
            wlen: usv(&c["wlen"]),
        }
    }
}

#[derive(Debug, Clone, Default, PartialEq)]
struct Res {
    k: String, // ok | err
    v: u64,
    e: String, // eof | wzero | other | intr | <other kind>
}

fn ok(v: usize) -> Res {
    Res {
        k: "ok".into(),
        v: v as u64,
        e: String::new(),
    }
}
fn kind_name(k: ErrorKind) -> String {
    match k {
        ErrorKind::UnexpectedEof => "eof".into(),
        ErrorKind::WriteZero => "wzero".into(),
        ErrorKind::Interrupted => "intr".into(),
        ErrorKind::Other => "other".into(),
        x => format!("{x:?}"),
    }
}
fn err(e: &std::io::Error) -> Res {
    Res {
        k: "err".into(),
        v: 0,
        e: kind_name(e.kind()),
    }
}
fn res_unit(r: &std::io::Result<()>) -> Res {
    match r {
        Ok(()) => ok(0),
        Err(e) => err(e),
    }
}
fn res_n(r: &std::io::Result<usize>) -> Res {
    match r {
        Ok(n) => ok(*n),
        Err(e) => err(e),
    }
}

#[derive(Debug, Clone, Default)]
struct Obs {
    res: Res,
    buf: Vec<u8>,
    vb: Vec<Vec<u8>>,
    got: Vec<u8>,
    errs: Vec<String>,
    sink: Vec<u8>,
    rpos: usize,
}

/// What the scripted streams really did.
#[derive(Debug, Clone, Default)]
struct Logs {
    /// the source stream as it really was (truncated where an EOF was delivered early)
    src: Vec<u8>,
    rfault: Option<usize>,
    wfault: Option<(&'static str, usize)>,
    w_interrupted: usize,
    drift: Vec<String>,
    unused: usize,
    flushes: usize,
    shutdowns: usize,
    /// helper-specific remarks that violate the contract (e.g. returned count and buffer length differ)
    remarks: Vec<String>,
}

impl Logs {
    fn reader(&mut self, data: &[u8], s: &Script) {
        self.src = data.to_vec();
        self.rfault = s.fault.map(|f| f.1);
        self.drift.extend(s.drift.iter().cloned());
        self.unused += s.unused();
    }

    fn writer(&mut self, s: &Script, flushes: usize, shutdowns: usize) {
        self.wfault = s.fault;
        self.w_interrupted = s.interrupted;
        self.drift.extend(s.drift.iter().cloned());
        self.unused += s.unused();
        self.flushes = flushes;
        self.shutdowns = shutdowns;
    }
}

fn sreader(data: Vec<u8>, c: &Case) -> ScriptReader {
    let mut r = ScriptReader::new(data, vec![]);
    r.script = Script::new(c.sched.clone()).with_offered(c.rcap.clone());
    r
}
fn sreader_at(data: Vec<u8>, c: &Case, native: bool) -> ScriptReaderAt {
    let r = ScriptReaderAt::new(data, vec![], native);
    *r.script.borrow_mut() = Script::new(c.sched.clone()).with_offered(c.rcap.clone());
    r
}
fn swriter(c: &Case) -> ScriptWriter {
    let mut w = ScriptWriter::new(vec![]);
    w.script = Script::new(c.wsched.clone()).with_offered(c.wlen.clone());
    w
}
fn swriter_at(c: &Case, native: bool) -> ScriptWriterAt {
    let mut w = ScriptWriterAt::new(vec![], native);
    w.script = Script::new(c.wsched.clone()).with_offered(c.wlen.clone());
    w
}
fn src_bytes(l: usize) -> Vec<u8> {
    (1..=l as u8).collect()
}
fn seq(base: usize, k: usize) -> Vec<u8> {
    (1..=k).map(|i| (base + i) as u8).collect()
}
/// Vec<u8> holding `pre` bytes base+1.. with capacity exactly `cap`.
fn mk_vec(pre: usize, cap: usize, base: usize, logs: &mut Logs) -> Vec<u8> {
    let mut v = Vec::with_capacity(cap);
    if v.capacity() != cap {
        logs.drift.push(format!("Vec::with_capacity({cap}) gave {}", v.capacity()));
    }
    v.extend_from_slice(&seq(base, pre));
    v
}
fn members(caps: &[usize], lens: &[usize], logs: &mut Logs) -> [Vec<u8>; 2] {
    [mk_vec(lens[0], caps[0], 20, logs), mk_vec(lens[1], caps[1], 30, logs)]
}
fn payload_members(lens: &[usize]) -> [Vec<u8>; 2] {
    [seq(0, lens[0]), seq(lens[0], lens[1])]
}

// ------------------------------------------------------------------------------------------
// running the real helpers
// ------------------------------------------------------------------------------------------
/// AsyncBufRead used directly: fill_buf, take at most `uc` bytes of what is shown, consume them.
async fn drain_fill<R: AsyncBufRead>(rd: &mut R, uc: usize, obs: &mut Obs) {
    for _ in 0..100 {
        let n = match rd.fill_buf().await {
            Ok(s) if s.is_empty() => {
                obs.res = ok(obs.got.len());
                return;
            }
            Ok(s) => {
                let a = uc.min(s.len());
                obs.got.extend_from_slice(&s[..a]);
                a
            }
            Err(e) if e.kind() == ErrorKind::Interrupted => continue,
            Err(e) => {
                obs.errs.push(kind_name(e.kind()));
                continue;
            }
        };
        rd.consume(n);
    }
    panic!("{STEP_BOUND_MSG}");
}

macro_rules! with_arr {
    ($n:expr, $f:ident, $($a:expr),*) => {
        match $n {
            0 => $f::<0>($($a),*),
            1 => $f::<1>($($a),*),
            2 => $f::<2>($($a),*),
            3 => $f::<3>($($a),*),
            4 => $f::<4>($($a),*),
            5 => $f::<5>($($a),*),
            6 => $f::<6>($($a),*),
            7 => $f::<7>($($a),*),
            8 => $f::<8>($($a),*),
            _ => panic!("harness: array size not supported"),
        }
    };
}

fn variants(c: &Case) -> Vec<&'static str> {
    let script = c.inner == "script";
    match c.h.as_str() {
        "read_exact" => {
            if script {
                vec!["direct", "split"]
            } else {
                vec!["cursor", "slice"]
            }
        }
        "read_exact_at" => {
            if script {
                vec!["script"]
            } else {
                vec!["vec", "boxed"]
            }
        }
        "read_to_end" => {
            if script {
                vec!["bytes", "string"]
            } else {
                vec!["cursor", "slice"]
            }
        }
        "read_to_end_at" => {
            if script {
                vec!["bytes", "string"]
            } else {
                vec!["vec"]
            }
        }
        "read_vectored_exact" => {
            if script {
                vec!["script"]
            } else {
                vec!["cursor", "slice"]
            }
        }
        "copy" => {
            if script {
                vec!["script"]
            } else {
                vec!["mem"]
            }
        }
        "write_all" => match c.inner.as_str() {
            "script" => vec!["direct", "split"],
            "vec" => vec!["vec", "cursor_vec"],
            _ => vec!["cursor_arr", "slice_mut"],
        },
        "read_at" | "read_vectored_at" => vec!["vec", "boxed", "arr"],
        "arr_write_at" | "arr_write_vectored_at" => vec!["arr", "boxed"],
        h if is_mem(h) => vec!["mem"],
        _ => vec!["script"],
    }
}

fn is_mem(h: &str) -> bool {
    matches!(
        h,
        "slice_read"
            | "slice_read_vectored"
            | "read_at"
            | "read_vectored_at"
            | "cursor_read"
            | "cursor_read_vectored"
            | "vec_write"
            | "vec_write_vectored"
            | "slice_write"
            | "slice_write_vectored"
            | "arr_write_at"
            | "arr_write_vectored_at"
            | "vec_write_at"
            | "vec_write_vectored_at"
            | "cursor_vec_write"
            | "cursor_vec_write_vectored"
    )
}

fn arr_read_at<const N: usize>(data: &[u8], c: &Case, logs: &mut Logs, obs: &mut Obs) {
    let a: [u8; N] = data.try_into().expect("harness: array size");
    if c.h == "read_at" {
        let BufResult(r, b) = block_on(a.read_at(mk_vec(c.pre, c.cap, 10, logs), c.pos as u64));
        obs.res = res_n(&r);
        obs.buf = b;
    } else {
        let BufResult(r, b) = block_on(a.read_vectored_at(members(&c.caps, &c.lens, logs), c.pos as u64));
        obs.res = res_n(&r);
        obs.vb = b.to_vec();
    }
}

fn arr_write_at<const N: usize>(c: &Case, obs: &mut Obs) {
    let mut a: [u8; N] = seq(10, N).try_into().expect("harness: array size");
    if c.h == "arr_write_at" {
        let BufResult(r, _) = block_on(a.write_at(seq(0, c.n), c.pos as u64));
        obs.res = res_n(&r);
    } else {
        let BufResult(r, _) = block_on(a.write_vectored_at(payload_members(&c.lens), c.pos as u64));
        obs.res = res_n(&r);
    }
    obs.sink = a.to_vec();
}

fn run_mem(c: &Case, variant: &str, obs: &mut Obs, logs: &mut Logs) {
    let data = src_bytes(c.l);
    logs.src = data.clone();
    let pos = c.pos as u64;
    match c.h.as_str() {
        "slice_read" => {
            let mut r: &[u8] = &data;
            let BufResult(res, b) = block_on(r.read(mk_vec(c.pre, c.cap, 10, logs)));
            obs.res = res_n(&res);
            obs.buf = b;
            obs.rpos = data.len() - r.len();
        }
        "slice_read_vectored" => {
            let mut r: &[u8] = &data;
            let BufResult(res, b) = block_on(r.read_vectored(members(&c.caps, &c.lens, logs)));
            obs.res = res_n(&res);
            obs.vb = b.to_vec();
            obs.rpos = data.len() - r.len();
        }
        "read_at" | "read_vectored_at" => match variant {
            "arr" => with_arr!(c.l, arr_read_at, &data, c, logs, obs),
            "vec" => {
                if c.h == "read_at" {
                    let BufResult(r, b) = block_on(data.read_at(mk_vec(c.pre, c.cap, 10, logs), pos));
                    obs.res = res_n(&r);
                    obs.buf = b;
                } else {
                    let BufResult(r, b) = block_on(data.read_vectored_at(members(&c.caps, &c.lens, logs), pos));
                    obs.res = res_n(&r);
                    obs.vb = b.to_vec();
                }
            }
            _ => {
                let bx: Box<[u8]> = data.clone().into_boxed_slice();
                if c.h == "read_at" {
                    let BufResult(r, b) = block_on(bx.read_at(mk_vec(c.pre, c.cap, 10, logs), pos));
                    obs.res = res_n(&r);
                    obs.buf = b;
                } else {
                    let BufResult(r, b) = block_on(bx.read_vectored_at(members(&c.caps, &c.lens, logs), pos));
                    obs.res = res_n(&r);
                    obs.vb = b.to_vec();
                }
            }
        },
        "cursor_read" | "cursor_read_vectored" => {
            let mut cur = Cursor::new(data.clone());
            cur.set_position(pos);
            if c.h == "cursor_read" {
                let BufResult(r, b) = block_on(cur.read(mk_vec(c.pre, c.cap, 10, logs)));
                obs.res = res_n(&r);
                obs.buf = b;
            } else {
                let BufResult(r, b) = block_on(cur.read_vectored(members(&c.caps, &c.lens, logs)));
                obs.res = res_n(&r);
                obs.vb = b.to_vec();
            }
            obs.rpos = cur.position() as usize;
        }
        "vec_write" | "vec_write_vectored" => {
            let mut w = seq(10, c.pre);
            if c.h == "vec_write" {
                let BufResult(r, _) = block_on(w.write(seq(0, c.n)));
                obs.res = res_n(&r);
            } else {
                let r = catch_unwind(AssertUnwindSafe(|| block_on(w.write_vectored(payload_members(&c.lens)))));
                match r {
                    Ok(BufResult(r, _)) => obs.res = res_n(&r),
                    Err(e) => std::panic::resume_unwind(e),
                }
            }
            obs.sink = w;
        }
        "slice_write" | "slice_write_vectored" => {
            let mut store = vec![0u8; c.lim];
            let left = {
                let mut w: &mut [u8] = &mut store[..];
                if c.h == "slice_write" {
                    let BufResult(r, _) = block_on(w.write(seq(0, c.n)));
                    obs.res = res_n(&r);
                } else {
                    let BufResult(r, _) = block_on(w.write_vectored(payload_members(&c.lens)));
                    obs.res = res_n(&r);
                }
                w.len()
            };
            store.truncate(c.lim - left);
            obs.sink = store;
            obs.rpos = left;
        }
        "arr_write_at" | "arr_write_vectored_at" => {
            if variant == "arr" {
                with_arr!(c.lim, arr_write_at, c, obs);
            } else {
                let mut bx: Box<[u8]> = seq(10, c.lim).into_boxed_slice();
                if c.h == "arr_write_at" {
                    let BufResult(r, _) = block_on(bx.write_at(seq(0, c.n), pos));
                    obs.res = res_n(&r);
                } else {
                    let BufResult(r, _) = block_on(bx.write_vectored_at(payload_members(&c.lens), pos));
                    obs.res = res_n(&r);
                }
                obs.sink = bx.to_vec();
            }
        }
        "vec_write_at" | "vec_write_vectored_at" => {
            let mut w = seq(10, c.pre);
            if c.h == "vec_write_at" {
                let BufResult(r, _) = block_on(w.write_at(seq(0, c.n), pos));
                obs.res = res_n(&r);
            } else {
                let BufResult(r, _) = block_on(w.write_vectored_at(payload_members(&c.lens), pos));
                obs.res = res_n(&r);
            }
            obs.sink = w;
        }
        "cursor_vec_write" | "cursor_vec_write_vectored" => {
            let mut cur = Cursor::new(seq(10, c.pre));
            cur.set_position(pos);
            if c.h == "cursor_vec_write" {
                let BufResult(r, _) = block_on(cur.write(seq(0, c.n)));
                obs.res = res_n(&r);
            } else {
                let BufResult(r, _) = block_on(cur.write_vectored(payload_members(&c.lens)));
                obs.res = res_n(&r);
            }
            obs.rpos = cur.position() as usize;
            obs.sink = cur.into_inner();
        }
        other => panic!("harness: unknown in-memory call {other}"),
    }
}

async fn drain<R: AsyncRead>(rd: &mut R, uc: usize, obs: &mut Obs, logs: &mut Logs) {
    for _ in 0..100 {
        let BufResult(r, b) = rd.read(Vec::with_capacity(uc)).await;
        match r {
            Ok(0) => {
                obs.res = ok(obs.got.len());
                return;
            }
            Ok(n) => {
                if b.len() != n {
                    logs.remarks
                        .push(format!("read returned Ok({n}) but the buffer holds {} bytes", b.len()));
                }
                obs.got.extend_from_slice(&b[..n.min(b.len())]);
            }
            Err(e) if e.kind() == ErrorKind::Interrupted => {}
            Err(e) => obs.errs.push(kind_name(e.kind())),
        }
    }
    panic!("{STEP_BOUND_MSG}");
}

fn write_all_cursor_arr<const N: usize>(payload: Vec<u8>, obs: &mut Obs) {
    let mut w = Cursor::new([0u8; N]);
    let BufResult(r, _) = block_on(w.write_all(payload));
    obs.res = res_unit(&r);
    let p = w.position() as usize;
    obs.sink = w.into_inner()[..p.min(N)].to_vec();
}

fn run_variant(c: &Case, variant: &str) -> (Obs, Logs) {
    let mut obs = Obs::default();
    let mut logs = Logs::default();
    let data = src_bytes(c.l);
    if is_mem(&c.h) {
        run_mem(c, variant, &mut obs, &mut logs);
        return (obs, logs);
    }
    match c.h.as_str() {
        "read_exact" => {
            let buf = mk_vec(c.pre, c.cap, 10, &mut logs);
            match variant {
                "direct" => {
                    let mut r = sreader(data, c);
                    let BufResult(res, b) = block_on(r.read_exact(buf));
                    obs.res = res_unit(&res);
                    obs.buf = b;
                    obs.rpos = r.pos;
                    logs.reader(&r.data, &r.script);
                }
                "split" => {
                    let d = Duplex {
                        r: sreader(data, c),
                        w: ScriptWriter::new(vec![]),
                    };
                    let (mut rh, wh) = compio_io::split(d);
                    let BufResult(res, b) = block_on(rh.read_exact(buf));
                    let d = rh.unsplit(wh);
                    obs.res = res_unit(&res);
                    obs.buf = b;
                    obs.rpos = d.r.pos;
                    logs.reader(&d.r.data, &d.r.script);
                }
                "cursor" => {
                    let mut r = Cursor::new(data.clone());
                    let BufResult(res, b) = block_on(r.read_exact(buf));
                    obs.res = res_unit(&res);
                    obs.buf = b;
                    obs.rpos = r.position() as usize;
                    logs.src = data;
                }
                _ => {
                    let mut r: &[u8] = &data;
                    let BufResult(res, b) = block_on(r.read_exact(buf));
                    obs.res = res_unit(&res);
                    obs.buf = b;
                    obs.rpos = data.len() - r.len();
                    logs.src = data.clone();
                }
            }
        }
        "read_exact_at" => {
            let buf = mk_vec(c.pre, c.cap, 10, &mut logs);
            let pos = c.pos as u64;
            match variant {
                "script" => {
                    let r = sreader_at(data, c, false);
                    let BufResult(res, b) = block_on(r.read_exact_at(buf, pos));
                    obs.res = res_unit(&res);
                    obs.buf = b;
                    logs.reader(&r.data.borrow(), &r.script.borrow());
                }
                "vec" => {
                    let BufResult(res, b) = block_on(data.read_exact_at(buf, pos));
                    obs.res = res_unit(&res);
                    obs.buf = b;
                    logs.src = data;
                }
                _ => {
                    let r: Box<[u8]> = data.clone().into_boxed_slice();
                    let BufResult(res, b) = block_on(r.read_exact_at(buf, pos));
                    obs.res = res_unit(&res);
                    obs.buf = b;
                    logs.src = data;
                }
            }
        }
        "read_to_end" => {
            let buf = mk_vec(c.pre, c.cap, 10, &mut logs);
            match variant {
                "bytes" => {
                    let mut r = sreader(data, c);
                    let BufResult(res, b) = block_on(r.read_to_end(buf));
                    obs.res = res_n(&res);
                    obs.buf = b;
                    obs.rpos = r.pos;
                    logs.reader(&r.data, &r.script);
                }
                "string" => {
                    let mut r = sreader(data, c);
                    let s = String::from_utf8(buf).expect("ascii");
                    let BufResult(res, b) = block_on(r.read_to_string(s));
                    obs.res = res_n(&res);
                    obs.buf = b.into_bytes();
                    obs.rpos = r.pos;
                    logs.reader(&r.data, &r.script);
                }
                "cursor" => {
                    let mut r = Cursor::new(data.clone());
                    let BufResult(res, b) = block_on(r.read_to_end(buf));
                    obs.res = res_n(&res);
                    obs.buf = b;
                    obs.rpos = r.position() as usize;
                    logs.src = data;
                }
                _ => {
                    let mut r: &[u8] = &data;
                    let BufResult(res, b) = block_on(r.read_to_end(buf));
                    obs.res = res_n(&res);
                    obs.buf = b;
                    obs.rpos = data.len() - r.len();
                    logs.src = data.clone();
                }
            }
        }
        "read_to_end_at" => {
            let buf = mk_vec(c.pre, c.cap, 10, &mut logs);
            let pos = c.pos as u64;
            match variant {
                "bytes" => {
                    let r = sreader_at(data, c, false);
                    let BufResult(res, b) = block_on(r.read_to_end_at(buf, pos));
                    obs.res = res_n(&res);
                    obs.buf = b;
                    logs.reader(&r.data.borrow(), &r.script.borrow());
                }
                "string" => {
                    let r = sreader_at(data, c, false);
                    let s = String::from_utf8(buf).expect("ascii");
                    let BufResult(res, b) = block_on(r.read_to_string_at(s, pos));
                    obs.res = res_n(&res);
                    obs.buf = b.into_bytes();
                    logs.reader(&r.data.borrow(), &r.script.borrow());
                }
                _ => {
                    let BufResult(res, b) = block_on(data.read_to_end_at(buf, pos));
                    obs.res = res_n(&res);
                    obs.buf = b;
                    logs.src = data;
                }
            }
        }
        "read_vectored_exact" => {
            let vb = members(&c.caps, &c.lens, &mut logs);
            match variant {
                "script" => {
                    if c.native {
                        let mut r = NativeReader(sreader(data, c));
                        let BufResult(res, b) = block_on(r.read_vectored_exact(vb));
                        obs.res = res_unit(&res);
                        obs.vb = b.to_vec();
                        obs.rpos = r.0.pos;
                        logs.reader(&r.0.data, &r.0.script);
                    } else {
                        let mut r = sreader(data, c);
                        let BufResult(res, b) = block_on(r.read_vectored_exact(vb));
                        obs.res = res_unit(&res);
                        obs.vb = b.to_vec();
                        obs.rpos = r.pos;
                        logs.reader(&r.data, &r.script);
                    }
                }
                "cursor" => {
                    let mut r = Cursor::new(data.clone());
                    let BufResult(res, b) = block_on(r.read_vectored_exact(vb));
                    obs.res = res_unit(&res);
                    obs.vb = b.to_vec();
                    obs.rpos = r.position() as usize;
                    logs.src = data;
                }
                _ => {
                    let mut r: &[u8] = &data;
                    let BufResult(res, b) = block_on(r.read_vectored_exact(vb));
                    obs.res = res_unit(&res);
                    obs.vb = b.to_vec();
                    obs.rpos = data.len() - r.len();
                    logs.src = data.clone();
                }
            }
        }
        "read_vectored_exact_at" => {
            let vb = members(&c.caps, &c.lens, &mut logs);
            let r = sreader_at(data, c, c.native);
            let BufResult(res, b) = block_on(r.read_vectored_exact_at(vb, c.pos as u64));
            obs.res = res_unit(&res);
            obs.vb = b.to_vec();
            logs.reader(&r.data.borrow(), &r.script.borrow());
        }
        "append" => {
            let buf = mk_vec(c.pre, c.cap, 10, &mut logs);
            let mut r = sreader(data, c);
            let BufResult(res, b) = block_on(r.append(buf));
            obs.res = res_n(&res);
            obs.buf = b;
            obs.rpos = r.pos;
            logs.reader(&r.data, &r.script);
        }
        "take" | "bufreader" | "bufreader_fill" | "take_fill" if c.inner == "mem" => {
            let mut rest: &[u8] = &data;
            match c.h.as_str() {
                "take" => {
                    let mut t = (&mut rest).take(c.lim as u64);
                    block_on(drain(&mut t, c.uc, &mut obs, &mut logs));
                }
                "bufreader" => {
                    let mut t = BufReader::with_capacity(c.bc, &mut rest);
                    block_on(drain(&mut t, c.uc, &mut obs, &mut logs));
                }
                "bufreader_fill" => {
                    let mut t = BufReader::with_capacity(c.bc, &mut rest);
                    block_on(drain_fill(&mut t, c.uc, &mut obs));
                }
                _ => {
                    let mut t = BufReader::with_capacity(c.bc, &mut rest).take(c.lim as u64);
                    block_on(drain_fill(&mut t, c.uc, &mut obs));
                }
            }
            obs.rpos = data.len() - rest.len();
            logs.src = data.clone();
        }
        "take" => {
            let r = sreader(data, c);
            let mut t = r.take(c.lim as u64);
            block_on(drain(&mut t, c.uc, &mut obs, &mut logs));
            let r = t.into_inner();
            obs.rpos = r.pos;
            logs.reader(&r.data, &r.script);
        }
        "bufreader" => {
            let r = sreader(data, c);
            let mut t = BufReader::with_capacity(c.bc, r);
            block_on(drain(&mut t, c.uc, &mut obs, &mut logs));
            let r = t.into_inner();
            obs.rpos = r.pos;
            logs.reader(&r.data, &r.script);
        }
        "bufreader_fill" => {
            let r = sreader(data, c);
            let mut t = BufReader::with_capacity(c.bc, r);
            block_on(drain_fill(&mut t, c.uc, &mut obs));
            let r = t.into_inner();
            obs.rpos = r.pos;
            logs.reader(&r.data, &r.script);
        }
        "take_fill" => {
            let r = sreader(data, c);
            let mut t = BufReader::with_capacity(c.bc, r).take(c.lim as u64);
            block_on(drain_fill(&mut t, c.uc, &mut obs));
            let r = t.into_inner().into_inner();
            obs.rpos = r.pos;
            logs.reader(&r.data, &r.script);
        }
        "copy" => {
            if variant == "script" {
                let mut r = sreader(data, c);
                let mut w = swriter(c);
                let res = block_on(copy_with_size(&mut r, &mut w, c.cap));
                obs.res = res_n(&res.map(|n| n as usize));
                obs.sink = w.sink.clone();
                obs.rpos = r.pos;
                logs.reader(&r.data, &r.script);
                logs.writer(&w.script, w.flushes, w.shutdowns);
            } else {
                let mut r: &[u8] = &data;
                let mut w: Vec<u8> = vec![];
                let res = block_on(copy_with_size(&mut r, &mut w, c.cap));
                obs.res = res_n(&res.map(|n| n as usize));
                obs.sink = w;
                obs.rpos = data.len() - r.len();
                logs.src = data.clone();
            }
        }
        "write_all" => {
            let payload = seq(0, c.n);
            match variant {
                "direct" => {
                    let mut w = swriter(c);
                    let BufResult(r, _) = block_on(w.write_all(payload));
                    obs.res = res_unit(&r);
                    obs.sink = w.sink.clone();
                    logs.writer(&w.script, w.flushes, w.shutdowns);
                }
                "split" => {
                    let d = Duplex {
                        r: ScriptReader::new(vec![], vec![]),
                        w: swriter(c),
                    };
                    let (rh, mut wh) = compio_io::split(d);
                    let BufResult(r, _) = block_on(wh.write_all(payload));
                    let d = rh.unsplit(wh);
                    obs.res = res_unit(&r);
                    obs.sink = d.w.sink.clone();
                    logs.writer(&d.w.script, d.w.flushes, d.w.shutdowns);
                }
                "vec" => {
                    let mut w: Vec<u8> = vec![];
                    let BufResult(r, _) = block_on(w.write_all(payload));
                    obs.res = res_unit(&r);
                    obs.sink = w;
                }
                "cursor_vec" => {
                    let mut w = Cursor::new(Vec::<u8>::new());
                    let BufResult(r, _) = block_on(w.write_all(payload));
                    obs.res = res_unit(&r);
                    obs.sink = w.into_inner();
                }
                "cursor_arr" => {
                    with_arr!(c.lim, write_all_cursor_arr, payload, &mut obs);
                }
                _ => {
                    let mut store = vec![0u8; c.lim];
                    let left = {
                        let mut w: &mut [u8] = &mut store[..];
                        let BufResult(r, _) = block_on(w.write_all(payload));
                        obs.res = res_unit(&r);
                        w.len()
                    };
                    store.truncate(c.lim - left);
                    obs.sink = store;
                }
            }
        }
        "write_all_at" => {
            let mut w = swriter_at(c, false);
            let BufResult(r, _) = block_on(w.write_all_at(seq(0, c.n), c.pos as u64));
            obs.res = res_unit(&r);
            obs.sink = w.store.clone();
            logs.writer(&w.script, 0, 0);
        }
        "write_vectored_all" => {
            let vb = payload_members(&c.lens);
            if c.native {
                let mut w = NativeWriter(swriter(c));
                let BufResult(r, b) = block_on(w.write_vectored_all(vb));
                obs.res = res_unit(&r);
                obs.vb = b.to_vec();
                obs.sink = w.0.sink.clone();
                logs.writer(&w.0.script, 0, 0);
            } else {
                let mut w = swriter(c);
                let BufResult(r, b) = block_on(w.write_vectored_all(vb));
                obs.res = res_unit(&r);
                obs.vb = b.to_vec();
                obs.sink = w.sink.clone();
                logs.writer(&w.script, 0, 0);
            }
        }
        "write_vectored_all_at" => {
            let vb = payload_members(&c.lens);
            let mut w = swriter_at(c, c.native);
            let BufResult(r, b) = block_on(w.write_vectored_all_at(vb, c.pos as u64));
            obs.res = res_unit(&r);
            obs.vb = b.to_vec();
            obs.sink = w.store.clone();
            logs.writer(&w.script, 0, 0);
        }
        "bufwriter" => {
            let mut bw = BufWriter::with_capacity(c.bc, swriter(c));
            block_on(async {
                let mut base = 0;
                for &ch in &c.chunks {
                    let BufResult(r, _) = bw.write_all(seq(base, ch)).await;
                    base += ch;
                    if let Err(e) = r {
                        obs.res = err(&e);
                        return;
                    }
                }
                for _ in 0..20 {
                    match bw.flush().await {
                        Ok(()) => {
                            obs.res = ok(0);
                            return;
                        }
                        Err(e) if e.kind() == ErrorKind::Interrupted => {}
                        Err(e) if e.kind() == ErrorKind::Other => obs.errs.push("other".into()),
                        Err(e) => {
                            obs.res = err(&e);
                            return;
                        }
                    }
                }
                panic!("{STEP_BOUND_MSG}");
            });
            let w = bw.into_inner();
            obs.sink = w.sink.clone();
            logs.writer(&w.script, w.flushes, w.shutdowns);
        }
        other => panic!("harness: unknown helper {other}"),
    }
    (obs, logs)
}

// ------------------------------------------------------------------------------------------
// contract oracle: the reference of every helper, evaluated on the real run
// ------------------------------------------------------------------------------------------
fn is_prefix(a: &[u8], b: &[u8]) -> bool {
    a.len() <= b.len() && &b[..a.len()] == a
}

/// class of the input (what known findings are matched on); computed from the case and the
/// streams' logs, never from the model's expectation
fn input_class(c: &Case, logs: Option<&Logs>) -> &'static str {
    match c.h.as_str() {
        "read_to_end" | "read_to_end_at" => {
            if c.pre > 0 {
                "nonempty_destination"
            } else {
                "empty_destination"
            }
        }
        "read_vectored_exact" | "read_vectored_exact_at" => {
            let pre: usize = c.lens.iter().sum();
            match (c.native, pre > 0) {
                (true, true) => "native_readv_prefilled_members",
                (true, false) => "native_readv_empty_members",
                (false, true) => "default_readv_prefilled_members",
                (false, false) => "default_readv_empty_members",
            }
        }
        "bufreader" | "bufreader_fill" | "take_fill" => {
            if c.bc == 0 {
                "capacity_0"
            } else {
                "capacity_positive"
            }
        }
        "copy" => {
            if c.cap == 0 {
                "capacity_0"
            } else {
                "capacity_positive"
            }
        }
        "bufwriter" => {
            let intr = match logs {
                Some(l) => l.w_interrupted > 0,
                None => c.wsched.contains(&-1),
            };
            if intr { "inner_write_interrupted" } else { "no_interruption" }
        }
        "read_vectored_at" | "cursor_read_vectored" => {
            if c.pos > c.l {
                "position_beyond_end"
            } else {
                "position_within"
            }
        }
        "vec_write_vectored" => {
            if c.pre > c.lens.iter().sum() {
                "vector_longer_than_payload"
            } else {
                "vector_not_longer_than_payload"
            }
        }
        "vec_write_vectored_at" | "cursor_vec_write_vectored" => {
            let total: usize = c.lens.iter().sum();
            if c.pos <= c.pre && total < c.pre - c.pos {
                "payload_ends_inside_vector"
            } else {
                "payload_reaches_end_of_vector"
            }
        }
        _ => "any",
    }
}

fn expect_res(bad: &mut Vec<String>, got: &Res, want: &Res, what: &str) {
    if got != want {
        bad.push(format!("{what}: result {got:?}, the reference says {want:?}"));
    }
}
fn errk(e: &str) -> Res {
    Res {
        k: "err".into(),
        v: 0,
        e: e.into(),
    }
}

fn oracle(c: &Case, o: &Obs, l: &Logs) -> Vec<String> {
    let mut bad = l.remarks.clone();
    let at = c.h.ends_with("_at");
    let src: &[u8] = &l.src;
    let from = c.pos.min(src.len());
    let tail = &src[from..];
    // documented error kinds only
    if o.res.k == "err" {
        let allowed: &[&str] = if c.h == "append" {
            &["eof", "wzero", "other", "intr"]
        } else {
            &["eof", "wzero", "other"]
        };
        if !allowed.contains(&o.res.e.as_str()) {
            bad.push(format!("error kind {} is not one the helper documents", o.res.e));
        }
    }
    match c.h.as_str() {
        "read_exact" | "read_exact_at" => {
            let n = c.cap;
            if l.rfault.is_some() {
                expect_res(&mut bad, &o.res, &errk("other"), "stream failed");
            } else if tail.len() < n {
                expect_res(&mut bad, &o.res, &errk("eof"), "stream shorter than the buffer");
            } else {
                expect_res(&mut bad, &o.res, &ok(0), "enough data");
                let mut want = tail[..n].to_vec();
                if c.pre > n {
                    want.extend_from_slice(&seq(10 + n, c.pre - n));
                }
                if o.buf != want {
                    bad.push(format!("buffer {:?}, expected the first {n} bytes {:?}", o.buf, want));
                }
                if !at && o.rpos != n {
                    bad.push(format!("{} bytes consumed from the source, expected {n}", o.rpos));
                }
            }
            if !at && o.rpos > n {
                bad.push(format!("{} bytes consumed from the source, more than the {n} asked for", o.rpos));
            }
        }
        "read_to_end" | "read_to_end_at" => {
            let pre = seq(10, c.pre);
            let (want_res, k) = match l.rfault {
                Some(off) => (errk("other"), off.saturating_sub(from).min(tail.len())),
                None => (ok(tail.len()), tail.len()),
            };
            expect_res(&mut bad, &o.res, &want_res, "read to end");
            if !is_prefix(&pre, &o.buf) {
                bad.push(format!("pre-existing content {:?} not preserved: buffer {:?}", pre, o.buf));
            }
            let mut want = pre.clone();
            want.extend_from_slice(&tail[..k]);
            if o.buf != want {
                bad.push(format!("buffer {:?}, expected existing content followed by the stream {:?}", o.buf, want));
            }
        }
        "read_vectored_exact" | "read_vectored_exact_at" => {
            let n: usize = c.caps.iter().sum();
            if l.rfault.is_some() {
                expect_res(&mut bad, &o.res, &errk("other"), "stream failed");
            } else if tail.len() < n {
                expect_res(&mut bad, &o.res, &errk("eof"), "stream shorter than the buffers");
            } else {
                expect_res(&mut bad, &o.res, &ok(0), "enough data");
                let mut p = 0;
                for (j, cap) in c.caps.iter().enumerate() {
                    let want = &tail[p..p + cap];
                    if o.vb.get(j).map(|v| v.as_slice()) != Some(want) {
                        bad.push(format!("member {j} holds {:?}, expected {:?}", o.vb.get(j), want));
                    }
                    p += cap;
                }
                if !at && o.rpos != n {
                    bad.push(format!("{} bytes consumed from the source, expected {n}", o.rpos));
                }
            }
        }
        "append" => {
            let pre = seq(10, c.pre);
            if !is_prefix(&pre, &o.buf) {
                bad.push(format!("pre-existing content {:?} not preserved: buffer {:?}", pre, o.buf));
            }
            if o.res.k == "ok" {
                let mut want = pre.clone();
                want.extend_from_slice(&src[..(o.res.v as usize).min(src.len())]);
                if o.buf != want || o.rpos != o.res.v as usize {
                    bad.push(format!(
                        "append returned {} with buffer {:?} and {} bytes consumed, expected buffer {:?}",
                        o.res.v, o.buf, o.rpos, want
                    ));
                }
            } else if o.buf != pre || o.rpos != 0 {
                bad.push(format!("failed append changed the buffer to {:?} / consumed {}", o.buf, o.rpos));
            }
        }
        "take" | "bufreader" | "bufreader_fill" | "take_fill" => {
            let n = if c.h.starts_with("take") { c.lim.min(src.len()) } else { src.len() };
            expect_res(&mut bad, &o.res, &ok(n), "bytes delivered until end of stream");
            if o.got != src[..n] {
                bad.push(format!("delivered {:?}, expected {:?}", o.got, &src[..n]));
            }
            let want_errs: Vec<String> = if l.rfault.is_some() { vec!["other".into()] } else { vec![] };
            if o.errs != want_errs {
                bad.push(format!("errors seen {:?}, expected {:?}", o.errs, want_errs));
            }
            if c.h == "take" && o.rpos != n {
                bad.push(format!("{} bytes consumed from the inner reader, expected exactly {n}", o.rpos));
            }
        }
        "copy" => {
            let (want, k) = match (l.rfault, l.wfault) {
                (Some(off), _) => (errk("other"), off),
                (None, Some(("zero", off))) => (errk("wzero"), off),
                (None, Some((_, off))) => (errk("other"), off),
                (None, None) => (ok(src.len()), src.len()),
            };
            expect_res(&mut bad, &o.res, &want, "copy");
            let k = k.min(src.len());
            if o.sink != src[..k] {
                bad.push(format!("writer received {:?}, expected {:?}", o.sink, &src[..k]));
            }
        }
        "write_all" | "write_all_at" | "write_vectored_all" | "write_vectored_all_at" => {
            let n = if c.h.starts_with("write_vectored") { c.lens.iter().sum() } else { c.n };
            let payload = seq(0, n);
            let fault = if c.inner == "arr" && n > c.lim { Some(("zero", c.lim)) } else { l.wfault };
            let (want, k) = match fault {
                Some(("zero", off)) => (errk("wzero"), off - c.pos.min(off)),
                Some((_, off)) => (errk("other"), off - c.pos.min(off)),
                None => (ok(0), n),
            };
            expect_res(&mut bad, &o.res, &want, "write all");
            let mut expect = vec![];
            if k > 0 {
                expect = vec![0u8; c.pos];
                expect.extend_from_slice(&payload[..k.min(n)]);
            }
            if o.sink != expect {
                bad.push(format!("writer holds {:?}, expected {:?}", o.sink, expect));
            }
        }
        "slice_read" | "read_at" | "cursor_read" | "slice_read_vectored" | "read_vectored_at" | "cursor_read_vectored" => {
            let vect = c.h.contains("vectored");
            let room: usize = if vect { c.caps.iter().sum() } else { c.cap };
            let s = &tail[..room.min(tail.len())];
            expect_res(&mut bad, &o.res, &ok(s.len()), "bytes of the object from the position on");
            if vect {
                let mut p = 0;
                for (j, cap) in c.caps.iter().enumerate() {
                    let k = (*cap).min(s.len() - p);
                    if o.vb.get(j).map(|v| v.as_slice()) != Some(&s[p..p + k]) {
                        bad.push(format!("member {j} holds {:?}, expected {:?}", o.vb.get(j), &s[p..p + k]));
                    }
                    p += k;
                }
            } else {
                let mut want = s.to_vec();
                if c.pre > s.len() {
                    want.extend_from_slice(&seq(10 + s.len(), c.pre - s.len()));
                }
                if o.buf != want {
                    bad.push(format!("buffer {:?}, expected {:?}", o.buf, want));
                }
            }
            let want_pos = match c.h.as_str() {
                "slice_read" | "slice_read_vectored" => s.len(),
                "cursor_read" | "cursor_read_vectored" => c.pos + s.len(),
                _ => 0,
            };
            if o.rpos != want_pos {
                bad.push(format!("position / consumed {} expected {want_pos}", o.rpos));
            }
        }
        "vec_write" | "vec_write_vectored" | "slice_write" | "slice_write_vectored" | "arr_write_at"
        | "arr_write_vectored_at" | "vec_write_at" | "vec_write_vectored_at" | "cursor_vec_write"
        | "cursor_vec_write_vectored" => {
            let n: usize = if c.h.contains("vectored") { c.lens.iter().sum() } else { c.n };
            let payload = seq(0, n);
            let (k, dst, p): (usize, Vec<u8>, usize) = match c.h.as_str() {
                "vec_write" | "vec_write_vectored" => {
                    let mut d = seq(10, c.pre);
                    d.extend_from_slice(&payload);
                    (n, d, 0)
                }
                "slice_write" | "slice_write_vectored" => {
                    let k = n.min(c.lim);
                    (k, payload[..k].to_vec(), c.lim - k)
                }
                "arr_write_at" | "arr_write_vectored_at" => {
                    let at = c.pos.min(c.lim);
                    let k = n.min(c.lim - at);
                    let mut d = seq(10, c.lim);
                    d[at..at + k].copy_from_slice(&payload[..k]);
                    (k, d, 0)
                }
                _ => {
                    // Vec: the payload is stored at pos, the vector grows, a gap is zero filled
                    let mut d = seq(10, c.pre);
                    if d.len() < c.pos + n {
                        d.resize(c.pos + n, 0);
                    }
                    d[c.pos..c.pos + n].copy_from_slice(&payload);
                    (n, d, if c.h.starts_with("cursor") { c.pos + n } else { 0 })
                }
            };
            expect_res(&mut bad, &o.res, &ok(k), "bytes accepted");
            if o.sink != dst {
                bad.push(format!("destination {:?}, expected {:?}", o.sink, dst));
            }
            if o.rpos != p {
                bad.push(format!("position / room left {} expected {p}", o.rpos));
            }
        }
        "bufwriter" => {
            let payload = seq(0, c.n);
            if o.res.k == "ok" {
                if o.sink != payload {
                    bad.push(format!("after a successful flush the writer holds {:?}, expected {:?}", o.sink, payload));
                }
            } else {
                if !is_prefix(&o.sink, &payload) {
                    bad.push(format!("writer holds {:?}, not a prefix of the accepted bytes {:?}", o.sink, payload));
                }
                let fine = match (o.res.e.as_str(), l.wfault) {
                    ("other", Some(("err", _))) => true,
                    ("wzero", Some(("zero", _))) => true,
                    // a buffer of capacity 0 accepts nothing: write_all reports WriteZero
                    ("wzero", None) => c.bc == 0 && c.n > 0 && o.sink.is_empty(),
                    _ => false,
                };
                if !fine {
                    bad.push(format!("error {} without a matching failure of the inner writer {:?}", o.res.e, l.wfault));
                }
            }
        }
        _ => {}
    }
    bad
}

// ------------------------------------------------------------------------------------------
// comparison with the model
// ------------------------------------------------------------------------------------------
fn compare(c: &Case, o: &Obs, x: &Value) -> Vec<String> {
    let mut d = vec![];
    let xr = &x["res"];
    let mres = Res {
        k: xr["k"].as_str().unwrap().into(),
        v: xr["v"].as_u64().unwrap(),
        e: xr["e"].as_str().unwrap().into(),
    };
    if mres != o.res {
        d.push(format!("result: model {mres:?} impl {:?}", o.res));
    }
    let h = c.h.as_str();
    let scalar = matches!(
        h,
        "read_exact" | "read_exact_at" | "read_to_end" | "read_to_end_at" | "append" | "slice_read" | "read_at" | "cursor_read"
    );
    let vect = h.contains("vectored") && !h.contains("write");
    if scalar && bytes_of(&x["buf"]) != o.buf {
        d.push(format!("buffer: model {:?} impl {:?}", bytes_of(&x["buf"]), o.buf));
    }
    if vect {
        let m: Vec<Vec<u8>> = x["vb"].as_array().unwrap().iter().map(bytes_of).collect();
        if m != o.vb {
            d.push(format!("members: model {:?} impl {:?}", m, o.vb));
        }
    }
    if matches!(h, "take" | "bufreader" | "bufreader_fill" | "take_fill") && bytes_of(&x["got"]) != o.got {
        d.push(format!("delivered: model {:?} impl {:?}", bytes_of(&x["got"]), o.got));
    }
    if matches!(h, "take" | "bufreader" | "bufreader_fill" | "take_fill" | "bufwriter") {
        let m: Vec<String> = x["errs"].as_array().unwrap().iter().map(|s| s.as_str().unwrap().to_string()).collect();
        if m != o.errs {
            d.push(format!("errors: model {:?} impl {:?}", m, o.errs));
        }
    }
    if (h == "copy" || h.contains("write")) && bytes_of(&x["sink"]) != o.sink {
        d.push(format!("sink: model {:?} impl {:?}", bytes_of(&x["sink"]), o.sink));
    }
    if (is_mem(h) || (!h.ends_with("_at") && !h.starts_with("write") && h != "bufwriter")) && us(&x["rpos"]) != o.rpos {
        d.push(format!("consumed: model {} impl {}", us(&x["rpos"]), o.rpos));
    }
    d
}

fn run_case(case: &Value, rep: &mut Report) {
    let c = Case::parse(case);
    let x = &case["x"];
    for variant in variants(&c) {
        rep.steps += 1;
        let r = catch_unwind(AssertUnwindSafe(|| run_variant(&c, variant)));
        let helper = if variant == "string" { c.h.replace("read_to_end", "read_to_string") } else { c.h.clone() };
        match r {
            Err(e) => {
                let msg = panic_msg(e);
                if msg.starts_with("harness:") {
                    rep.problem("mismatch", json!({"helper": helper, "what": "harness"}), msg, case, 0);
                    continue;
                }
                let hang = msg.contains(STEP_BOUND_MSG);
                let sig = json!({"helper": helper, "class": input_class(&c, None),
                                 "symptom": if hang { "endless_loop" } else { "panic" }});
                rep.problem(
                    if hang { "hang" } else { "panic" },
                    sig,
                    format!("{helper} ({variant}) {}: {msg}", if hang { "exceeded the step bound" } else { "panicked" }),
                    case,
                    0,
                );
                if !hang && x["res"]["k"] != "panic" {
                    rep.problem(
                        "mismatch",
                        json!({"helper": helper, "variant": variant, "what": "panic not predicted"}),
                        format!("{helper} ({variant}) panicked, model says {}", x["res"]),
                        case,
                        0,
                    );
                }
            }
            Ok((obs, logs)) => {
                let bad = oracle(&c, &obs, &logs);
                if !bad.is_empty() {
                    let symptom = if bad.iter().any(|b| b.contains("not preserved")) {
                        "destination_content_lost"
                    } else if bad.iter().any(|b| b.contains("result")) {
                        "wrong_result"
                    } else {
                        "wrong_data"
                    };
                    rep.problem(
                        "contract",
                        json!({"helper": helper, "class": input_class(&c, Some(&logs)), "symptom": symptom}),
                        format!("{helper} ({variant}): {}", bad.join("; ")),
                        case,
                        0,
                    );
                }
                let mut diff = compare(&c, &obs, x);
                diff.extend(logs.drift.iter().map(|d| format!("schedule: {d}")));
                if logs.unused > 0 {
                    diff.push(format!("schedule: {} scheduled outcomes never requested", logs.unused));
                }
                if c.h == "copy" && obs.res.k == "ok" && (logs.flushes, logs.shutdowns) != (1, 1) && variant == "script" {
                    diff.push(format!("copy: flush x{} shutdown x{}, model 1/1", logs.flushes, logs.shutdowns));
                }
                if !diff.is_empty() {
                    rep.problem(
                        "mismatch",
                        json!({"helper": helper, "variant": variant}),
                        format!("{helper} ({variant}): {}", diff.join("; ")),
                        case,
                        0,
                    );
                } else if x["ok"].as_bool().unwrap() != bad.is_empty() {
                    rep.problem(
                        "mismatch",
                        json!({"helper": helper, "variant": variant, "what": "contract-eval"}),
                        format!("{helper} ({variant}): model says reference holds = {}, oracle says {:?}", x["ok"], bad),
                        case,
                        0,
                    );
                }
            }
        }
    }
}

fn main() {
    if std::env::var("VERIF_SHOW_PANICS").is_err() {
        silence_panics();
    }
    // The cases run on a worker thread; the main thread is the watchdog against a helper that
    // spins without ever calling its stream (the streams themselves enforce a step bound).
    let progress = Arc::new(AtomicU64::new(0));
    let current = Arc::new(Mutex::new(Value::Null));
    let (tx, rx) = mpsc::channel::<()>();
    let (p2, c2) = (progress.clone(), current.clone());
    std::thread::spawn(move || {
        let mut rep = Report::new();
        for case in cases_from_arg() {
            *c2.lock().unwrap() = case.clone();
            if catch_unwind(AssertUnwindSafe(|| run_case(&case, &mut rep))).is_err() {
                rep.problem(
                    "mismatch",
                    json!({"helper": case["op"]["h"], "what": "harness"}),
                    "harness failed to run the case".into(),
                    &case,
                    0,
                );
            }
            rep.cases += 1;
            p2.fetch_add(1, Ordering::SeqCst);
        }
        rep.finish();
        let _ = tx.send(());
    });
    let mut last = 0;
    let mut idle = 0;
    loop {
        match rx.recv_timeout(Duration::from_secs(1)) {
            Ok(()) => return,
            Err(mpsc::RecvTimeoutError::Disconnected) => std::process::exit(3),
            Err(mpsc::RecvTimeoutError::Timeout) => {
                let p = progress.load(Ordering::SeqCst);
                if p == last {
                    idle += 1;
                } else {
                    idle = 0;
                    last = p;
                }
                if idle >= 20 {
                    let case = current.lock().unwrap().clone();
                    let sig = json!({"helper": case["op"]["h"], "class": "any", "symptom": "endless_loop"});
                    println!(
                        "{}",
                        json!({"type": "hang", "sig": sig, "desc": "a helper did not return within 20 s", "case": case, "step": 0})
                    );
                    println!(
                        "{}",
                        json!({"type": "summary", "cases": p, "steps": p, "incomplete": true,
                               "problems": [{"type": "hang", "sig": sig, "count": 1}]})
                    );
                    std::process::exit(0);
                }
            }
        }
    }
}
