//! C13: replay Framing behaviours (spec/Gen_Framing.tla) on the real compio-io framers and
//! `Framed` (Sink + Stream) over scripted in-memory I/O.
//!
//! Per behaviour:
//!  1. `Framer::enclose` / `Framer::extract` are called directly and compared with the model
//!     (`enc`, `x0`);
//!  2. (round trip) every frame is sent through the real `Framed` sink into a scripted writer
//!     that accepts `wl` bytes per call, then the sink is closed;
//!  3. the bytes that reached the writer (round trip) or the hostile string are delivered by a
//!     scripted reader in exactly the fragments the model chose, and the real `Framed` stream
//!     is polled to its end (plus once more).
//! The I/O-visible event trace is compared with the model's (`mismatch` = drift), and the
//! property's own predicate is evaluated on the real observation (`contract`, `panic`, `hang`):
//! decoded == encoded, no panic, no error on a well-formed stream, termination within a bound.
use std::{
    cell::RefCell,
    collections::VecDeque,
    io,
    panic::{AssertUnwindSafe, catch_unwind},
    rc::Rc,
    sync::{
        Mutex,
        atomic::{AtomicBool, AtomicU64, Ordering},
    },
    time::Duration,
};

use bytes::{Bytes, BytesMut};
use compio_buf::{BufResult, IoBuf, IoBufExt, IoBufMut, SetLenExt};
use compio_io::{
    AsyncRead, AsyncWrite,
    framed::{
        Framed,
        codec::{Decoder, Encoder, bytes::BytesCodec, serde_json::SerdeJsonCodec},
        frame::{AnyDelimited, CharDelimited, Framer, LengthDelimited, NoopFramer},
    },
};
use futures_executor::block_on;
use futures_util::{SinkExt, StreamExt};
use hcore::out::{Report, cases_from_arg, panic_msg, silence_panics};
use serde_json::{Value, json};

// ---------------------------------------------------------------------------------------------
// watchdog: an endless loop inside the code under test cannot be interrupted, so a second
// thread reports it and ends the process
// ---------------------------------------------------------------------------------------------
static HEARTBEAT: AtomicU64 = AtomicU64::new(0);
static FINISHED: AtomicBool = AtomicBool::new(false);
static CURRENT: Mutex<String> = Mutex::new(String::new());

fn start_watchdog(limit_s: u64) {
    std::thread::spawn(move || {
        let mut last = HEARTBEAT.load(Ordering::SeqCst);
        let mut idle = 0u64;
        loop {
            std::thread::sleep(Duration::from_secs(1));
            if FINISHED.load(Ordering::SeqCst) {
                return;
            }
            let now = HEARTBEAT.load(Ordering::SeqCst);
            if now != last {
                last = now;
                idle = 0;
                continue;
            }
            idle += 1;
            if idle >= limit_s {
                let cur = CURRENT.lock().map(|s| s.clone()).unwrap_or_default();
                let case: Value = serde_json::from_str(&cur).unwrap_or(Value::Null);
                let sig = json!({"site": "framed", "cls": "no-progress"});
                println!(
                    "{}",
                    json!({"type": "hang", "sig": sig, "case": case, "step": 0,
                           "desc": format!("the code under test made no progress for {limit_s} s (endless loop)")})
                );
                println!(
                    "{}",
                    json!({"type": "summary", "cases": now, "steps": 0, "aborted": true,
                           "problems": [{"type": "hang", "sig": sig, "count": 1}]})
                );
                std::process::exit(0);
            }
        }
    });
}

// ---------------------------------------------------------------------------------------------
// scripted I/O
// ---------------------------------------------------------------------------------------------
#[derive(Clone, Debug, PartialEq)]
enum Ev {
    W(usize),
    Fl,
    Sh,
    R(i64),
    It(Vec<u8>),
    Er,
    End,
    Pan,
}

impl Ev {
    fn to_json(&self) -> Value {
        match self {
            Ev::W(n) => json!(["w", n]),
            Ev::Fl => json!(["fl"]),
            Ev::Sh => json!(["sh"]),
            Ev::R(n) => json!(["r", n]),
            Ev::It(p) => json!(["it", p]),
            Ev::Er => json!(["er"]),
            Ev::End => json!(["end"]),
            Ev::Pan => json!(["pan"]),
        }
    }
}

#[derive(Clone, Copy, Debug)]
enum ReadOp {
    Data(usize),
    Zero,
    Err,
}

#[derive(Default)]
struct Shared {
    log: Vec<Ev>,
    sink: Vec<u8>,
    wlimit: usize,
    // reader
    data: Vec<u8>,
    rpos: usize,
    script: VecDeque<ReadOp>,
    read_calls: usize,
    read_bound: usize,
    bound_hit: bool,
    zero_cap_reads: usize,
    min_cap: usize,
    off_script: usize,
}

#[derive(Clone)]
struct Io(Rc<RefCell<Shared>>);

impl AsyncRead for Io {
    async fn read<B: IoBufMut>(&mut self, mut buf: B) -> BufResult<usize, B> {
        let mut s = self.0.borrow_mut();
        s.read_calls += 1;
        if s.read_calls > s.read_bound {
            s.bound_hit = true;
            return BufResult(Err(io::Error::other("harness: read bound exceeded")), buf);
        }
        let cap = buf.as_uninit().len();
        s.min_cap = s.min_cap.min(cap);
        if cap == 0 {
            s.zero_cap_reads += 1;
        }
        let op = match s.script.pop_front() {
            Some(op) => op,
            None => {
                s.off_script += 1;
                if s.rpos < s.data.len() {
                    ReadOp::Data(s.data.len() - s.rpos)
                } else {
                    ReadOp::Zero
                }
            }
        };
        match op {
            ReadOp::Err => {
                s.log.push(Ev::R(-1));
                BufResult(Err(io::Error::other("scripted read error")), buf)
            }
            ReadOp::Zero => {
                s.log.push(Ev::R(0));
                BufResult(Ok(0), buf)
            }
            ReadOp::Data(n) => {
                let n = n.min(cap).min(s.data.len() - s.rpos);
                let from = s.rpos;
                {
                    let un = buf.as_uninit();
                    for i in 0..n {
                        un[i].write(s.data[from + i]);
                    }
                }
                s.rpos += n;
                unsafe { buf.advance_to(n) };
                s.log.push(Ev::R(n as i64));
                BufResult(Ok(n), buf)
            }
        }
    }
}

impl AsyncWrite for Io {
    async fn write<T: IoBuf>(&mut self, buf: T) -> BufResult<usize, T> {
        let mut s = self.0.borrow_mut();
        let b = buf.as_init();
        let n = b.len().min(s.wlimit);
        s.sink.extend_from_slice(&b[..n]);
        s.log.push(Ev::W(n));
        drop(s);
        BufResult(Ok(n), buf)
    }

    async fn flush(&mut self) -> io::Result<()> {
        self.0.borrow_mut().log.push(Ev::Fl);
        Ok(())
    }

    async fn shutdown(&mut self) -> io::Result<()> {
        self.0.borrow_mut().log.push(Ev::Sh);
        Ok(())
    }
}

// ---------------------------------------------------------------------------------------------
// a user-written framer that uses the Err arm of Framer::extract: LengthDelimited (2 bytes, big
// endian) that refuses frames longer than `limit` (model: framer kind "lim")
// ---------------------------------------------------------------------------------------------
struct LimFramer {
    inner: LengthDelimited,
    limit: u64,
}

impl LimFramer {
    fn new(limit: u64) -> Self {
        Self { inner: LengthDelimited::new().set_length_field_len(2).set_length_field_is_big_endian(true), limit }
    }
}

impl<B: IoBufMut> Framer<B> for LimFramer {
    fn enclose(&mut self, buf: &mut B) {
        self.inner.enclose(buf)
    }

    fn extract(&mut self, buf: &compio_buf::Slice<B>) -> io::Result<Option<compio_io::framed::frame::Frame>> {
        let b = buf.as_init();
        if b.len() >= 2 {
            let len = u16::from_be_bytes([b[0], b[1]]) as u64;
            if len > self.limit {
                return Err(io::Error::new(io::ErrorKind::InvalidData, "frame longer than the limit"));
            }
        }
        self.inner.extract(buf)
    }
}

// ---------------------------------------------------------------------------------------------
// codecs and buffers under test
// ---------------------------------------------------------------------------------------------
trait CodecKind {
    type C: Clone;
    type Item: Clone + PartialEq + std::fmt::Debug;
    fn codec() -> Self::C;
    fn to_item(payload: &[u8]) -> Option<Self::Item>;
    fn to_bytes(item: &Self::Item) -> Vec<u8>;
}

struct BytesK;
impl CodecKind for BytesK {
    type C = BytesCodec;
    type Item = Bytes;

    fn codec() -> BytesCodec {
        BytesCodec::new()
    }

    fn to_item(p: &[u8]) -> Option<Bytes> {
        Some(Bytes::copy_from_slice(p))
    }

    fn to_bytes(i: &Bytes) -> Vec<u8> {
        i.to_vec()
    }
}

struct JsonK;
impl CodecKind for JsonK {
    type C = SerdeJsonCodec;
    type Item = Value;

    fn codec() -> SerdeJsonCodec {
        SerdeJsonCodec::new()
    }

    fn to_item(p: &[u8]) -> Option<Value> {
        serde_json::from_slice(p).ok()
    }

    fn to_bytes(i: &Value) -> Vec<u8> {
        serde_json::to_vec(i).unwrap()
    }
}

trait BufKind: IoBufMut + Unpin + 'static {
    const NAME: &'static str;
    fn fresh() -> Self;
    fn from_bytes(b: &[u8]) -> Self;
}
impl BufKind for Vec<u8> {
    const NAME: &'static str = "vec";

    fn fresh() -> Self {
        Vec::new()
    }

    fn from_bytes(b: &[u8]) -> Self {
        b.to_vec()
    }
}
impl BufKind for BytesMut {
    const NAME: &'static str = "bytesmut";

    fn fresh() -> Self {
        BytesMut::new()
    }

    fn from_bytes(b: &[u8]) -> Self {
        BytesMut::from(b)
    }
}

// ---------------------------------------------------------------------------------------------
// one behaviour
// ---------------------------------------------------------------------------------------------
struct Case<'a> {
    v: &'a Value,
    rt: bool,
    k: String,
    lfl: usize,
    be: bool,
    dk: String,
    frames: Vec<Vec<u8>>,
    wire: Vec<u8>,
    enc: Vec<Vec<u8>>,
    wl: usize,
    ev: Vec<Ev>,
    model_pan: bool,
}

/// the limit of the "lim" framer (spec/Framing.tla LimLimit)
const LIM_LIMIT: u64 = 3;

fn bytes_of(v: &Value) -> Vec<u8> {
    v.as_array().map(|a| a.iter().map(|x| x.as_u64().unwrap() as u8).collect()).unwrap_or_default()
}

fn parse_case(v: &Value) -> Case<'_> {
    let ev = v["ev"]
        .as_array()
        .unwrap()
        .iter()
        .map(|e| {
            let n = e["n"].as_i64().unwrap();
            match e["e"].as_str().unwrap() {
                "w" => Ev::W(n as usize),
                "fl" => Ev::Fl,
                "sh" => Ev::Sh,
                "r" => Ev::R(n),
                "it" => Ev::It(bytes_of(&e["p"])),
                "er" => Ev::Er,
                "end" => Ev::End,
                "pan" => Ev::Pan,
                x => panic!("unknown event {x}"),
            }
        })
        .collect();
    Case {
        v,
        rt: v["mode"] == "rt",
        k: v["k"].as_str().unwrap().to_string(),
        lfl: v["lfl"].as_u64().unwrap() as usize,
        be: v["be"].as_bool().unwrap(),
        dk: v["dk"].as_str().unwrap().to_string(),
        frames: v["frames"].as_array().map(|a| a.iter().map(bytes_of).collect()).unwrap_or_default(),
        wire: bytes_of(&v["wire"]),
        enc: v["enc"].as_array().map(|a| a.iter().map(bytes_of).collect()).unwrap_or_default(),
        wl: v["wl"].as_u64().unwrap_or(16) as usize,
        ev,
        model_pan: v["pan"].as_bool().unwrap_or(false),
    }
}

/// Signature fields identifying the framer.
fn fsig(c: &Case) -> serde_json::Map<String, Value> {
    let mut m = serde_json::Map::new();
    m.insert("k".into(), json!(c.k));
    if c.k == "ld" || c.k == "lim" {
        m.insert("lfl".into(), json!(c.lfl));
    }
    if c.k == "delim" {
        m.insert("dk".into(), json!(c.dk));
    }
    m
}

fn sig(c: &Case, site: &str, cls: &str) -> Value {
    let mut m = fsig(c);
    m.insert("site".into(), json!(site));
    m.insert("cls".into(), json!(cls));
    Value::Object(m)
}

/// For LengthDelimited: does the length field starting at `at` of `stream` make lfl + len
/// overflow a usize?  (independent computation on the real bytes, used only for signatures)
fn header_overflows(c: &Case, stream: &[u8], at: usize) -> bool {
    if c.k != "ld" || stream.len() < at + c.lfl {
        return false;
    }
    let h = &stream[at..at + c.lfl];
    let mut v: u64 = 0;
    if c.be {
        for b in h {
            v = (v << 8) | *b as u64;
        }
    } else {
        for b in h.iter().rev() {
            v = (v << 8) | *b as u64;
        }
    }
    (v as usize).checked_add(c.lfl).is_none()
}

/// Does some payload length not fit the length field? (only for signatures)
fn length_exceeds_field(c: &Case) -> bool {
    c.k == "ld" && c.lfl < 8 && c.frames.iter().any(|p| (p.len() as u128) >= (1u128 << (8 * c.lfl)))
}

fn direct_checks<F, B>(c: &Case, mk: &dyn Fn() -> F, rep: &mut Report)
where
    F: Framer<B>,
    B: BufKind,
{
    // enclose + extract of each frame on its own
    for (i, p) in c.frames.iter().enumerate() {
        rep.steps += 1;
        let mut framer = mk();
        let r = catch_unwind(AssertUnwindSafe(|| {
            let mut b = B::from_bytes(p);
            framer.enclose(&mut b);
            let enclosed = b.as_init().to_vec();
            let sl = b.slice(..);
            let x = framer.extract(&sl);
            let got = match x {
                Ok(Some(f)) => {
                    let flen = f.len();
                    let inside = flen <= sl.as_init().len();
                    let payload = if inside { f.slice(sl).as_init().to_vec() } else { vec![] };
                    Some((flen, inside, payload))
                }
                Ok(None) => None,
                Err(_) => None,
            };
            (enclosed, got)
        }));
        match r {
            Err(e) => rep.problem(
                "panic",
                sig(c, "enclose-extract", if length_exceeds_field(c) { "length-exceeds-field" } else { "fits" }),
                format!("{} enclose/extract of a {}-byte payload panicked: {}", B::NAME, p.len(), panic_msg(e)),
                c.v,
                i,
            ),
            Ok((enclosed, got)) => {
                if c.enc.get(i) != Some(&enclosed) {
                    rep.problem(
                        "mismatch",
                        sig(c, "enclose", "model"),
                        format!("{} enclose: model {:?} impl {:?}", B::NAME, c.enc.get(i), enclosed),
                        c.v,
                        i,
                    );
                }
                if c.k != "noop" {
                    let ok = matches!(&got, Some((flen, true, pl)) if *flen == enclosed.len() && pl == p);
                    if !ok {
                        let cls = if c.k == "ld" && c.lfl < 8 && (p.len() as u128) >= (1u128 << (8 * c.lfl)) {
                            "length-exceeds-field"
                        } else {
                            "fits"
                        };
                        rep.problem(
                            "contract",
                            sig(c, "enclose-extract", cls),
                            format!(
                                "{}: extract(enclose(p)) != p for a payload of {} bytes: header {:?}, extract gave {:?}",
                                B::NAME,
                                p.len(),
                                &enclosed[..enclosed.len().min(c.lfl.max(1))],
                                got.map(|(l, i, pl)| (l, i, pl.len()))
                            ),
                            c.v,
                            i,
                        );
                    }
                }
            }
        }
    }
    // extract on the complete wire
    if !c.v["x0"].is_null() {
        rep.steps += 1;
        let mut framer = mk();
        let wire = c.wire.clone();
        let r = catch_unwind(AssertUnwindSafe(|| {
            let sl = B::from_bytes(&wire).slice(..);
            match framer.extract(&sl) {
                Ok(Some(f)) => {
                    let flen = f.len();
                    let total = sl.as_init().len();
                    let pl = if flen <= total { f.slice(sl).as_init().to_vec() } else { vec![] };
                    ("frame", flen, total, pl)
                }
                Ok(None) => ("more", 0, 0, vec![]),
                Err(_) => ("err", 0, 0, vec![]),
            }
        }));
        let x0 = &c.v["x0"];
        match r {
            Err(e) => {
                let cls = if header_overflows(c, &c.wire, 0) { "lfl+len-overflows-usize" } else { "other" };
                rep.problem(
                    "panic",
                    sig(c, "extract", cls),
                    format!("{} extract({:?}) panicked: {}", B::NAME, c.wire, panic_msg(e)),
                    c.v,
                    0,
                );
                if x0["r"] != "panic" {
                    rep.problem("mismatch", sig(c, "extract", "model"), "model predicts no panic".into(), c.v, 0);
                }
            }
            Ok((r, flen, total, pl)) => {
                if r == "frame" && flen > total {
                    rep.problem(
                        "contract",
                        sig(c, "extract", "frame-outside-buffer"),
                        format!("extract returned a frame of {flen} bytes from a buffer of {total}"),
                        c.v,
                        0,
                    );
                }
                let mlen = x0["pre"].as_u64().unwrap() + x0["pay"].as_u64().unwrap() + x0["suf"].as_u64().unwrap();
                let same = x0["r"] == r && (r != "frame" || (mlen as usize == flen && pl.len() as u64 == x0["pay"].as_u64().unwrap()));
                if !same {
                    rep.problem(
                        "mismatch",
                        sig(c, "extract", "model"),
                        format!("{} extract({:?}): model {} impl {r} len {flen}", B::NAME, c.wire, x0),
                        c.v,
                        0,
                    );
                }
            }
        }
    }
}

fn run_framed<F, K, B>(c: &Case, mk: &dyn Fn() -> F, rep: &mut Report)
where
    F: Framer<B> + Unpin + 'static,
    K: CodecKind,
    K::C: Encoder<K::Item, B> + Decoder<K::Item, B> + Unpin + 'static,
    <K::C as Encoder<K::Item, B>>::Error: std::fmt::Debug,
    <K::C as Decoder<K::Item, B>>::Error: std::fmt::Debug,
    K::Item: Unpin + 'static,
    B: BufKind,
{
    let items: Vec<K::Item> = match c.frames.iter().map(|p| K::to_item(p)).collect::<Option<Vec<_>>>() {
        Some(i) => i,
        None => return, // payload is not a text of this codec
    };
    let sh = Rc::new(RefCell::new(Shared { wlimit: c.wl.max(1), min_cap: usize::MAX, ..Default::default() }));
    let io = Io(sh.clone());
    let mut framed = Framed::symmetric::<K::Item>(K::codec(), mk())
        .with_reader(io.clone())
        .with_writer(io.clone())
        .with_buffer(B::fresh(), B::fresh());
    let who = format!("{}/{}", B::NAME, std::any::type_name::<K>().rsplit("::").next().unwrap_or(""));
    let exceeds = length_exceeds_field(c);
    let rt_cls = if exceeds { "length-exceeds-field" } else { "fits" };

    // ---- write side ----
    if c.rt {
        for (i, it) in items.iter().enumerate() {
            rep.steps += 1;
            let r = catch_unwind(AssertUnwindSafe(|| block_on(framed.send(it.clone()))));
            match r {
                Err(e) => {
                    rep.problem(
                        "panic",
                        sig(c, "framed-write", rt_cls),
                        format!("{who}: send of frame {i} ({} bytes) panicked: {}", c.frames[i].len(), panic_msg(e)),
                        c.v,
                        i,
                    );
                    return;
                }
                Ok(Err(e)) => {
                    rep.problem(
                        "contract",
                        sig(c, "framed-write", rt_cls),
                        format!("{who}: send of frame {i} failed on a writer that never fails: {e:?}"),
                        c.v,
                        i,
                    );
                    return;
                }
                Ok(Ok(())) => {}
            }
        }
        let r = catch_unwind(AssertUnwindSafe(|| block_on(framed.close())));
        match r {
            Err(e) => {
                rep.problem("panic", sig(c, "framed-write", rt_cls), format!("{who}: close panicked: {}", panic_msg(e)), c.v, 0);
                return;
            }
            Ok(Err(e)) => {
                rep.problem("contract", sig(c, "framed-write", rt_cls), format!("{who}: close failed: {e:?}"), c.v, 0);
                return;
            }
            Ok(Ok(())) => {}
        }
    }
    // ---- read side: script from the model's read events ----
    {
        let mut s = sh.borrow_mut();
        s.data = if c.rt { s.sink.clone() } else { c.wire.clone() };
        s.script = c
            .ev
            .iter()
            .filter_map(|e| match e {
                Ev::R(-1) => Some(ReadOp::Err),
                Ev::R(0) => Some(ReadOp::Zero),
                Ev::R(n) => Some(ReadOp::Data(*n as usize)),
                _ => None,
            })
            .collect();
        s.read_bound = 4 * s.data.len() + 64;
    }
    let stream = sh.borrow().data.clone();
    let after = c.ev.iter().filter(|e| **e == Ev::End).count().max(1);
    let item_bound = 2 * stream.len() + 16;
    let mut decoded: Vec<K::Item> = vec![];
    let mut decoded_at_first_end: Option<usize> = None; // what a consumer that stops at None has seen
    let mut consumed = 0usize; // bytes of the stream covered by the frames returned so far (ld only)
    let mut ends = 0;
    let mut errors = 0;
    let mut polls = 0;
    let mut problem_reported = false;
    let mut last_was_framer_err = false;
    while ends < after {
        rep.steps += 1;
        polls += 1;
        if polls > item_bound {
            rep.problem(
                "hang",
                sig(c, "framed-read", "no-termination"),
                format!("{who}: the stream did not end after {item_bound} items for {} input bytes", stream.len()),
                c.v,
                polls,
            );
            problem_reported = true;
            break;
        }
        let r = catch_unwind(AssertUnwindSafe(|| block_on(framed.next())));
        match r {
            Err(e) => {
                sh.borrow_mut().log.push(Ev::Pan);
                let cls = if last_was_framer_err {
                    "poll-after-framer-error"
                } else if header_overflows(c, &stream, consumed) {
                    "lfl+len-overflows-usize"
                } else if exceeds {
                    "length-exceeds-field"
                } else {
                    "other"
                };
                rep.problem(
                    "panic",
                    sig(c, "framed-read", cls),
                    format!(
                        "{who}: poll_next panicked after {} items on stream {:?} (next header at {consumed}): {}",
                        decoded.len(),
                        &stream[..stream.len().min(40)],
                        panic_msg(e)
                    ),
                    c.v,
                    polls,
                );
                problem_reported = true;
                break;
            }
            Ok(None) => {
                last_was_framer_err = false;
                sh.borrow_mut().log.push(Ev::End);
                decoded_at_first_end.get_or_insert(decoded.len());
                ends += 1;
            }
            Ok(Some(Ok(it))) => {
                last_was_framer_err = false;
                let b = K::to_bytes(&it);
                consumed += c.lfl + b.len();
                sh.borrow_mut().log.push(Ev::It(b));
                decoded.push(it);
            }
            Ok(Some(Err(_))) => {
                // an error item that does not follow a failed read call comes from the framer
                let from_read = matches!(sh.borrow().log.last(), Some(Ev::R(-1)));
                last_was_framer_err = !from_read && c.k == "lim";
                sh.borrow_mut().log.push(Ev::Er);
                if !last_was_framer_err {
                    errors += 1;
                }
                if sh.borrow().bound_hit {
                    rep.problem(
                        "hang",
                        sig(c, "framed-read", "no-termination"),
                        format!("{who}: more than {} read calls for {} input bytes", sh.borrow().read_bound, stream.len()),
                        c.v,
                        polls,
                    );
                    problem_reported = true;
                    break;
                }
            }
        }
    }
    let s = sh.borrow();
    let injected = c.ev.iter().filter(|e| **e == Ev::R(-1)).count();
    // ---- contract oracle on the real observation ----
    if !problem_reported {
        if s.zero_cap_reads > 0 {
            rep.problem(
                "contract",
                sig(c, "framed-read", "zero-capacity-read"),
                format!("{who}: the reader was offered a buffer without spare capacity {} times (an empty read then looks like the end of the stream)", s.zero_cap_reads),
                c.v,
                0,
            );
        }
        // on a well-formed stream every error item needs a cause (hostile input may be answered with errors)
        if c.rt && errors > injected {
            rep.problem(
                "contract",
                sig(c, "framed-read", rt_cls),
                format!("{who}: {errors} error items, only {injected} read errors were injected"),
                c.v,
                0,
            );
        }
        if c.rt {
            // the frames a consumer has received when the stream reports its end for the first time
            let seen = decoded_at_first_end.unwrap_or(decoded.len());
            let sent: Vec<Vec<u8>> = items.iter().map(|i| K::to_bytes(i)).collect();
            let got: Vec<Vec<u8>> = decoded[..seen].iter().map(|i| K::to_bytes(i)).collect();
            let ok = if c.k == "noop" {
                sent.concat() == got.concat() && got.iter().all(|g| !g.is_empty())
            } else {
                sent == got && items[..] == decoded[..seen] && decoded.len() == seen
            };
            if !ok {
                rep.problem(
                    "contract",
                    sig(c, "framed-roundtrip", rt_cls),
                    format!(
                        "{who}: decoded frame list differs from the encoded one: sent {} frames (lengths {:?}), got {} frames (lengths {:?}); wire {:?}",
                        sent.len(),
                        sent.iter().map(|p| p.len()).collect::<Vec<_>>(),
                        got.len(),
                        got.iter().take(12).map(|p| p.len()).collect::<Vec<_>>(),
                        &stream[..stream.len().min(24)]
                    ),
                    c.v,
                    0,
                );
            }
        }
    }
    // ---- model comparison ----
    if c.rt && s.sink != c.wire {
        rep.problem(
            "mismatch",
            sig(c, "framed-write", "model"),
            format!("{who}: bytes on the wire: model {:?} impl {:?}", &c.wire[..c.wire.len().min(40)], &s.sink[..s.sink.len().min(40)]),
            c.v,
            0,
        );
    }
    if s.log != c.ev {
        let at = s.log.iter().zip(c.ev.iter()).position(|(a, b)| a != b).unwrap_or(s.log.len().min(c.ev.len()));
        rep.problem(
            "mismatch",
            sig(c, "framed-events", "model"),
            format!(
                "{who}: event {at}: model {} impl {} (model has {} events, impl {}; reads outside the script: {})",
                c.ev.get(at).map(|e| e.to_json().to_string()).unwrap_or("-".into()),
                s.log.get(at).map(|e| e.to_json().to_string()).unwrap_or("-".into()),
                c.ev.len(),
                s.log.len(),
                s.off_script
            ),
            c.v,
            at,
        );
    }
    let _ = c.model_pan;
}

fn run_with_framer<F, B>(c: &Case, mk: &dyn Fn() -> F, rep: &mut Report)
where
    F: Framer<B> + Unpin + 'static,
    B: BufKind,
{
    direct_checks::<F, B>(c, mk, rep);
    match c.v["codec"].as_str().unwrap_or("bytes") {
        "json" => run_framed::<F, JsonK, B>(c, mk, rep),
        _ => run_framed::<F, BytesK, B>(c, mk, rep),
    }
}

fn run_case<B: BufKind>(c: &Case, rep: &mut Report) {
    match (c.k.as_str(), c.dk.as_str()) {
        ("ld", _) => {
            let (lfl, be) = (c.lfl, c.be);
            run_with_framer::<LengthDelimited, B>(
                c,
                &move || LengthDelimited::new().set_length_field_len(lfl).set_length_field_is_big_endian(be),
                rep,
            )
        }
        ("delim", "nl") => run_with_framer::<CharDelimited<'\n'>, B>(c, &CharDelimited::<'\n'>::new, rep),
        ("delim", "c1") => run_with_framer::<CharDelimited<'\u{1}'>, B>(c, &CharDelimited::<'\u{1}'>::new, rep),
        ("delim", "R3") => run_with_framer::<CharDelimited<'ℝ'>, B>(c, &CharDelimited::<'ℝ'>::new, rep),
        ("delim", "a12") => run_with_framer::<AnyDelimited<'static>, B>(c, &|| AnyDelimited::new(&[1, 2]), rep),
        ("delim", "a11") => run_with_framer::<AnyDelimited<'static>, B>(c, &|| AnyDelimited::new(&[1, 1]), rep),
        ("noop", _) => run_with_framer::<NoopFramer, B>(c, &NoopFramer::new, rep),
        ("lim", _) => {
            assert_eq!(c.v["limit"].as_u64(), Some(LIM_LIMIT), "harness: model LimLimit differs");
            assert!(c.lfl == 2 && c.be, "harness: the lim framer is 2 bytes big endian");
            run_with_framer::<LimFramer, B>(c, &|| LimFramer::new(LIM_LIMIT), rep)
        }
        (k, dk) => panic!("unknown framer {k} {dk}"),
    }
}

fn main() {
    if std::env::var("VERIF_SHOW_PANICS").is_err() {
        silence_panics();
    }
    start_watchdog(std::env::var("VERIF_WATCHDOG_S").ok().and_then(|s| s.parse().ok()).unwrap_or(60));
    let mut rep = Report::new();
    for v in cases_from_arg() {
        if let Ok(mut cur) = CURRENT.lock() {
            *cur = v.to_string();
        }
        let c = parse_case(&v);
        for variant in 0..2 {
            let r = catch_unwind(AssertUnwindSafe(|| {
                if variant == 0 {
                    run_case::<Vec<u8>>(&c, &mut rep)
                } else {
                    run_case::<BytesMut>(&c, &mut rep)
                }
            }));
            if let Err(e) = r {
                rep.problem(
                    "panic",
                    sig(&c, "harness", "outside-catch"),
                    format!("panic outside the guarded calls: {}", panic_msg(e)),
                    &v,
                    0,
                );
            }
        }
        rep.cases += 1;
        HEARTBEAT.fetch_add(1, Ordering::SeqCst);
    }
    FINISHED.store(true, Ordering::SeqCst);
    rep.finish();
}
