//! C13: replay Ancillary behaviours (spec/Gen_Ancillary.tla) on the real
//! `AncillaryBuilder` / `AncillaryIter` of compio-io.
//!
//! Every behaviour (buffer capacity + list of payload sizes) is built and iterated on two
//! buffer types (`AncillaryBuf<N>` where N is one of the instantiated sizes, and an aligned heap
//! buffer pre-filled with garbage) with two payload families (a harness type that records the
//! slices handed to `AncillaryData::{encode, decode}`, and `[u8; N]` through the crate's bytemuck
//! blanket impl).  The answers of `push`, `buf_len`, the iterated headers and the decode slices are
//! compared with the model; independently the property is evaluated on the real observation:
//! a request is refused exactly when it does not fit (computed with libc's CMSG_SPACE), what was
//! accepted is iterated back unchanged, nothing panics, every slice lies inside the control buffer.
use std::{
    cell::{Cell, RefCell},
    mem::MaybeUninit,
    panic::{AssertUnwindSafe, catch_unwind},
};

use compio_buf::{IoBuf, IoBufExt, IoBufMut, SetLen};
use compio_io::ancillary::{AncillaryBuf, AncillaryBuilder, AncillaryData, AncillaryIter, AncillaryRef, CodecError};
use hcore::out::{Report, cases_from_arg, panic_msg, silence_panics};
use serde_json::{Value, json};

// ---------------------------------------------------------------------------------------------
// buffers
// ---------------------------------------------------------------------------------------------
trait CtlBuf: IoBufMut + Sized {
    const NAME: &'static str;
    fn make(cap: usize) -> Option<Self>;
}

/// Heap buffer of exactly `cap` bytes, aligned for cmsghdr, filled with 0xAA.
struct DynBuf {
    store: Vec<u64>,
    cap: usize,
    len: usize,
}

impl IoBuf for DynBuf {
    fn as_init(&self) -> &[u8] {
        unsafe { std::slice::from_raw_parts(self.store.as_ptr() as *const u8, self.len) }
    }
}
impl SetLen for DynBuf {
    unsafe fn set_len(&mut self, len: usize) {
        self.len = len;
    }
}
impl IoBufMut for DynBuf {
    fn as_uninit(&mut self) -> &mut [MaybeUninit<u8>] {
        unsafe { std::slice::from_raw_parts_mut(self.store.as_mut_ptr() as *mut MaybeUninit<u8>, self.cap) }
    }
}
impl CtlBuf for DynBuf {
    const NAME: &'static str = "heap";

    fn make(cap: usize) -> Option<Self> {
        Some(DynBuf { store: vec![0xAAAA_AAAA_AAAA_AAAAu64; cap / 8 + 2], cap, len: 0 })
    }
}

macro_rules! ancbuf {
    ($($n:literal),*) => {
        $(impl CtlBuf for AncillaryBuf<$n> {
            const NAME: &'static str = "AncillaryBuf";
            fn make(cap: usize) -> Option<Self> {
                if cap == $n { Some(AncillaryBuf::<$n>::new()) } else { None }
            }
        })*
        fn run_ancbuf(case: &Value, fam: usize, rep: &mut Report) -> bool {
            let cap = case["cap"].as_u64().unwrap() as usize;
            match cap {
                $($n => { run_one::<AncillaryBuf<$n>>(case, fam, rep); true })*
                _ => false,
            }
        }
    };
}
ancbuf!(0, 8, 15, 16, 17, 23, 24, 31, 32, 33, 40, 47, 48, 56, 64, 72, 80, 96, 128);

// ---------------------------------------------------------------------------------------------
// payloads
// ---------------------------------------------------------------------------------------------
thread_local! {
    static DEC: RefCell<Vec<(usize, usize)>> = const { RefCell::new(Vec::new()) };
    static ENC: RefCell<Vec<(usize, usize)>> = const { RefCell::new(Vec::new()) };
}

fn pattern(idx: usize, j: usize) -> u8 {
    (idx * 31 + j * 7 + 1) as u8
}

#[derive(Clone, Copy, PartialEq, Debug)]
struct Blob<const N: usize>([u8; N]);

impl<const N: usize> Blob<N> {
    fn of(idx: usize) -> Self {
        let mut a = [0u8; N];
        for (j, b) in a.iter_mut().enumerate() {
            *b = pattern(idx, j);
        }
        Blob(a)
    }
}

impl<const N: usize> AncillaryData for Blob<N> {
    const SIZE: usize = N;

    fn encode(&self, buffer: &mut [MaybeUninit<u8>]) -> Result<(), CodecError> {
        ENC.with(|e| e.borrow_mut().push((buffer.as_ptr() as usize, buffer.len())));
        if buffer.len() < N {
            return Err(CodecError::BufferTooSmall);
        }
        for j in 0..N {
            buffer[j].write(self.0[j]);
        }
        Ok(())
    }

    fn decode(buffer: &[u8]) -> Result<Self, CodecError> {
        DEC.with(|d| d.borrow_mut().push((buffer.as_ptr() as usize, buffer.len())));
        if buffer.len() < N {
            return Err(CodecError::BufferTooSmall);
        }
        let mut a = [0u8; N];
        // only the payload bytes are touched, whatever length the slice claims
        unsafe { std::ptr::copy_nonoverlapping(buffer.as_ptr(), a.as_mut_ptr(), N) };
        Ok(Blob(a))
    }
}

fn arr<const N: usize>(idx: usize) -> [u8; N] {
    Blob::<N>::of(idx).0
}

fn push_n<const N: usize, B: IoBufMut + ?Sized>(b: &mut AncillaryBuilder<'_, B>, fam: usize, lv: i32, ty: i32, idx: usize) -> Result<(), CodecError> {
    if fam == 0 { b.push(lv, ty, &Blob::<N>::of(idx)) } else { b.push(lv, ty, &arr::<N>(idx)) }
}

/// Some(true) = decoded and equal to what was pushed, Some(false) = decoded but different, None = decode error
fn data_n<const N: usize>(r: &AncillaryRef<'_>, fam: usize, idx: usize) -> Option<bool> {
    if fam == 0 {
        r.data::<Blob<N>>().ok().map(|v| v == Blob::<N>::of(idx))
    } else {
        r.data::<[u8; N]>().ok().map(|v| v == arr::<N>(idx))
    }
}

macro_rules! with_n {
    ($size:expr, $n:ident => $body:expr) => {
        with_n!(@arms $size, $n, $body, 0 1 2 3 4 5 6 7 8 9 10 11 12 13 14 15 16 17 18 19 20 21 22 23 24)
    };
    (@arms $size:expr, $n:ident, $body:expr, $($v:literal)*) => {
        match $size {
            $($v => {
                const $n: usize = $v;
                $body
            })*
            s => panic!("harness: payload size {s} not instantiated"),
        }
    };
}

fn push_sz<B: IoBufMut + ?Sized>(size: usize, b: &mut AncillaryBuilder<'_, B>, fam: usize, lv: i32, ty: i32, idx: usize) -> Result<(), CodecError> {
    with_n!(size, N => push_n::<N, B>(b, fam, lv, ty, idx))
}
fn data_sz(size: usize, r: &AncillaryRef<'_>, fam: usize, idx: usize) -> Option<bool> {
    with_n!(size, N => data_n::<N>(r, fam, idx))
}

// ---------------------------------------------------------------------------------------------
#[derive(Default, Debug)]
struct Obs {
    res: Vec<&'static str>,
    blen: usize,
    base: usize,
    enc: Vec<(usize, usize)>,
    got: Vec<GotMsg>,
    iter_done: bool,
}
#[derive(Debug)]
struct GotMsg {
    lv: i32,
    ty: i32,
    clen: usize,
    data: Option<bool>,
    dec: Option<(usize, usize)>,
}

fn space(n: usize) -> usize {
    unsafe { libc::CMSG_SPACE(n as _) as usize }
}
fn clen(n: usize) -> usize {
    unsafe { libc::CMSG_LEN(n as _) as usize }
}

fn run_one<B: CtlBuf>(case: &Value, fam: usize, rep: &mut Report) {
    let cap = case["cap"].as_u64().unwrap() as usize;
    let sizes: Vec<usize> = case["sizes"].as_array().unwrap().iter().map(|x| x.as_u64().unwrap() as usize).collect();
    let Some(mut buf) = B::make(cap) else { return };
    let who = format!("{}/{}", B::NAME, if fam == 0 { "Blob" } else { "[u8;N]" });
    let stage = Cell::new("builder-new");
    let mut obs = Obs::default();
    DEC.with(|d| d.borrow_mut().clear());
    ENC.with(|d| d.borrow_mut().clear());
    let r = catch_unwind(AssertUnwindSafe(|| {
        {
            let mut builder = AncillaryBuilder::new(&mut buf);
            stage.set("push");
            for (i, &sz) in sizes.iter().enumerate() {
                let lv = i as i32 + 1;
                let r = push_sz(sz, &mut builder, fam, lv, 100 + lv, i);
                obs.res.push(match r {
                    Ok(()) => "ok",
                    Err(CodecError::BufferTooSmall) => "small",
                    Err(_) => "other",
                });
            }
        }
        obs.enc = ENC.with(|e| e.borrow().clone());
        stage.set("iter-new");
        obs.blen = buf.buf_len();
        let bytes = buf.as_init();
        obs.base = bytes.as_ptr() as usize;
        let iter = unsafe { AncillaryIter::new(bytes) };
        stage.set("iter-next");
        // the accepted requests, in order
        let acc: Vec<(usize, usize)> = sizes.iter().enumerate().filter(|(i, _)| obs.res[*i] == "ok").map(|(i, s)| (i, *s)).collect();
        for (n, m) in iter.enumerate() {
            if n > sizes.len() + 2 {
                break;
            }
            let before = DEC.with(|d| d.borrow().len());
            let data = acc.get(n).and_then(|(idx, sz)| data_sz(*sz, &m, fam, *idx));
            let dec = DEC.with(|d| if d.borrow().len() > before { d.borrow().last().copied() } else { None });
            obs.got.push(GotMsg { lv: m.level(), ty: m.ty(), clen: m.len(), data, dec });
        }
        obs.iter_done = true;
    }));
    let m_phase = case["phase"].as_str().unwrap();
    let m_where = case["where"].as_str().unwrap();
    // ---------------- contract oracle (independent of the model) ----------------
    let mut used = 0usize;
    let mut accepted: Vec<(usize, usize)> = vec![];
    if let Err(e) = r {
        let st = stage.get();
        let cls = if (st == "builder-new" && cap < space(0)) || (st == "iter-new" && obs.blen < space(0)) { "short-buffer-assert" } else { "other" };
        rep.problem(
            "panic",
            json!({"site": "ancillary", "cls": cls, "where": st}),
            format!("{who}: cap {cap}, payload sizes {sizes:?}: panic in {st}: {} (buf_len {})", panic_msg(e), obs.blen),
            case,
            0,
        );
        if !(m_phase == "panic" && m_where == st) {
            rep.problem("mismatch", json!({"site": "ancillary", "cls": "model-panic"}), format!("{who}: impl panicked in {st}, model says {m_phase} {m_where}"), case, 0);
        }
        return;
    }
    for (i, &sz) in sizes.iter().enumerate() {
        let fits = used + space(sz) <= cap;
        let want = if fits { "ok" } else { "small" };
        if obs.res[i] != want {
            rep.problem(
                "contract",
                json!({"site": "ancillary", "cls": "push-answer"}),
                format!("{who}: cap {cap}, sizes {sizes:?}: push {i} (payload {sz}, {used} bytes used, needs {}) answered {} but {}", space(sz), obs.res[i], if fits { "it fits" } else { "it does not fit" }),
                case,
                i,
            );
        }
        if obs.res[i] == "ok" {
            accepted.push((i, sz));
            used += space(sz);
        }
    }
    if obs.blen != used || obs.blen > cap {
        rep.problem("contract", json!({"site": "ancillary", "cls": "buf-len"}), format!("{who}: cap {cap}, sizes {sizes:?}: buf_len {} but the accepted messages take {used}", obs.blen), case, 0);
    }
    for (p, l) in &obs.enc {
        if *p < obs.base || p + l > obs.base + cap {
            rep.problem("contract", json!({"site": "ancillary", "cls": "encode-slice-outside-buffer"}), format!("{who}: encode got a slice at offset {} len {l}, capacity {cap}", *p as i64 - obs.base as i64), case, 0);
        }
    }
    let mut rt_ok = obs.got.len() == accepted.len();
    for (n, g) in obs.got.iter().enumerate() {
        if let Some((idx, sz)) = accepted.get(n) {
            let lv = *idx as i32 + 1;
            if !(g.lv == lv && g.ty == 100 + lv && g.clen == clen(*sz) && g.data == Some(true)) {
                rt_ok = false;
            }
            if let Some((p, l)) = g.dec {
                let start = p as i64 - obs.base as i64;
                if l != *sz || start < 0 || start as usize + l > obs.blen {
                    rep.problem(
                        "contract",
                        json!({"site": "ancillary", "cls": "data-slice-too-long"}),
                        format!(
                            "{who}: cap {cap}, sizes {sizes:?}: message {n} has a {sz}-byte payload at offset {start}, decode() was handed {l} bytes (control buffer holds {} bytes{})",
                            obs.blen,
                            if start as usize + l > obs.blen { ": the slice ends outside the buffer" } else { "" }
                        ),
                        case,
                        n,
                    );
                }
            }
        }
    }
    if !rt_ok {
        rep.problem(
            "contract",
            json!({"site": "ancillary", "cls": "roundtrip"}),
            format!("{who}: cap {cap}, sizes {sizes:?}: accepted {:?} but iterated {:?}", accepted, obs.got),
            case,
            0,
        );
    }
    // ---------------- model comparison ----------------
    let m_res: Vec<&str> = case["res"].as_array().unwrap().iter().map(|x| x.as_str().unwrap()).collect();
    let mut diff: Vec<String> = vec![];
    if m_phase != "done" {
        diff.push(format!("model ends in {m_phase} {m_where}, impl completed"));
    }
    if m_res != obs.res {
        diff.push(format!("push answers model {m_res:?} impl {:?}", obs.res));
    }
    if case["blen"].as_u64().unwrap() as usize != obs.blen {
        diff.push(format!("buf_len model {} impl {}", case["blen"], obs.blen));
    }
    let mg = case["got"].as_array().unwrap();
    if mg.len() != obs.got.len() {
        diff.push(format!("iterated model {} impl {}", mg.len(), obs.got.len()));
    } else {
        for (n, (m, g)) in mg.iter().zip(obs.got.iter()).enumerate() {
            if m["lv"].as_i64().unwrap() as i32 != g.lv || m["clen"].as_u64().unwrap() as usize != g.clen {
                diff.push(format!("message {n}: model {m} impl {g:?}"));
            }
            if let Some((p, l)) = g.dec {
                let start = p as i64 - obs.base as i64;
                if m["dstart"].as_i64().unwrap() != start || m["dlen"].as_u64().unwrap() as usize != l {
                    diff.push(format!("message {n} decode slice: model ({}, {}) impl ({start}, {l})", m["dstart"], m["dlen"]));
                }
            }
        }
    }
    if !diff.is_empty() {
        rep.problem("mismatch", json!({"site": "ancillary", "cls": "model"}), format!("{who}: cap {cap}, sizes {sizes:?}: {}", diff.join("; ")), case, 0);
    }
}

fn main() {
    if std::env::var("VERIF_SHOW_PANICS").is_err() {
        silence_panics();
    }
    assert_eq!(std::mem::size_of::<libc::cmsghdr>(), 16, "harness: model constants assume a 16 byte cmsghdr");
    let mut rep = Report::new();
    let mut per_buf = [0u64; 2];
    for case in cases_from_arg() {
        assert_eq!(case["hdr"].as_u64(), Some(std::mem::size_of::<libc::cmsghdr>() as u64), "model Hdr differs from sizeof(cmsghdr)");
        assert_eq!(case["align"].as_u64(), Some(std::mem::size_of::<usize>() as u64), "model Align differs from sizeof(usize)");
        for fam in 0..2 {
            rep.steps += 1;
            run_one::<DynBuf>(&case, fam, &mut rep);
            per_buf[0] += 1;
            if run_ancbuf(&case, fam, &mut rep) {
                per_buf[1] += 1;
            }
        }
        rep.cases += 1;
    }
    rep.set("runs_heap", json!(per_buf[0]));
    rep.set("runs_ancillarybuf", json!(per_buf[1]));
    rep.finish();
}
