//! C16 binding (a): stream / datagram programs on real loopback endpoints.
//!
//! A program (from spec/Gen_Quic.tla) fixes the number of concurrent streams, their direction, the
//! chunk sizes written, how the stream ends (finish / reset), how the reader behaves (eager, slow,
//! tiny reads, stop), the flow-control window, the stream-count limit, the number of datagrams and
//! an optional close point. Client and server run in one process on one compio runtime; every
//! application-level call that returns is logged (sequence numbers, never wall-clock) and
//!   * the contract of the property is evaluated directly on the history (oracle below), and
//!   * the history is written as ndjson for validation by spec/Trace_Quic.tla.
use std::{
    cell::{Cell, RefCell},
    collections::BTreeMap,
    future::Future,
    io::Write,
    pin::Pin,
    rc::Rc,
    time::Duration,
};

use compio_buf::{BufResult, bytes::Bytes};
use compio_io::{AsyncRead, AsyncWrite};
use compio_quic::{Connection, Endpoint, RecvStream, SendStream, VarInt};
use hcore::out::Report;
use serde_json::{Value, json};

use crate::{Certs, SMALL_WINDOW, Tp, connect_pair, fill, matches, with_watchdog};

/// The watchdog is longer than the idle timeout: a peer whose CONNECTION_CLOSE never arrives
/// (quinn-proto does not send it while the closing side is congestion-blocked with unsent data)
/// learns of the close by its idle timer, which is the protocol's answer, not a hang.
pub const IDLE_SECS: u64 = 30;
pub const WATCHDOG: Duration = Duration::from_secs(75);
/// silence before a "quiet" finish (longer than max_ack_delay and the loopback PTO)
const QUIET: Duration = Duration::from_millis(1200);
/// end-of-stream after a quiet finish: far below the idle timeout, generous for a loaded machine
const EOF_WATCHDOG: Duration = Duration::from_secs(6);
/// datagram readers parked in separate tasks when a burst of as many datagrams arrives
const BURST: u32 = 3;
/// after two programs hung for the full watchdog the verdict is established: be less patient
const SHORT_WATCHDOG: Duration = Duration::from_secs(8);
static FULL_HANGS: std::sync::atomic::AtomicUsize = std::sync::atomic::AtomicUsize::new(0);

fn watchdog() -> Duration {
    if FULL_HANGS.load(std::sync::atomic::Ordering::Relaxed) >= 2 { SHORT_WATCHDOG } else { WATCHDOG }
}
const SIZES: [usize; 3] = [1, 1200, 70_000];
/// streams 1..=3 are client -> server, stream s+ECHO is the reply direction of bidirectional s
const ECHO: u32 = 3;
const MERGE_LIMIT: u64 = 1 << 20;

#[derive(Clone, Debug)]
struct StreamSpec {
    bi: bool,
    chunks: Vec<usize>,
    /// "fin" | "reset"
    end: String,
    /// "eager" | "slow" | "tiny" | "stop"
    pace: String,
}

#[derive(Default, Clone, Debug)]
struct StreamObs {
    opened: bool,
    written: u64,
    fin: bool,
    reset: bool,
    read: u64,
    eof: bool,
    stopped_by_reader: bool,
    errs: Vec<String>,
}

struct Log {
    seq: u64,
    ops: u64,
    trace: Vec<Value>,
    pending_read: BTreeMap<u32, (u64, u64)>,
    obs: BTreeMap<u32, StreamObs>,
    bad: Vec<(String, String)>,
    closed: bool,
    close_at: Option<u64>,
    closer: Option<Box<dyn FnOnce()>>,
    dsent: Vec<u32>,
    drecv: Vec<u32>,
    raw_events: u64,
    /// debugging aid only (VERIF_QUIC_TIMING): wall-clock of each event; never used for ordering
    t0: Option<std::time::Instant>,
}

impl Log {
    fn push(&mut self, ev: &str, s: u32, n: u64, off: u64, ok: bool) {
        self.seq += 1;
        let mut e = json!({"ev": ev, "s": s, "n": n, "off": off, "ok": ok, "q": self.seq});
        if let Some(t0) = self.t0 {
            e["t_ms"] = json!(t0.elapsed().as_millis() as u64);
        }
        self.trace.push(e);
    }

    fn flush_read(&mut self, s: u32) {
        if let Some((off, n)) = self.pending_read.remove(&s) {
            self.push("read", s, n, off, true);
        }
    }

    fn flush_all(&mut self) {
        let keys: Vec<u32> = self.pending_read.keys().copied().collect();
        for s in keys {
            self.flush_read(s);
        }
    }

    fn violation(&mut self, what: &str, desc: String) {
        self.bad.push((what.to_string(), desc));
    }
}

#[derive(Clone)]
struct Ctx(Rc<RefCell<Log>>);

impl Ctx {
    /// Count one application-level step; performs the program's close when its point is reached.
    fn step(&self) {
        let closer = {
            let mut l = self.0.borrow_mut();
            l.ops += 1;
            l.raw_events += 1;
            if l.close_at == Some(l.ops) && !l.closed {
                l.flush_all();
                l.closed = true;
                l.push("close", 0, 0, 0, true);
                l.closer.take()
            } else {
                None
            }
        };
        if let Some(c) = closer {
            c();
        }
    }

    fn opened(&self, s: u32) {
        {
            let mut l = self.0.borrow_mut();
            l.obs.entry(s).or_default().opened = true;
            l.push("open", s, 0, 0, true);
        }
        self.step();
    }

    fn wrote(&self, s: u32, n: u64) {
        {
            let mut l = self.0.borrow_mut();
            l.flush_read(s);
            let o = l.obs.entry(s).or_default();
            let off = o.written;
            o.written += n;
            if o.fin || o.reset {
                let d = format!("stream {s}: write of {n} bytes accepted after finish/reset");
                l.violation("write-after-fin", d);
            }
            l.push("write", s, n, off, true);
        }
        self.step();
    }

    fn finished(&self, s: u32, reset: bool) {
        {
            let mut l = self.0.borrow_mut();
            l.flush_read(s);
            let o = l.obs.entry(s).or_default();
            if reset {
                o.reset = true;
            } else {
                o.fin = true;
            }
            l.push(if reset { "rst" } else { "fin" }, s, 0, 0, true);
        }
        self.step();
    }

    fn read(&self, s: u32, data: &[u8]) {
        {
            let mut l = self.0.borrow_mut();
            let o = l.obs.entry(s).or_default().clone();
            let off = o.read;
            let n = data.len() as u64;
            let ok = matches(s, off, data);
            if !ok {
                let foreign = (1..=2 * ECHO).find(|&t| t != s && matches(t, off, data));
                let pos = data.iter().enumerate().position(|(j, &b)| b != crate::pat(s, off + j as u64));
                let d = format!(
                    "stream {s}: {n} bytes read at offset {off} differ from what was written (first difference at +{:?}){}",
                    pos,
                    match foreign {
                        Some(t) => format!("; they are the bytes of stream {t}"),
                        None => String::new(),
                    }
                );
                l.violation(if foreign.is_some() { "cross-stream" } else { "content" }, d);
            }
            if off + n > o.written {
                let d = format!("stream {s}: read reaches offset {} but only {} bytes were written", off + n, o.written);
                l.violation("read-beyond-written", d);
            }
            if o.eof {
                l.violation("read-after-eof", format!("stream {s}: data after end-of-stream"));
            }
            if n == 0 {
                l.violation("empty-read", format!("stream {s}: read returned 0 bytes without end-of-stream"));
            }
            l.obs.get_mut(&s).unwrap().read += n;
            if !ok {
                l.flush_read(s);
                l.push("read", s, n, off, false);
            } else {
                let e = l.pending_read.entry(s).or_insert((off, 0));
                e.1 += n;
                if e.1 >= MERGE_LIMIT {
                    l.flush_read(s);
                }
            }
        }
        self.step();
    }

    fn eof(&self, s: u32) {
        {
            let mut l = self.0.borrow_mut();
            l.flush_read(s);
            let o = l.obs.entry(s).or_default().clone();
            if !o.fin {
                l.violation("eof-without-finish", format!("stream {s}: end-of-stream although the writer has not finished"));
            }
            if o.read != o.written {
                let d = format!("stream {s}: end-of-stream after {} of {} bytes", o.read, o.written);
                l.violation("eof-before-last-byte", d);
            }
            l.obs.get_mut(&s).unwrap().eof = true;
            l.push("eof", s, 0, o.read, true);
        }
        self.step();
    }

    fn stop(&self, s: u32) {
        {
            let mut l = self.0.borrow_mut();
            l.flush_read(s);
            l.obs.entry(s).or_default().stopped_by_reader = true;
            l.push("stop", s, 0, 0, true);
        }
        self.step();
    }

    /// An operation on stream `s` (0 = connection level) failed.
    fn err(&self, s: u32, op: &str, e: &str, allowed: bool) {
        {
            let mut l = self.0.borrow_mut();
            l.flush_read(s);
            if !l.closed && !allowed {
                l.violation("error-without-close", format!("stream {s}: {op} failed with {e:?} although nobody closed the connection"));
            }
            l.obs.entry(s).or_default().errs.push(format!("{op}:{e}"));
            let closed = l.closed;
            l.push("err", s, (op == "read") as u64, 0, closed || allowed);
        }
        self.step();
    }

    fn dsent(&self, k: u32) {
        {
            let mut l = self.0.borrow_mut();
            l.dsent.push(k);
            l.push("dsend", 0, k as u64, 0, true);
        }
        self.step();
    }

    fn drecv(&self, data: &[u8]) {
        {
            let mut l = self.0.borrow_mut();
            let k = data.first().copied().unwrap_or(255) as u32;
            let ok = data.len() > 1 && matches(100 + k, 0, &data[1..]) && data.len() == dgram_len(k);
            if !l.dsent.contains(&k) || !ok {
                l.violation("datagram-not-sent", format!("received a datagram (id {k}, {} bytes) that equals none of the datagrams sent", data.len()));
            } else if l.drecv.contains(&k) {
                l.violation("datagram-duplicate", format!("datagram {k} was delivered twice"));
            }
            l.drecv.push(k);
            l.push("drecv", 0, k as u64, 0, ok);
        }
        self.step();
    }
}

fn dgram_len(k: u32) -> usize {
    if k < 2 { 1001 } else { 2 }
}
/// The client's outgoing datagram buffer holds ONE of the 1001-byte datagrams (plus generous room
/// for quinn's per-datagram bookkeeping): the second send_datagram_wait blocks until the first
/// datagram has left, i.e. it depends on the DatagramsUnblocked wake-up.
const DGRAM_SEND_BUF: usize = 1001 + 64;

fn dgram(k: u32) -> Bytes {
    let mut v = vec![k as u8];
    v.extend(fill(100 + k, 0, dgram_len(k) - 1));
    Bytes::from(v)
}

/// Await `fut`; the flag is raised the first time it returns Pending (the caller is blocked).
async fn note_pending<T>(flag: &Cell<bool>, flag2: &Cell<bool>, count: &Cell<u64>, fut: impl Future<Output = T>) -> T {
    let mut fut: Pin<Box<dyn Future<Output = T> + '_>> = Box::pin(fut);
    std::future::poll_fn(|cx| {
        let r = fut.as_mut().poll(cx);
        if r.is_pending() {
            if !flag.get() {
                count.set(count.get() + 1); // counted when it blocks, not when (if ever) it resumes
            }
            flag.set(true);
            flag2.set(true);
        }
        r
    })
    .await
}

struct Shared {
    ctx: Ctx,
    /// (dir, stream index) -> program stream number, filled by the opener
    ids: RefCell<BTreeMap<(u8, u64), u32>>,
    /// writer of stream s is blocked or done (what a slow reader waits for)
    wflag: Vec<Cell<bool>>,
    blocked_writes: Cell<u64>,
    blocked_opens: Cell<u64>,
    blocked_dgrams: Cell<u64>,
    dgrams_got: Cell<u64>,
    burst_got: Cell<u64>,
    quiet_finishes: Cell<u64>,
    specs: Vec<StreamSpec>,
    /// what every unfinished task is currently waiting in (for the description of a hang)
    pending: RefCell<Option<Rc<RefCell<BTreeMap<String, &'static str>>>>>,
}

impl Shared {
    fn at(&self, task: String, what: &'static str) {
        if let Some(p) = self.pending.borrow().as_ref() {
            if what == "done" {
                p.borrow_mut().remove(&task);
            } else {
                p.borrow_mut().insert(task, what);
            }
        }
    }
}

async fn write_all(sh: &Shared, s: u32, send: &mut SendStream, data: Vec<u8>, flag: &Cell<bool>) -> Result<(), String> {
    let data = Bytes::from(data);
    let mut pos = 0;
    while pos < data.len() {
        let pend = Cell::new(false);
        let BufResult(res, _) = note_pending(&pend, flag, &sh.blocked_writes, send.write(data.slice(pos..))).await;
        match res {
            Ok(n) => {
                sh.ctx.wrote(s, n as u64);
                if n == 0 {
                    return Err("write returned 0".into());
                }
                pos += n;
            }
            Err(e) => return Err(e.to_string()),
        }
    }
    Ok(())
}

async fn read_to_end(sh: &Shared, s: u32, recv: &mut RecvStream, pace: &str) -> Result<(), String> {
    let mut k = 0usize;
    loop {
        let cap = if pace == "tiny" && k < 3 { [1usize, 1, 7][k] } else { 65536 };
        k += 1;
        let BufResult(res, buf) = recv.read(Vec::with_capacity(cap)).await;
        match res {
            Ok(0) => {
                sh.ctx.eof(s);
                return Ok(());
            }
            Ok(n) => {
                if n != buf.len() {
                    sh.ctx.0.borrow_mut().violation("read-length", format!("stream {s}: read reported {n} bytes but filled {}", buf.len()));
                }
                sh.ctx.read(s, &buf);
                if pace == "stop" {
                    let _ = recv.stop(VarInt::from_u32(9));
                    sh.ctx.stop(s);
                    return Ok(());
                }
            }
            Err(e) => return Err(e.to_string()),
        }
    }
}

async fn writer(sh: Rc<Shared>, conn: Connection, s: u32) {
    let spec = sh.specs[s as usize - 1].clone();
    let flag = &sh.wflag[s as usize - 1];
    let me = format!("writer{s}");
    sh.at(me.clone(), "open_wait");
    let pend = Cell::new(false);
    let opened = if spec.bi {
        note_pending(&pend, &pend, &sh.blocked_opens, conn.open_bi_wait()).await.map(|(a, b)| (a, Some(b)))
    } else {
        note_pending(&pend, &pend, &sh.blocked_opens, conn.open_uni_wait()).await.map(|a| (a, None))
    };
    let (mut send, recv) = match opened {
        Ok(x) => x,
        Err(e) => {
            flag.set(true);
            sh.ctx.err(s, "open", &e.to_string(), false);
            sh.at(me, "done");
            return;
        }
    };
    sh.at(me.clone(), "write");
    sh.ids.borrow_mut().insert((spec.bi as u8, send.id().index()), s);
    sh.ctx.opened(s);
    let reader_may_stop = spec.pace == "stop";
    let mut off = 0u64;
    let mut failed = false;
    for &c in &spec.chunks {
        let data = fill(s, off, c);
        off += c as u64;
        if let Err(e) = write_all(&sh, s, &mut send, data, flag).await {
            sh.ctx.err(s, "write", &e, reader_may_stop);
            failed = true;
            break;
        }
    }
    let mut quiet_fin = false;
    if !failed && spec.end == "quietfin" {
        // finish() on a QUIET connection: wait until the reader has everything (side channel: the
        // shared observation), stay silent for longer than any ack delay, then finish. Nothing but
        // finish() itself can make the connection worker transmit the FIN now.
        sh.at(me.clone(), "waiting for the reader before a quiet finish");
        let mut waited = 0;
        loop {
            let (r, w, closed) = {
                let l = sh.ctx.0.borrow();
                let o = l.obs.get(&s).cloned().unwrap_or_default();
                (o.read, o.written, l.closed || o.stopped_by_reader)
            };
            if r == w || closed || waited > 20_000 {
                quiet_fin = r == w && !closed;
                break;
            }
            compio_runtime::time::sleep(Duration::from_millis(1)).await;
            waited += 1;
        }
        if quiet_fin {
            compio_runtime::time::sleep(QUIET).await;
            sh.quiet_finishes.set(sh.quiet_finishes.get() + 1);
        }
    }
    if !failed {
        if spec.end == "reset" {
            let _ = send.reset(VarInt::from_u32(7));
            sh.ctx.finished(s, true);
        } else {
            match send.finish() {
                Ok(()) => sh.ctx.finished(s, false),
                Err(e) => sh.ctx.err(s, "finish", &e.to_string(), reader_may_stop),
            }
        }
    }
    flag.set(true);
    if quiet_fin && !failed {
        // the reader has to see end-of-stream well before the idle timeout
        sh.at(me.clone(), "waiting for the reader's end-of-stream after a quiet finish");
        let t0 = std::time::Instant::now();
        loop {
            let (eof, excused) = {
                let l = sh.ctx.0.borrow();
                let o = l.obs.get(&s).cloned().unwrap_or_default();
                (o.eof, l.closed || o.stopped_by_reader || !o.errs.is_empty())
            };
            if eof || excused {
                break;
            }
            if t0.elapsed() > EOF_WATCHDOG {
                sh.ctx.0.borrow_mut().violation(
                    "eof-not-delivered",
                    format!(
                        "stream {s}: finish() was called on a quiet connection (all {} bytes read by the peer, {QUIET:?} of \
                         silence) and the reader did not get end-of-stream within {EOF_WATCHDOG:?}",
                        off
                    ),
                );
                break;
            }
            compio_runtime::time::sleep(Duration::from_millis(2)).await;
        }
    }
    if !failed && spec.end != "reset" {
        // completes when the peer has acknowledged everything (or stopped the stream)
        sh.at(me.clone(), "stopped");
        if let Err(e) = send.stopped().await {
            sh.ctx.err(s, "stopped", &e.to_string(), false);
        }
    }
    if let Some(mut recv) = recv {
        // the reply direction: the server answers with a short message once it is done reading
        sh.at(me.clone(), "read reply");
        if let Err(e) = read_to_end(&sh, s + ECHO, &mut recv, "eager").await {
            sh.ctx.err(s + ECHO, "read", &e, reader_may_stop || spec.end == "reset");
        }
    }
    sh.at(me, "done");
}

async fn reader(sh: Rc<Shared>, send: Option<SendStream>, mut recv: RecvStream, bi: bool) {
    let key = (bi as u8, recv.id().index());
    let Some(s) = sh.ids.borrow().get(&key).copied() else {
        sh.ctx.0.borrow_mut().violation("unknown-stream", format!("accepted a stream {key:?} that nobody opened"));
        return;
    };
    let spec = sh.specs[s as usize - 1].clone();
    let me = format!("reader{s}");
    sh.at(me.clone(), "read");
    if spec.pace == "slow" {
        // a slow reader: starts only when the writer is blocked on the window or has written everything
        let flag = &sh.wflag[s as usize - 1];
        let mut waited = 0;
        while !flag.get() && waited < 20_000 {
            compio_runtime::time::sleep(Duration::from_millis(1)).await;
            waited += 1;
        }
    }
    let r = read_to_end(&sh, s, &mut recv, &spec.pace).await;
    if let Err(e) = &r {
        sh.ctx.err(s, "read", e, spec.end == "reset");
    }
    if let Some(mut send) = send {
        let mut ok = true;
        if r.is_ok() {
            let total = sh.ctx.0.borrow().obs.get(&s).map(|o| o.read).unwrap_or(0);
            let n = 1 + (total % 5) as usize;
            let flag = Cell::new(false);
            if let Err(e) = write_all(&sh, s + ECHO, &mut send, fill(s + ECHO, 0, n), &flag).await {
                sh.ctx.err(s + ECHO, "write", &e, false);
                ok = false;
            }
        }
        if ok {
            // always finish explicitly (dropping the stream would finish it silently)
            match send.finish() {
                Ok(()) => sh.ctx.finished(s + ECHO, false),
                Err(e) => sh.ctx.err(s + ECHO, "finish", &e.to_string(), false),
            }
            sh.at(me.clone(), "stopped (reply)");
            let _ = send.stopped().await;
        }
    }
    sh.at(me, "done");
}

async fn acceptor(sh: Rc<Shared>, conn: Connection, bi: bool, count: usize) {
    let mut handles = vec![];
    let me = format!("acceptor-{}", if bi { "bi" } else { "uni" });
    for _ in 0..count {
        sh.at(me.clone(), "accept");
        let r = if bi {
            conn.accept_bi().await.map(|(s, r)| (Some(s), r))
        } else {
            conn.accept_uni().await.map(|r| (None, r))
        };
        match r {
            Ok((s, r)) => handles.push(compio_runtime::spawn(reader(sh.clone(), s, r, bi))),
            Err(e) => {
                sh.ctx.err(0, "accept", &e.to_string(), false);
                break;
            }
        }
    }
    sh.at(me, "done");
    for h in handles {
        let _ = h.await;
    }
}

struct Env {
    certs: Certs,
    client: Endpoint,
    server: Endpoint,
}

impl Env {
    async fn new(certs: Certs) -> Result<Self, String> {
        let tp = Tp { stream_window: None, conn_window: None, max_uni: 4, max_bi: 4, dgram_send_buf: None, idle_secs: IDLE_SECS };
        let server = Endpoint::server("127.0.0.1:0", certs.server(tp.build()))
            .await
            .map_err(|e| format!("bind server: {e}"))?;
        let client = Endpoint::client("127.0.0.1:0").await.map_err(|e| format!("bind client: {e}"))?;
        Ok(Self { certs, client, server })
    }

    async fn shutdown(self) -> Certs {
        let Env { certs, client, server } = self;
        let _ = with_watchdog(Duration::from_secs(5), client.shutdown()).await;
        let _ = with_watchdog(Duration::from_secs(5), server.shutdown()).await;
        certs
    }
}

fn parse(prog: &Value) -> Result<(Vec<StreamSpec>, bool, u32, u32, Option<(String, u64)>), String> {
    let mut specs = vec![];
    for st in prog["streams"].as_array().ok_or("streams")? {
        let chunks = st["chunks"]
            .as_array()
            .ok_or("chunks")?
            .iter()
            .map(|c| SIZES[c.as_u64().unwrap_or(0).min(2) as usize])
            .collect();
        specs.push(StreamSpec {
            bi: st["dir"].as_str() == Some("bi"),
            chunks,
            end: st["end"].as_str().unwrap_or("fin").to_string(),
            pace: st["pace"].as_str().unwrap_or("eager").to_string(),
        });
    }
    if specs.is_empty() || specs.len() > ECHO as usize {
        return Err("1..3 streams".into());
    }
    let small = prog["win"].as_str() == Some("small");
    let maxs = prog["maxs"].as_u64().unwrap_or(2) as u32;
    let dgrams = prog["dgrams"].as_u64().unwrap_or(0) as u32;
    let close = match prog["close"].as_str() {
        None | Some("none") => None,
        Some(side) => Some((side.to_string(), prog["closeAt"].as_u64().unwrap_or(1).max(1))),
    };
    Ok((specs, small, maxs, dgrams, close))
}

async fn run_program(env: &mut Option<Env>, prog: &Value, rep: &mut Report, trace: &mut impl Write, stats: &mut Stats) -> Result<(), String> {
    let (specs, small, maxs, dgrams, close) = parse(prog)?;
    let e = env.as_ref().unwrap();
    let tp = Tp {
        stream_window: if small { Some(SMALL_WINDOW) } else { None },
        conn_window: None,
        max_uni: maxs,
        max_bi: maxs,
        dgram_send_buf: None,
        idle_secs: IDLE_SECS,
    };
    let ctp = Tp { dgram_send_buf: Some(DGRAM_SEND_BUF), ..tp };
    let (c, s) = with_watchdog(WATCHDOG, connect_pair(&e.client, &e.server, e.certs.client(ctp.build()), e.certs.server(tp.build())))
        .await
        .ok_or("handshake watchdog")??;

    let log = Log {
        seq: 0,
        ops: 0,
        trace: vec![],
        pending_read: BTreeMap::new(),
        obs: BTreeMap::new(),
        bad: vec![],
        closed: false,
        close_at: close.as_ref().map(|c| c.1),
        closer: None,
        dsent: vec![],
        drecv: vec![],
        raw_events: 0,
        t0: std::env::var("VERIF_QUIC_TIMING").ok().map(|_| std::time::Instant::now()),
    };
    let ctx = Ctx(Rc::new(RefCell::new(log)));
    {
        let mut l = ctx.0.borrow_mut();
        let w = if small { SMALL_WINDOW } else { 0 };
        l.trace.push(json!({"ev": "reset", "s": specs.len(), "n": w, "off": maxs, "ok": true, "q": 0,
                            "bi": specs.iter().map(|s| s.bi).collect::<Vec<_>>()}));
        if let Some((side, _)) = &close {
            let (cc, sc, ep) = (c.clone(), s.clone(), e.client.clone());
            let side = side.clone();
            l.closer = Some(Box::new(move || match side.as_str() {
                "client" => cc.close(VarInt::from_u32(1), b"prog"),
                "server" => sc.close(VarInt::from_u32(2), b"prog"),
                _ => ep.close(VarInt::from_u32(3), b"prog"),
            }));
        }
    }
    let sh = Rc::new(Shared {
        ctx: ctx.clone(),
        ids: RefCell::new(BTreeMap::new()),
        wflag: specs.iter().map(|_| Cell::new(false)).collect(),
        blocked_writes: Cell::new(0),
        blocked_opens: Cell::new(0),
        blocked_dgrams: Cell::new(0),
        dgrams_got: Cell::new(0),
        burst_got: Cell::new(0),
        quiet_finishes: Cell::new(0),
        specs: specs.clone(),
        pending: RefCell::new(None),
    });

    let mut handles = vec![];
    let pending: Rc<RefCell<BTreeMap<String, &'static str>>> = Rc::new(RefCell::new(BTreeMap::new()));
    sh.pending.replace(Some(pending.clone()));
    let n_bi = specs.iter().filter(|s| s.bi).count();
    let n_uni = specs.len() - n_bi;
    if n_uni > 0 {
        handles.push(compio_runtime::spawn(acceptor(sh.clone(), s.clone(), false, n_uni)));
    }
    if n_bi > 0 {
        handles.push(compio_runtime::spawn(acceptor(sh.clone(), s.clone(), true, n_bi)));
    }
    for i in 0..specs.len() {
        handles.push(compio_runtime::spawn(writer(sh.clone(), c.clone(), i as u32 + 1)));
    }
    // datagrams run next to the streams
    let dg_done = Rc::new(Cell::new(false));
    let ds_done = Rc::new(Cell::new(dgrams == 0));
    let ds_started = Rc::new(Cell::new(false));
    let mut dg_handles = vec![];
    if dgrams > 0 {
        let (cx, cc, sc, sh2, dsd, done) = (ctx.clone(), c.clone(), s.clone(), sh.clone(), ds_done.clone(), dg_done.clone());
        let dss = ds_started.clone();
        dg_handles.push(compio_runtime::spawn(async move {
            // ---- phase 1: BURST readers parked in separate tasks, then a burst of BURST small
            //      datagrams queued back to back (quinn-proto announces only the first one that
            //      arrives into an empty queue: every parked reader has to be woken by it)
            let mut readers = vec![];
            for _ in 0..BURST {
                let (cx, sc, sh3) = (cx.clone(), sc.clone(), sh2.clone());
                readers.push(compio_runtime::spawn(async move {
                    if let Ok(b) = sc.recv_datagram().await {
                        cx.drecv(&b);
                        sh3.burst_got.set(sh3.burst_got.get() + 1);
                    }
                }));
            }
            compio_runtime::time::sleep(Duration::from_millis(5)).await;
            for b in 0..BURST {
                match cc.send_datagram(dgram(20 + b)) {
                    Ok(()) => cx.dsent(20 + b),
                    Err(e) => cx.err(0, "send_datagram", &e.to_string(), false),
                }
            }
            let t0 = std::time::Instant::now();
            let mut grace: Option<std::time::Instant> = None;
            loop {
                let got = sh2.burst_got.get();
                if got >= BURST as u64 || cx.0.borrow().closed {
                    break;
                }
                let arrived = sc.stats().frame_rx.datagram.min(BURST as u64);
                if t0.elapsed() > Duration::from_secs(3) {
                    if got >= arrived {
                        break; // lost on the way: fine
                    }
                    // delivered to the connection, never handed to a parked reader
                    match grace {
                        None => grace = Some(std::time::Instant::now()),
                        Some(g) if g.elapsed() > Duration::from_millis(2500) => {
                            cx.0.borrow_mut().violation(
                                "datagram-receiver-not-woken",
                                format!(
                                    "{BURST} tasks were parked in recv_datagram() when a burst of datagrams arrived; {arrived} datagrams \
                                     reached the connection but only {got} readers completed: the others were not woken"
                                ),
                            );
                            break;
                        }
                        _ => {}
                    }
                }
                compio_runtime::time::sleep(Duration::from_millis(2)).await;
            }
            // ---- phase 2: large datagrams through a send buffer that holds one of them
            let (cx2, sc2, sh3, done2) = (cx.clone(), sc.clone(), sh2.clone(), done.clone());
            let receiver = compio_runtime::spawn(async move {
                let mut got = 0;
                while got < dgrams {
                    match sc2.recv_datagram().await {
                        Ok(b) => {
                            cx2.drecv(&b);
                            if b.first().copied().unwrap_or(0) < 20 {
                                got += 1;
                                sh3.dgrams_got.set(got as u64);
                            } else {
                                sh3.burst_got.set(sh3.burst_got.get() + 1); // a straggler of the burst
                            }
                        }
                        Err(_) => break, // the connection ended (end of program or the program's close)
                    }
                }
                done2.set(true);
            });
            dss.set(true);
            for k in 0..dgrams {
                let pend = Cell::new(false);
                match note_pending(&pend, &pend, &sh2.blocked_dgrams, cc.send_datagram_wait(dgram(k))).await {
                    Ok(()) => cx.dsent(k),
                    Err(e) => {
                        cx.err(0, "send_datagram", &e.to_string(), false);
                        break;
                    }
                }
            }
            dsd.set(true);
            let _ = receiver.await;
            for r in readers {
                let _ = r.await;
            }
        }));
    } else {
        dg_done.set(true);
    }

    let all = futures_util::future::join_all(handles.iter_mut());
    let wd = watchdog();
    let finished = with_watchdog(wd, all).await.is_some();
    if !finished && wd >= WATCHDOG {
        FULL_HANGS.fetch_add(1, std::sync::atomic::Ordering::Relaxed);
    }
    if finished && dgrams > 0 {
        // datagrams are unreliable: wait a little for stragglers, never insist
        let mut waited = 0;
        while !dg_done.get() && waited < 2000 {
            compio_runtime::time::sleep(Duration::from_millis(1)).await;
            waited += 1;
        }
        // the sender only ever waits for its own earlier datagram to leave the buffer
        if ds_started.get() && !ds_done.get() && !ctx.0.borrow().closed {
            compio_runtime::time::sleep(Duration::from_millis(1500)).await;
            if !ds_done.get() {
                ctx.0.borrow_mut().violation(
                    "datagram-sender-not-woken",
                    "the task blocked in send_datagram_wait() did not continue although the streams finished long ago".into(),
                );
            }
        }
        // Lost on the way is fine. Delivered to the server's connection (DATAGRAM frames counted by
        // quinn-proto) but never handed to the blocked recv_datagram() is a lost wake-up.
        if ds_started.get() && !dg_done.get() && !ctx.0.borrow().closed {
            let handed = |sh: &Shared| sh.dgrams_got.get() + sh.burst_got.get();
            let arrived = s.stats().frame_rx.datagram;
            if arrived > handed(&sh) {
                compio_runtime::time::sleep(Duration::from_millis(1500)).await;
                if handed(&sh) < arrived && !dg_done.get() {
                    let d = format!(
                        "{arrived} datagrams reached the server's connection but the tasks blocked in recv_datagram() \
                         received only {} of them: a reader was not woken",
                        handed(&sh)
                    );
                    ctx.0.borrow_mut().violation("datagram-receiver-not-woken", d);
                }
            }
        }
    }
    let was_closed = {
        let mut l = ctx.0.borrow_mut();
        l.flush_all();
        l.closer = None;
        l.closed
    };
    // ---- the contract on the complete history -------------------------------------------
    {
        let mut l = ctx.0.borrow_mut();
        if !finished {
            let open: Vec<String> = l.obs.iter().map(|(s, o)| format!("s{s}:w{}r{}f{}e{}", o.written, o.read, o.fin, o.eof)).collect();
            let waiting: Vec<String> = pending.borrow().iter().map(|(k, v)| format!("{k} in {v}")).collect();
            let (cs, ss) = (c.stats(), s.stats());
            let net = format!(
                "client sent {} UDP datagrams / {} CONNECTION_CLOSE frames, close_reason {:?}; server received {} UDP datagrams / {} CONNECTION_CLOSE frames, close_reason {:?}",
                cs.udp_tx.datagrams, cs.frame_tx.connection_close, c.close_reason().map(|e| e.to_string()),
                ss.udp_rx.datagrams, ss.frame_rx.connection_close, s.close_reason().map(|e| e.to_string())
            );
            l.violation("hang", format!("stream tasks did not complete within {wd:?} (closed={was_closed}); still waiting: {waiting:?}; streams: {open:?}; {net}"));
        }
        if finished && !was_closed {
            for (i, sp) in specs.iter().enumerate() {
                let s = i as u32 + 1;
                let o = l.obs.get(&s).cloned().unwrap_or_default();
                let total: u64 = sp.chunks.iter().map(|&c| c as u64).sum();
                let plain = (sp.end == "fin" || sp.end == "quietfin") && sp.pace != "stop";
                if plain && !(o.eof && o.read == total && o.written == total) {
                    l.violation("incomplete", format!("stream {s}: wrote {} of {total}, reader got {} bytes, eof={}", o.written, o.read, o.eof));
                }
                if plain && sp.bi {
                    let r = l.obs.get(&(s + ECHO)).cloned().unwrap_or_default();
                    if !(r.eof && r.read == r.written && r.written > 0) {
                        l.violation("incomplete", format!("reply of stream {s}: wrote {}, read {}, eof={}", r.written, r.read, r.eof));
                    }
                }
                if sp.end == "reset" && o.eof {
                    l.violation("eof-after-reset", format!("stream {s}: end-of-stream although the writer reset the stream"));
                }
            }
        }
    }
    {
        let mut l = ctx.0.borrow_mut();
        l.push("done", 0, 0, 0, finished);
    }
    // end of program: close, after which the datagram tasks (blocked in recv) must end as well
    c.close(VarInt::from_u32(0), b"done");
    let all = futures_util::future::join_all(dg_handles.iter_mut());
    if with_watchdog(watchdog(), all).await.is_none() {
        ctx.0.borrow_mut().violation("hang", "datagram tasks did not end after the connection was closed".into());
    }
    drop(handles);
    drop(dg_handles);

    let l = ctx.0.borrow();
    for (what, desc) in &l.bad {
        let ty = if what == "hang" || what == "eof-not-delivered" || what.starts_with("datagram-") && what.ends_with("-not-woken") { "hang" } else { "contract" };
        rep.problem(
            ty,
            json!({"site": "quic-program", "what": what, "closed": was_closed}),
            desc.clone(),
            prog,
            0,
        );
    }
    for ev in &l.trace {
        let _ = writeln!(trace, "{ev}");
    }
    rep.steps += l.raw_events;
    stats.events += l.trace.len() as u64;
    stats.blocked_writes += sh.blocked_writes.get();
    stats.blocked_opens += sh.blocked_opens.get();
    stats.blocked_dgrams += sh.blocked_dgrams.get();
    stats.quiet_finishes += sh.quiet_finishes.get();
    stats.burst_readers += sh.burst_got.get();
    stats.bytes += l.obs.values().map(|o| o.read).sum::<u64>();
    stats.dgrams_sent += l.dsent.len() as u64;
    stats.dgrams_recv += l.drecv.len() as u64;
    stats.closed += was_closed as u64;
    stats.errors_after_close += l.obs.values().map(|o| o.errs.len() as u64).sum::<u64>();
    drop(l);
    drop(c);
    drop(s);
    if close.as_ref().map(|c| c.0.as_str()) == Some("endpoint") {
        let certs = env.take().unwrap().shutdown().await;
        *env = Some(Env::new(certs).await?);
    }
    Ok(())
}

#[derive(Default)]
struct Stats {
    events: u64,
    blocked_writes: u64,
    blocked_opens: u64,
    blocked_dgrams: u64,
    quiet_finishes: u64,
    burst_readers: u64,
    bytes: u64,
    dgrams_sent: u64,
    dgrams_recv: u64,
    closed: u64,
    errors_after_close: u64,
}

pub async fn run(progs: Vec<Value>, trace_path: &str, rep: &mut Report) {
    let mut trace = std::io::BufWriter::new(std::fs::File::create(trace_path).expect("trace file"));
    let mut env = match Env::new(Certs::new()).await {
        Ok(e) => Some(e),
        Err(e) => {
            rep.set("fatal", json!(e));
            return;
        }
    };
    let mut stats = Stats::default();
    let mut setup_failures = 0u64;
    for prog in progs {
        rep.cases += 1;
        if let Err(e) = run_program(&mut env, &prog, rep, &mut trace, &mut stats).await {
            setup_failures += 1;
            rep.problem(
                "mismatch",
                json!({"site": "quic-program", "what": "setup"}),
                format!("program could not be run: {e}"),
                &prog,
                0,
            );
            if env.is_none() {
                match Env::new(Certs::new()).await {
                    Ok(e) => env = Some(e),
                    Err(e) => {
                        rep.set("fatal", json!(e));
                        return;
                    }
                }
            }
        }
    }
    let _ = trace.flush();
    rep.set("setup_failures", json!(setup_failures));
    rep.set("trace_events", json!(stats.events));
    rep.set("blocked_writes", json!(stats.blocked_writes));
    rep.set("blocked_opens", json!(stats.blocked_opens));
    rep.set("blocked_dgram_sends", json!(stats.blocked_dgrams));
    rep.set("quiet_finishes", json!(stats.quiet_finishes));
    rep.set("burst_readers_completed", json!(stats.burst_readers));
    rep.set("bytes_read", json!(stats.bytes));
    rep.set("dgrams_sent", json!(stats.dgrams_sent));
    rep.set("dgrams_recv", json!(stats.dgrams_recv));
    rep.set("programs_closed", json!(stats.closed));
    rep.set("errors_after_close", json!(stats.errors_after_close));
    if let Some(e) = env {
        e.shutdown().await;
    }
}
