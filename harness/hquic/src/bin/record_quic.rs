//! C16: drive real compio-quic endpoints on loopback.
//!   record_quic wakers   <cases.jsonl>                 waker tables at close (binding b)
//!   record_quic programs <programs.jsonl> <trace.out>  stream/datagram programs (binding a)
use hcore::out::Report;
use serde_json::Value;

fn read_cases(path: &str) -> Vec<Value> {
    std::fs::read_to_string(path)
        .unwrap_or_else(|e| panic!("open {path}: {e}"))
        .lines()
        .filter(|l| !l.trim().is_empty())
        .map(|l| serde_json::from_str(l).expect("bad json line"))
        .collect()
}

fn main() {
    let args: Vec<String> = std::env::args().collect();
    let mode = args.get(1).map(String::as_str).unwrap_or("");
    if std::env::var("VERIF_SHOW_PANICS").is_err() {
        hcore::out::silence_panics();
    }
    let mut rep = Report::new();
    let rt = compio_runtime::Runtime::new().expect("runtime");
    match mode {
        "wakers" => {
            let cases = read_cases(&args[2]);
            rt.block_on(hquic::wakers::run(cases, &mut rep));
        }
        "programs" => {
            let progs = read_cases(&args[2]);
            rt.block_on(hquic::programs::run(progs, &args[3], &mut rep));
        }
        _ => panic!("usage: record_quic wakers|programs <in.jsonl> [<trace.ndjson>]"),
    }
    rep.finish();
}
