//! harness package hquic: helpers shared by the C16 binaries (real compio-quic endpoints on loopback).
use std::{
    future::Future,
    pin::Pin,
    sync::{
        Arc,
        atomic::{AtomicUsize, Ordering},
    },
    task::{Context, Poll, Wake, Waker},
    time::Duration,
};

use compio_quic::{
    ClientBuilder, ClientConfig, Connection, Endpoint, ServerBuilder, ServerConfig,
    TransportConfig, VarInt,
};

/// Stream receive window of the "small" setting (bytes).
pub const SMALL_WINDOW: u64 = 2048;

/// One self-signed certificate per process.
#[derive(Clone)]
pub struct Certs {
    cert: Vec<u8>,
    key: Vec<u8>,
}

impl Certs {
    pub fn new() -> Self {
        let rcgen::CertifiedKey { cert, signing_key } =
            rcgen::generate_simple_self_signed(vec!["localhost".into()]).unwrap();
        Self {
            cert: cert.der().to_vec(),
            key: signing_key.serialize_der(),
        }
    }

    pub fn server(&self, transport: TransportConfig) -> ServerConfig {
        let mut c = ServerBuilder::new_with_single_cert(
            vec![self.cert.clone().into()],
            self.key.clone().try_into().unwrap(),
        )
        .unwrap()
        .build();
        c.transport_config(Arc::new(transport));
        c
    }

    pub fn client(&self, transport: TransportConfig) -> ClientConfig {
        let mut c = ClientBuilder::new_with_empty_roots()
            .with_custom_certificate(self.cert.clone().into())
            .unwrap()
            .with_no_crls()
            .build();
        c.transport_config(Arc::new(transport));
        c
    }
}

impl Default for Certs {
    fn default() -> Self {
        Self::new()
    }
}

/// Transport parameters of one side. Timeouts are generous: nothing in the harness relies on
/// a protocol timer firing, and a loaded machine must not lose a connection to an idle timeout.
#[derive(Clone, Copy, Debug)]
pub struct Tp {
    /// stream receive window (None = quinn default)
    pub stream_window: Option<u64>,
    /// connection receive window (None = default)
    pub conn_window: Option<u64>,
    pub max_uni: u32,
    pub max_bi: u32,
    /// datagram send buffer (None = default)
    pub dgram_send_buf: Option<usize>,
    /// max idle timeout in seconds
    pub idle_secs: u64,
}

impl Tp {
    pub fn build(&self) -> TransportConfig {
        let mut t = TransportConfig::default();
        t.max_idle_timeout(Some(Duration::from_secs(self.idle_secs).try_into().unwrap()));
        // loopback: a small initial RTT estimate keeps the drain period after a close short
        t.initial_rtt(Duration::from_millis(20));
        if let Some(w) = self.stream_window {
            t.stream_receive_window(VarInt::from_u64(w).unwrap());
        }
        if let Some(w) = self.conn_window {
            t.receive_window(VarInt::from_u64(w).unwrap());
        }
        t.max_concurrent_uni_streams(self.max_uni.into());
        t.max_concurrent_bidi_streams(self.max_bi.into());
        if let Some(b) = self.dgram_send_buf {
            t.datagram_send_buffer_size(b);
        }
        t
    }
}

/// Byte `i` of the payload of stream number `s`: a running 32-bit counter (little endian words)
/// mixed with the stream number, so that a displaced, duplicated or foreign byte is visible.
#[inline]
pub fn pat(s: u32, i: u64) -> u8 {
    let word = (i / 4) as u32;
    let b = (word >> (8 * (i % 4) as u32)) as u8;
    b ^ (s as u8).wrapping_mul(0x5b) ^ 0xa5
}

pub fn fill(s: u32, off: u64, n: usize) -> Vec<u8> {
    (0..n as u64).map(|j| pat(s, off + j)).collect()
}

/// Does `data` equal the pattern of stream `s` at offset `off`?
pub fn matches(s: u32, off: u64, data: &[u8]) -> bool {
    data.iter().enumerate().all(|(j, &b)| b == pat(s, off + j as u64))
}

/// Waker that counts its wake-ups (and nothing else: the harness polls on its own schedule).
pub struct CountWake(pub AtomicUsize);

impl Wake for CountWake {
    fn wake(self: Arc<Self>) {
        self.0.fetch_add(1, Ordering::SeqCst);
    }

    fn wake_by_ref(self: &Arc<Self>) {
        self.0.fetch_add(1, Ordering::SeqCst);
    }
}

pub struct Probe<T> {
    pub fut: Pin<Box<dyn Future<Output = T>>>,
    pub count: Arc<CountWake>,
    pub waker: Waker,
    dead: bool,
}

impl<T> Probe<T> {
    pub fn new(fut: impl Future<Output = T> + 'static) -> Self {
        let count = Arc::new(CountWake(AtomicUsize::new(0)));
        let waker = Waker::from(count.clone());
        Self {
            fut: Box::pin(fut),
            count,
            waker,
            dead: false,
        }
    }

    pub fn poll(&mut self) -> Poll<T> {
        let mut cx = Context::from_waker(&self.waker);
        self.fut.as_mut().poll(&mut cx)
    }

    /// Poll; a panic of the code under test is data (Err(message)); the future is not polled again.
    pub fn poll_catch(&mut self) -> Result<Poll<T>, String> {
        if self.dead {
            return Ok(Poll::Pending);
        }
        let r = std::panic::catch_unwind(std::panic::AssertUnwindSafe(|| self.poll()));
        r.map_err(|e| {
            self.dead = true;
            hcore::out::panic_msg(e)
        })
    }

    pub fn wakes(&self) -> usize {
        self.count.0.load(Ordering::SeqCst)
    }
}

/// Establish one connection client -> server; returns (client side, server side).
pub async fn connect_pair(
    client: &Endpoint,
    server: &Endpoint,
    ccfg: ClientConfig,
    scfg: ServerConfig,
) -> Result<(Connection, Connection), String> {
    let addr = server.local_addr().map_err(|e| e.to_string())?;
    let connecting = client
        .connect(addr, "localhost", Some(ccfg))
        .map_err(|e| format!("connect: {e}"))?;
    let (c, s) = futures_util::join!(connecting, async {
        let inc = server.wait_incoming().await.ok_or("endpoint closed")?;
        let connecting = inc.accept_with(scfg).map_err(|e| format!("accept: {e}"))?;
        connecting.await.map_err(|e| format!("server handshake: {e}"))
    });
    let c = c.map_err(|e| format!("client handshake: {e}"))?;
    Ok((c, s?))
}

/// Run `fut` with a watchdog; None = the watchdog fired.
pub async fn with_watchdog<T>(d: Duration, fut: impl Future<Output = T>) -> Option<T> {
    compio_runtime::time::timeout(d, fut).await.ok()
}

pub mod programs;
pub mod wakers;
