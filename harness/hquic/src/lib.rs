//! harness package hquic
