//! C16 binding (b): the waker tables of compio-quic's ConnectionState at the moment of a close.
//!
//! A case names a close kind and the set of future kinds that are blocked when it happens. The
//! harness builds exactly that combination on real loopback connections: every future is polled
//! once with its own counting waker, must be Pending (so it is registered in its table), then the
//! close is performed and every one of the futures must be woken and must resolve, when polled
//! after the wake-up, to the result the model predicts (an error, None for wait_incoming, the
//! close reason for closed()). A future that is never woken within the watchdog is a `hang`.
use std::{
    task::Poll,
    time::{Duration, Instant},
};

use compio_buf::{BufResult, bytes::Bytes};
use compio_io::{AsyncRead, AsyncWrite};
use compio_quic::{Connection, Endpoint, RecvStream, SendStream, VarInt};
use hcore::out::Report;
use serde_json::{Value, json};

use crate::{Certs, Probe, SMALL_WINDOW, Tp, connect_pair, with_watchdog};

pub const WATCHDOG: Duration = Duration::from_secs(20);

/// Kinds that live on an established connection.
pub const CONN_KINDS: &[&str] = &[
    "open_uni",
    "open_bi",
    "accept_uni",
    "accept_bi",
    "read",
    "write",
    "stopped",
    "received_reset",
    "recv_datagram",
    "recv_datagram_b",
    "send_datagram",
    "closed",
    "closed_b",
    "drop_closed",
];
/// Kinds that only exist on the endpoint / during the handshake (endpoint close only).
pub const EP_KINDS: &[&str] = &["connecting", "handshake_data", "wait_incoming"];
/// Two waiters on the single `on_connected` slot of a 0.5-RTT connection (local close only).
pub const ZRTT_KINDS: &[&str] = &["accepted_0rtt_a", "accepted_0rtt_b"];

fn tp_peer() -> Tp {
    Tp {
        stream_window: Some(SMALL_WINDOW),
        conn_window: None,
        max_uni: 1,
        max_bi: 2,
        dgram_send_buf: None,
        idle_secs: 120,
    }
}

fn tp_local() -> Tp {
    Tp {
        // the side under test can never queue a datagram: send_datagram_wait blocks
        dgram_send_buf: Some(1),
        ..tp_peer()
    }
}

struct Env {
    certs: Certs,
    client: Endpoint,
    server: Endpoint,
    /// handshakes on the shared endpoints are made one at a time, so that the connection a case
    /// accepts is the one it initiated
    hs: futures_util::lock::Mutex<()>,
}

impl Env {
    async fn new(certs: Certs) -> Result<Self, String> {
        let server = Endpoint::server("127.0.0.1:0", certs.server(tp_peer().build()))
            .await
            .map_err(|e| format!("bind server: {e}"))?;
        let client = Endpoint::client("127.0.0.1:0")
            .await
            .map_err(|e| format!("bind client: {e}"))?;
        Ok(Self {
            certs,
            client,
            server,
            hs: futures_util::lock::Mutex::new(()),
        })
    }

    async fn shutdown(self) {
        let Env {
            certs: _,
            client,
            server,
            hs: _,
        } = self;
        // a stuck shutdown (mutated tree) must not stop the harness
        let _ = with_watchdog(Duration::from_secs(5), client.shutdown()).await;
        let _ = with_watchdog(Duration::from_secs(5), server.shutdown()).await;
    }
}

type P = Probe<String>;

/// problems of one case, reported by the caller in case order
#[derive(Default)]
struct Problems(Vec<(String, Value, String)>);

impl Problems {
    fn problem(&mut self, ty: &str, sig: Value, desc: String, _case: &Value, _step: usize) {
        self.0.push((ty.to_string(), sig, desc));
    }
}

/// poll with panics of the code under test turned into a result
fn pc(p: &mut P) -> Poll<String> {
    match p.poll_catch() {
        Ok(r) => r,
        Err(m) => Poll::Ready(format!("panic:{m}")),
    }
}

fn cerr(e: impl std::fmt::Display) -> String {
    format!("err:{e}")
}

/// Build the requested futures on `l` (side under test). Returns the probes in the order of
/// `kinds`, or a description of why the combination could not be constructed.
fn build(l: &Connection, kinds: &[String]) -> Result<(Vec<(String, P)>, Vec<Box<dyn std::any::Any>>), String> {
    let want = |k: &str| kinds.iter().any(|x| x == k);
    let mut keep: Vec<Box<dyn std::any::Any>> = vec![];
    let mut probes: Vec<(String, P)> = vec![];

    // streams that the blocked futures work on
    let mut bi1: Option<(SendStream, RecvStream)> = None;
    let mut bi2: Option<(SendStream, RecvStream)> = None;
    if want("read") || want("write") || want("open_bi") {
        bi1 = Some(l.open_bi().map_err(|e| format!("open_bi #1: {e}"))?);
    }
    if want("stopped") || want("received_reset") || want("open_bi") {
        bi2 = Some(l.open_bi().map_err(|e| format!("open_bi #2: {e}"))?);
    }
    if want("open_bi") && l.open_bi().is_ok() {
        return Err("a third bidirectional stream could be opened (limit 2)".into());
    }
    if want("open_uni") {
        keep.push(Box::new(l.open_uni().map_err(|e| format!("open_uni #1: {e}"))?));
        if l.open_uni().is_ok() {
            return Err("a second unidirectional stream could be opened (limit 1)".into());
        }
    }
    let (s1, r1) = match bi1 {
        Some((s, r)) => (Some(s), Some(r)),
        None => (None, None),
    };
    let (s2, r2) = match bi2 {
        Some((s, r)) => (Some(s), Some(r)),
        None => (None, None),
    };
    let mut s1 = s1;
    let mut r1 = r1;
    let mut s2 = s2;
    let mut r2 = r2;

    for k in kinds {
        let p: P = match k.as_str() {
            "drop_closed" => {
                // not a blocked future: a closed() future that is polled once and then dropped
                // (what select! does with the losing branch) before the other futures block
                let c = l.clone();
                let mut pr: Probe<String> = Probe::new(async move { format!("closed:{}", c.closed().await) });
                if pr.poll().is_ready() {
                    return Err("closed() completed on an open connection".into());
                }
                drop(pr);
                continue;
            }
            "open_uni" => {
                let c = l.clone();
                Probe::new(async move {
                    match c.open_uni_wait().await {
                        Ok(_) => "ok".into(),
                        Err(e) => cerr(e),
                    }
                })
            }
            "open_bi" => {
                let c = l.clone();
                Probe::new(async move {
                    match c.open_bi_wait().await {
                        Ok(_) => "ok".into(),
                        Err(e) => cerr(e),
                    }
                })
            }
            "accept_uni" => {
                let c = l.clone();
                Probe::new(async move {
                    match c.accept_uni().await {
                        Ok(_) => "ok".into(),
                        Err(e) => cerr(e),
                    }
                })
            }
            "accept_bi" => {
                let c = l.clone();
                Probe::new(async move {
                    match c.accept_bi().await {
                        Ok(_) => "ok".into(),
                        Err(e) => cerr(e),
                    }
                })
            }
            "read" => {
                let mut r = r1.take().ok_or("no stream for read")?;
                Probe::new(async move {
                    let BufResult(res, _) = r.read(Vec::with_capacity(64)).await;
                    match res {
                        Ok(n) => format!("ok:{n}"),
                        Err(e) => cerr(e),
                    }
                })
            }
            "write" => {
                let mut s = s1.take().ok_or("no stream for write")?;
                Probe::new(async move {
                    // the peer never reads: the stream window closes after SMALL_WINDOW bytes
                    let mut total = 0usize;
                    loop {
                        let BufResult(res, _) = s.write(Bytes::from(vec![0x55u8; 700])).await;
                        match res {
                            Ok(n) => {
                                total += n;
                                if total > 64 * SMALL_WINDOW as usize {
                                    return format!("ok:{total}");
                                }
                            }
                            Err(e) => return cerr(e),
                        }
                    }
                })
            }
            "stopped" => {
                let mut s = s2.take().ok_or("no stream for stopped")?;
                Probe::new(async move {
                    match s.stopped().await {
                        Ok(x) => format!("ok:{x:?}"),
                        Err(e) => cerr(e),
                    }
                })
            }
            "received_reset" => {
                let mut r = r2.take().ok_or("no stream for received_reset")?;
                Probe::new(async move {
                    match r.received_reset().await {
                        Ok(x) => format!("ok:{x:?}"),
                        Err(e) => cerr(e),
                    }
                })
            }
            "recv_datagram" | "recv_datagram_b" => {
                let c = l.clone();
                Probe::new(async move {
                    match c.recv_datagram().await {
                        Ok(b) => format!("ok:{}", b.len()),
                        Err(e) => cerr(e),
                    }
                })
            }
            "send_datagram" => {
                let c = l.clone();
                Probe::new(async move {
                    match c.send_datagram_wait(Bytes::from_static(b"blocked")).await {
                        Ok(()) => "ok".into(),
                        Err(e) => cerr(e),
                    }
                })
            }
            "closed" | "closed_b" => {
                let c = l.clone();
                Probe::new(async move { format!("closed:{}", c.closed().await) })
            }
            other => return Err(format!("unknown kind {other}")),
        };
        probes.push((k.clone(), p));
    }
    // halves not used by a future stay alive until the case is over
    keep.push(Box::new((s1, r1, s2, r2)));
    Ok((probes, keep))
}

/// What the model predicts for a future of kind `k` after a close.
fn expected_ok(kind: &str, res: &str) -> bool {
    match kind {
        "wait_incoming" => res == "none",
        "closed" | "closed_b" => res.starts_with("closed:"),
        _ => res.starts_with("err:"),
    }
}

struct Outcome {
    kind: String,
    first_pending: bool,
    wakes: usize,
    sync_wakes: usize,
    result: Option<String>,
    forced: Option<String>,
}

async fn drive(probes: &mut [(String, P)], out: &mut [Outcome], polled: &mut [usize], wd: Duration) {
    let deadline = Instant::now() + wd;
    loop {
        let mut open = 0;
        for (i, (_, p)) in probes.iter_mut().enumerate() {
            if out[i].result.is_some() || !out[i].first_pending {
                continue;
            }
            let w = p.wakes();
            if w > polled[i] {
                polled[i] = w;
                if let Poll::Ready(r) = pc(p) {
                    out[i].result = Some(r);
                    out[i].wakes = w;
                    continue;
                }
            }
            open += 1;
        }
        if open == 0 || Instant::now() > deadline {
            break;
        }
        compio_runtime::time::sleep(Duration::from_millis(2)).await;
    }
    for (i, (_, p)) in probes.iter_mut().enumerate() {
        out[i].wakes = p.wakes();
        if out[i].first_pending && out[i].result.is_none() {
            // never woken (or woken and Pending again): what would a poll say now?
            out[i].forced = Some(match pc(p) {
                Poll::Ready(r) => r,
                Poll::Pending => "still pending".into(),
            });
        }
    }
}

fn judge(case: &Value, close: &str, side: &str, out: &[Outcome], rep: &mut Problems) -> Value {
    let dev = case["dev"].as_str().unwrap_or("none");
    let wd = watchdog(case);
    let predicted = |k: &str| -> Option<String> {
        case["expect"].as_array().and_then(|a| {
            a.iter()
                .find(|e| e[0].as_str() == Some(k))
                .and_then(|e| e[1].as_str().map(String::from))
        })
    };
    let mut obs = vec![];
    for o in out {
        obs.push(json!({"kind": o.kind, "pending": o.first_pending, "wakes": o.wakes,
                        "sync_wakes": o.sync_wakes, "result": o.result, "forced": o.forced}));
        let pred = predicted(&o.kind);
        // ---- the property's own predicate on the real observation --------------------------
        let class = if !o.first_pending {
            match &o.result {
                Some(r) if r.starts_with("panic:") => "panic",
                _ => "not-blocked",
            }
        } else {
            match &o.result {
                None => "stranded",
                Some(r) if r.starts_with("panic:") => "panic",
                Some(r) if expected_ok(&o.kind, r) => class_of(&o.kind),
                Some(_) => "no-error",
            }
        };
        match class {
            "not-blocked" => rep.problem(
                "mismatch",
                json!({"site": "quic-wakers", "what": "not-blocked", "kind": o.kind}),
                format!("future {} was expected to be Pending at its first poll but returned {:?}", o.kind, o.result),
                case,
                0,
            ),
            "stranded" => {
              if wd >= WATCHDOG {
                  FULL_HANGS.fetch_add(1, std::sync::atomic::Ordering::Relaxed);
              }
              rep.problem(
                "hang",
                json!({"site": "quic-wakers", "what": "stranded", "kind": o.kind, "close": close, "dev": dev}),
                format!(
                    "{side} side, {close} close, blocked {:?}: the blocked {} future was woken {} times and never \
                     completed within {:?}; a forced poll afterwards says: {:?}",
                    case["blocked"], o.kind, o.wakes, wd, o.forced
                ),
                case,
                0,
              )
            }
            "panic" => rep.problem(
                "panic",
                json!({"site": "quic-wakers", "what": "panic", "kind": o.kind, "dev": dev}),
                format!("{side} side, blocked {:?}: polling the {} future panicked: {:?}", case["blocked"], o.kind, o.result),
                case,
                0,
            ),
            "no-error" => rep.problem(
                "contract",
                json!({"site": "quic-wakers", "what": "no-error", "kind": o.kind, "close": close, "dev": dev}),
                format!("{side} side, {close} close: the blocked {} future resolved to {:?} instead of an error", o.kind, o.result),
                case,
                0,
            ),
            _ => {}
        }
        // ---- comparison with the model's prediction (drift, never an alarm) -----------------
        if let Some(p) = pred {
            if class != "not-blocked" && p != class {
                rep.problem(
                    "mismatch",
                    json!({"site": "quic-wakers", "what": "prediction", "kind": o.kind, "model": p, "impl": class}),
                    format!("{side} side, {close} close, blocked {:?}: model predicts {p} for {}, implementation: {class} ({:?})",
                            case["blocked"], o.kind, o.result),
                    case,
                    0,
                );
            }
        }
    }
    json!(obs)
}

fn class_of(kind: &str) -> &'static str {
    match kind {
        "wait_incoming" => "none",
        "closed" | "closed_b" => "closed",
        _ => "err",
    }
}

/// Futures found stranded after the FULL watchdog so far. Once a few hangs are established the
/// verdict no longer depends on patience: later cases use a short watchdog (a mutated tree with a
/// thousand stranded futures must not take hours).
static FULL_HANGS: std::sync::atomic::AtomicUsize = std::sync::atomic::AtomicUsize::new(0);
const SHORT_WATCHDOG: Duration = Duration::from_secs(3);

fn watchdog(case: &Value) -> Duration {
    if let Some(ms) = case["watchdog_ms"].as_u64() {
        return Duration::from_millis(ms);
    }
    if FULL_HANGS.load(std::sync::atomic::Ordering::Relaxed) >= 3 {
        SHORT_WATCHDOG
    } else {
        WATCHDOG
    }
}

async fn run_conn_case(shared: &Env, case: &Value, rep: &mut Problems) -> Result<Value, String> {
    let close = case["close"].as_str().unwrap_or("local").to_string();
    let side = case["side"].as_str().unwrap_or("client").to_string();
    let kinds: Vec<String> = case["blocked"]
        .as_array()
        .map(|a| a.iter().map(|x| x.as_str().unwrap().to_string()).collect())
        .unwrap_or_default();
    let conn_kinds: Vec<String> = kinds.iter().filter(|k| CONN_KINDS.contains(&k.as_str())).cloned().collect();
    // an endpoint close is permanent for the endpoint: such a case gets sockets of its own
    let own = if close == "endpoint" { Some(Env::new(shared.certs.clone()).await?) } else { None };
    let e = own.as_ref().unwrap_or(shared);
    let (ltp, ptp) = (tp_local(), tp_peer());
    let (ccfg, scfg) = if side == "client" {
        (e.certs.client(ltp.build()), e.certs.server(ptp.build()))
    } else {
        (e.certs.client(ptp.build()), e.certs.server(ltp.build()))
    };
    let (c, s) = {
        let _g = e.hs.lock().await;
        with_watchdog(WATCHDOG, connect_pair(&e.client, &e.server, ccfg, scfg))
            .await
            .ok_or("handshake watchdog")??
    };
    let (l, p) = if side == "client" { (c, s) } else { (s, c) };
    let lep = if side == "client" { e.client.clone() } else { e.server.clone() };

    let (mut probes, keep) = build(&l, &conn_kinds)?;
    // endpoint-level kinds
    let mut blackholes = vec![];
    for k in kinds.iter().filter(|k| EP_KINDS.contains(&k.as_str())) {
        let pr: P = match k.as_str() {
            "wait_incoming" => {
                let ep = lep.clone();
                Probe::new(async move {
                    match ep.wait_incoming().await {
                        None => "none".into(),
                        Some(_) => "ok".into(),
                    }
                })
            }
            "connecting" | "handshake_data" => {
                // nobody answers on this socket: the handshake stays in flight
                let hole = std::net::UdpSocket::bind("127.0.0.1:0").map_err(|e| e.to_string())?;
                let addr = hole.local_addr().map_err(|e| e.to_string())?;
                blackholes.push(hole);
                let cfg = e.certs.client(tp_peer().build());
                let connecting = lep.connect(addr, "localhost", Some(cfg)).map_err(|e| format!("connect: {e}"))?;
                if k == "connecting" {
                    Probe::new(async move {
                        match connecting.await {
                            Ok(_) => "ok".into(),
                            Err(e) => cerr(e),
                        }
                    })
                } else {
                    Probe::new(async move {
                        let mut c = connecting;
                        match c.handshake_data().await {
                            Ok(_) => "ok".into(),
                            Err(e) => cerr(e),
                        }
                    })
                }
            }
            _ => unreachable!(),
        };
        probes.push((k.clone(), pr));
    }

    let mut out: Vec<Outcome> = vec![];
    let mut polled = vec![0usize; probes.len()];
    for (k, pr) in probes.iter_mut() {
        let r = pc(pr);
        out.push(Outcome {
            kind: k.clone(),
            first_pending: r.is_pending(),
            wakes: 0,
            sync_wakes: 0,
            result: match r {
                Poll::Ready(x) => Some(x),
                Poll::Pending => None,
            },
            forced: None,
        });
    }
    // let the drivers run once with everything registered (nothing may be woken spuriously into
    // completion by that: the futures stay blocked)
    compio_runtime::time::sleep(Duration::from_millis(1)).await;
    for (i, (_, pr)) in probes.iter_mut().enumerate() {
        if out[i].first_pending && pr.wakes() > polled[i] {
            polled[i] = pr.wakes();
            if let Poll::Ready(x) = pc(pr) {
                out[i].first_pending = false;
                out[i].result = Some(x);
            }
        }
    }

    match close.as_str() {
        "local" => l.close(VarInt::from_u32(1), b"local"),
        "peer" => p.close(VarInt::from_u32(2), b"peer"),
        "endpoint" => lep.close(VarInt::from_u32(3), b"endpoint"),
        other => return Err(format!("unknown close kind {other}")),
    }
    for (i, (_, pr)) in probes.iter().enumerate() {
        out[i].sync_wakes = pr.wakes().saturating_sub(polled[i]);
    }
    drive(&mut probes, &mut out, &mut polled, watchdog(case)).await;
    let obs = judge(case, &close, &side, &out, rep);
    drop(probes);
    drop(keep);
    drop(l);
    drop(p);
    drop(lep);
    drop(blackholes);
    if let Some(own) = own {
        own.shutdown().await;
    }
    Ok(obs)
}

/// Two accepted_0rtt() waiters on one 0.5-RTT server connection, closed locally before the
/// handshake can complete (everything happens without yielding to the connection driver).
async fn run_0rtt_case(e: &Env, case: &Value, rep: &mut Problems) -> Result<Value, String> {
    let kinds: Vec<String> = case["blocked"]
        .as_array()
        .map(|a| a.iter().map(|x| x.as_str().unwrap().to_string()).collect())
        .unwrap_or_default();
    let addr = e.server.local_addr().map_err(|e| e.to_string())?;
    let g = e.hs.lock().await;
    let connecting = e
        .client
        .connect(addr, "localhost", Some(e.certs.client(tp_peer().build())))
        .map_err(|e| format!("connect: {e}"))?;
    let inc = with_watchdog(WATCHDOG, e.server.wait_incoming())
        .await
        .ok_or("incoming watchdog")?
        .ok_or("endpoint closed")?;
    let sconn = inc
        .accept()
        .map_err(|e| format!("accept: {e}"))?
        .into_0rtt()
        .map_err(|_| "into_0rtt refused on the server side".to_string())?;
    drop(g);
    let mut probes: Vec<(String, P)> = vec![];
    for k in &kinds {
        let c = sconn.clone();
        probes.push((
            k.clone(),
            Probe::new(async move {
                match c.accepted_0rtt().await {
                    Ok(b) => format!("ok:{b}"),
                    Err(e) => cerr(e),
                }
            }),
        ));
    }
    let mut out = vec![];
    let mut polled = vec![0usize; probes.len()];
    for (k, pr) in probes.iter_mut() {
        let r = pc(pr);
        out.push(Outcome {
            kind: k.clone(),
            first_pending: r.is_pending(),
            wakes: 0,
            sync_wakes: 0,
            result: match r {
                Poll::Ready(x) => Some(x),
                Poll::Pending => None,
            },
            forced: None,
        });
    }
    sconn.close(VarInt::from_u32(1), b"local");
    for (i, (_, pr)) in probes.iter().enumerate() {
        out[i].sync_wakes = pr.wakes().saturating_sub(polled[i]);
    }
    drive(&mut probes, &mut out, &mut polled, watchdog(case)).await;
    let obs = judge(case, "local", "server", &out, rep);
    drop(probes);
    drop(sconn);
    // the client side of the attempt ends with the server's close
    let _ = with_watchdog(WATCHDOG, connecting).await;
    Ok(obs)
}

async fn run_case(env: &Env, case: Value) -> (Value, Result<Value, String>, Problems) {
    let mut pr = Problems::default();
    let zrtt = case["blocked"]
        .as_array()
        .map(|a| a.iter().any(|k| ZRTT_KINDS.contains(&k.as_str().unwrap_or(""))))
        .unwrap_or(false);
    let r = if zrtt {
        run_0rtt_case(env, &case, &mut pr).await
    } else {
        run_conn_case(env, &case, &mut pr).await
    };
    (case, r, pr)
}

/// Cases wait on protocol timers (the drain period behind closed(), a watchdog for a predicted
/// stranded future), so several run at once; each has its own connection.
const CONCURRENCY: usize = 32;

pub async fn run(cases: Vec<Value>, rep: &mut Report) {
    use futures_util::StreamExt;
    let env = match Env::new(Certs::new()).await {
        Ok(e) => e,
        Err(e) => {
            rep.set("fatal", json!(e));
            return;
        }
    };
    let mut samples = vec![];
    let mut setup_failures = 0u64;
    {
        let envr = &env;
        let mut results = futures_util::stream::iter(cases.into_iter().map(|c| run_case(envr, c))).buffered(CONCURRENCY);
        while let Some((case, r, pr)) = results.next().await {
            rep.cases += 1;
            for (ty, sig, desc) in pr.0 {
                rep.problem(&ty, sig, desc, &case, 0);
            }
            match r {
                Ok(obs) => {
                    rep.steps += obs.as_array().map(|a| a.len() as u64).unwrap_or(0);
                    if samples.len() < 3 || case["verbose"].as_bool() == Some(true) {
                        samples.push(json!({"case": case, "obs": obs}));
                    }
                }
                Err(e) => {
                    setup_failures += 1;
                    rep.problem(
                        "mismatch",
                        json!({"site": "quic-wakers", "what": "setup"}),
                        format!("the combination could not be constructed: {e}"),
                        &case,
                        0,
                    );
                }
            }
        }
    }
    rep.set("setup_failures", json!(setup_failures));
    rep.set("samples", json!(samples));
    env.shutdown().await;
}
