//! C19 recorder: runs seeded random programs on the REAL compio-actor API and writes one ndjson trace.
//!
//!   record_actor <trace.ndjson> <programs.jsonl> <seed> <runs> [hang_watchdog_ms] [replay-program.json]
//!
//! No hook in /repo is used: the actors, the client threads and the supervisor log themselves.  Every event
//! gets its sequence number at the logging point (position in the run's log, taken under the log mutex);
//! wall-clock time is used for watchdogs only, never for ordering.  Operations that are concurrent in real
//! time are logged as call / return brackets so that the trace specification chooses the linearization.
//!
//! Events (field `e`):
//!   reset{run}                                   start of a run (fresh cluster)
//!   spawn.call{p,a,name,cap,sup} spawn.ret{p,res}   res: ok | nametaken | startfail | unavailable | workerstopped
//!   start.enter{a}                                the actor task entered pre_start (its spawn was admitted)
//!   hook{a,h,ok}                                  logged inside the lifecycle hook (pre_start: when start-up is decided)
//!   send.call{p,a,n,k} send.ret{p,res}            res: ok | full | closed     (casts)
//!   gsend.call{p,n,k}  send.ret{p,res}            cast through the process group
//!   call.ret{p,n,res,v}                           res: reply | noreply | full | closed | hang ; v: reply value ok
//!   handle.begin{a,p,n,k} handle.end{a,p,n,ok,ss} logged inside the handler
//!   stop.call{p,a} stop.ret{p,res}                res: true | false
//!   lookup.call{p,name} lookup.ret{p,found}       found: actor id or -1
//!   gjoin.call{p,a,tok} gjoin.ret{p}  gleave.call{p,tok} gleave.ret{p}  glen.call{p} glen.ret{p,len}
//!   sup.event{p,k,a} sup.done{p}                  logged inside the supervisor's handler
//!   exit{a,res}                                   the ActorHandle resolved: stopped | failed | lost
//!
//! A call that is still pending `hang_watchdog_ms` after its actor's exit was observed is given up and logged
//! as call.ret res=hang (the waiting overlaps with the following runs, the remainder is waited once at the end).
use std::{
    collections::HashMap,
    future::{Future, IntoFuture},
    io::Write,
    num::NonZeroUsize,
    panic::{AssertUnwindSafe, catch_unwind},
    pin::pin,
    sync::{
        Arc, Barrier, Mutex, RwLock,
        atomic::{AtomicBool, AtomicI64, AtomicU64, AtomicUsize, Ordering},
    },
    task::{Context, Poll, Wake, Waker},
    thread::{self, JoinHandle, Thread},
    time::{Duration, Instant},
};

use compio_actor::{
    Actor, ActorExit, ActorHandle, Call, Cluster, Handler, Mailbox,
    cluster::SpawnError,
    mailbox::{CallError, DeliverError},
    process_group::{Membership, ProcessGroup},
    supervisor::SupervisionEvent,
};
use compio_dispatcher::Dispatcher;
use hactor::prog::{ActorSpec, MAX_ACTORS, MAX_SLOTS, MAX_THREADS, Op, Program, directed, generate};
use hcore::out::{Report, panic_msg, silence_panics};
use serde_json::{Value, json};

const MAIN: u32 = 0;
const SUP: u32 = 9;
const RUN_WATCHDOG: Duration = Duration::from_secs(30);

// ---------------------------------------------------------------------------------------------
// log
// ---------------------------------------------------------------------------------------------
#[derive(Default)]
struct Log {
    ev: Mutex<Vec<Value>>,
}

impl Log {
    fn put(&self, mut v: Value) {
        let mut g = self.ev.lock().unwrap_or_else(|e| e.into_inner());
        v["i"] = json!(g.len());
        g.push(v);
    }

    fn len(&self) -> usize {
        self.ev.lock().unwrap_or_else(|e| e.into_inner()).len()
    }
}

fn lock<T>(m: &Mutex<T>) -> std::sync::MutexGuard<'_, T> {
    m.lock().unwrap_or_else(|e| e.into_inner())
}

// ---------------------------------------------------------------------------------------------
// a small blocking executor with give-up flag and deadline (never blocks forever)
// ---------------------------------------------------------------------------------------------
struct ThreadWaker(Thread);
impl Wake for ThreadWaker {
    fn wake(self: Arc<Self>) {
        self.0.unpark();
    }
}

fn drive<F: Future>(fut: F, giveup: Option<&AtomicBool>, deadline: Option<Instant>) -> Option<F::Output> {
    let mut fut = pin!(fut);
    let waker = Waker::from(Arc::new(ThreadWaker(thread::current())));
    let mut cx = Context::from_waker(&waker);
    loop {
        if let Poll::Ready(v) = fut.as_mut().poll(&mut cx) {
            return Some(v);
        }
        if giveup.is_some_and(|g| g.load(Ordering::Acquire)) {
            return None;
        }
        if deadline.is_some_and(|d| Instant::now() >= d) {
            return None;
        }
        thread::park_timeout(Duration::from_millis(20));
    }
}

// ---------------------------------------------------------------------------------------------
// shared state of one run
// ---------------------------------------------------------------------------------------------
struct Shared {
    log: Log,
    mbs: Vec<Mutex<Option<Mailbox<W>>>>,
    handles: Vec<Mutex<Option<ActorHandle<String>>>>,
    specs: Mutex<Vec<Option<ActorSpec>>>,
    ids: Mutex<HashMap<(String, usize), u32>>,
    next_repl: AtomicUsize,
    respawn_left: AtomicI64,
    group: ProcessGroup<Msg>,
    tokens: Mutex<HashMap<u32, Membership<Msg>>>,
    sup: Mutex<Option<Mailbox<Sup>>>,
    giveup: Vec<AtomicBool>,
    in_call: Vec<AtomicBool>,
    done: Vec<AtomicBool>,
    /// write-locked by main to forbid further spawns from client threads (`true` = closed)
    gate: RwLock<bool>,
    unexpected: Mutex<Vec<String>>,
    /// per actor: a gated handler may proceed / a gated handler was entered / a gated Drop may proceed
    gate_open: Vec<AtomicBool>,
    gate_entered: Vec<AtomicBool>,
    drop_open: Vec<AtomicBool>,
    /// gated pre_start: entered / may proceed; spawn_ret: the spawn of this actor returned to its caller
    start_entered: Vec<AtomicBool>,
    start_open: Vec<AtomicBool>,
    spawn_ret: Vec<AtomicBool>,
    accepted_casts: AtomicU64,
    handled_casts: AtomicU64,
}

impl Shared {
    fn new(prog: &Program) -> Self {
        let mut specs: Vec<Option<ActorSpec>> = prog.actors.iter().cloned().map(Some).collect();
        specs.resize(MAX_ACTORS, None);
        Shared {
            log: Log::default(),
            mbs: (0..MAX_ACTORS).map(|_| Mutex::new(None)).collect(),
            handles: (0..MAX_ACTORS).map(|_| Mutex::new(None)).collect(),
            specs: Mutex::new(specs),
            ids: Mutex::new(HashMap::new()),
            next_repl: AtomicUsize::new(MAX_SLOTS),
            respawn_left: AtomicI64::new(prog.respawns as i64),
            group: ProcessGroup::new(),
            tokens: Mutex::new(HashMap::new()),
            sup: Mutex::new(None),
            giveup: (0..MAX_THREADS).map(|_| AtomicBool::new(false)).collect(),
            in_call: (0..MAX_THREADS).map(|_| AtomicBool::new(false)).collect(),
            done: (0..MAX_THREADS).map(|_| AtomicBool::new(false)).collect(),
            gate: RwLock::new(false),
            unexpected: Mutex::new(Vec::new()),
            gate_open: (0..MAX_ACTORS).map(|_| AtomicBool::new(false)).collect(),
            gate_entered: (0..MAX_ACTORS).map(|_| AtomicBool::new(false)).collect(),
            drop_open: (0..MAX_ACTORS).map(|_| AtomicBool::new(false)).collect(),
            start_entered: (0..MAX_ACTORS).map(|_| AtomicBool::new(false)).collect(),
            start_open: (0..MAX_ACTORS).map(|_| AtomicBool::new(false)).collect(),
            spawn_ret: (0..MAX_ACTORS).map(|_| AtomicBool::new(false)).collect(),
            accepted_casts: AtomicU64::new(0),
            handled_casts: AtomicU64::new(0),
        }
    }
}

// ---------------------------------------------------------------------------------------------
// the logging actor
// ---------------------------------------------------------------------------------------------
struct W {
    id: u32,
    sh: Arc<Shared>,
    spec: ActorSpec,
    start_failed: AtomicBool,
}

/// Watchdog of the recorder's own gates: a gate that is never opened only ends the wait, it never decides an order.
const GATE_WATCHDOG: Duration = Duration::from_secs(3);

impl Drop for W {
    fn drop(&mut self) {
        // teardown of an incarnation whose start-up failed: keep it going until the spawner has reacted to the
        // reported failure (or the watchdog expires), so that "failure reported" and "teardown finished" are apart
        if self.spec.drop_gate && self.start_failed.load(Ordering::Acquire) {
            let t0 = Instant::now();
            while !self.sh.drop_open[self.id as usize].load(Ordering::Acquire) && t0.elapsed() < GATE_WATCHDOG {
                thread::sleep(Duration::from_micros(100));
            }
        }
    }
}

#[derive(Debug)]
struct Msg {
    p: u32,
    n: u64,
    k: String,
    d: u32,
    gate: bool,
}

#[derive(Debug)]
struct Req {
    p: u32,
    n: u64,
    k: String,
    d: u32,
}

fn reply_value(a: u32, p: u32, n: u64) -> u64 {
    a as u64 * 1_000_000 + p as u64 * 10_000 + n
}

async fn nap(us: u32) {
    if us > 0 {
        compio_runtime::time::sleep(Duration::from_micros(us as u64)).await;
    }
}

impl W {
    fn hook(&self, h: &str, ok: bool) -> Result<(), String> {
        self.sh.log.put(json!({"e": "hook", "a": self.id, "h": h, "ok": ok}));
        if ok { Ok(()) } else { Err(format!("{h} failed")) }
    }
}

impl Actor for W {
    type Arguments = ();
    type Error = String;
    type State = ();

    async fn pre_start(&self, _me: &Mailbox<Self>, (): ()) -> Result<(), String> {
        // the task runs: the spawn was admitted (name reserved) before this point
        let a = self.id as usize;
        self.sh.log.put(json!({"e": "start.enter", "a": self.id}));
        self.sh.start_entered[a].store(true, Ordering::Release);
        if self.spec.pre_gate {
            let t0 = Instant::now();
            while !self.sh.start_open[a].load(Ordering::Acquire) && t0.elapsed() < GATE_WATCHDOG {
                nap(200).await;
            }
        }
        // logged when start-up is decided (after the delay): "start-up succeeded" is this point
        nap(self.spec.pre_delay).await;
        if !self.spec.pre_ok {
            self.start_failed.store(true, Ordering::Release);
        }
        self.hook("pre_start", self.spec.pre_ok)
    }

    async fn post_start(&self, _me: &Mailbox<Self>, _s: &mut ()) -> Result<(), String> {
        self.hook("post_start", self.spec.post_ok)
    }

    async fn pre_stop(&self, _me: &Mailbox<Self>, _s: &mut ()) -> Result<(), String> {
        let r = self.hook("pre_stop", self.spec.prestop_ok);
        nap(self.spec.stop_delay).await;
        r
    }

    async fn post_stop(&self, _me: &Mailbox<Self>, _s: &mut ()) -> Result<(), String> {
        self.hook("post_stop", self.spec.poststop_ok)
    }
}

impl Handler<Msg> for W {
    async fn handle(&self, me: &Mailbox<Self>, m: Msg, _s: &mut ()) -> Result<(), String> {
        self.sh.log.put(json!({"e": "handle.begin", "a": self.id, "p": m.p, "n": m.n, "k": m.k}));
        nap(m.d).await;
        if m.gate {
            let a = self.id as usize;
            self.sh.gate_entered[a].store(true, Ordering::Release);
            let t0 = Instant::now();
            while !self.sh.gate_open[a].load(Ordering::Acquire) && t0.elapsed() < GATE_WATCHDOG {
                nap(200).await;
            }
        }
        let ss = if m.k == "stopself" { if me.stop() { "true" } else { "false" } } else { "none" };
        let ok = m.k != "fail";
        self.sh.log.put(json!({"e": "handle.end", "a": self.id, "p": m.p, "n": m.n, "ok": ok, "ss": ss}));
        self.sh.handled_casts.fetch_add(1, Ordering::AcqRel);
        if ok { Ok(()) } else { Err("handler failed".into()) }
    }
}

impl Handler<Call<Req, u64>> for W {
    async fn handle(&self, _me: &Mailbox<Self>, call: Call<Req, u64>, _s: &mut ()) -> Result<(), String> {
        let (p, n, k, d) = {
            let m = call.message();
            (m.p, m.n, m.k.clone(), m.d)
        };
        self.sh.log.put(json!({"e": "handle.begin", "a": self.id, "p": p, "n": n, "k": k}));
        nap(d).await;
        if k == "call" {
            call.reply(reply_value(self.id, p, n)).ok();
        } else {
            drop(call);
        }
        let ok = k != "callfail";
        self.sh.log.put(json!({"e": "handle.end", "a": self.id, "p": p, "n": n, "ok": ok, "ss": "none"}));
        if ok { Ok(()) } else { Err("call handler failed".into()) }
    }
}

// ---------------------------------------------------------------------------------------------
// the supervisor
// ---------------------------------------------------------------------------------------------
struct Sup {
    sh: Arc<Shared>,
}

#[derive(Debug)]
struct Sync;

impl Actor for Sup {
    type Arguments = ();
    type Error = String;
    type State = ();

    async fn pre_start(&self, _me: &Mailbox<Self>, (): ()) -> Result<(), String> {
        Ok(())
    }
}

impl Handler<Call<Sync, ()>> for Sup {
    async fn handle(&self, _me: &Mailbox<Self>, call: Call<Sync, ()>, _s: &mut ()) -> Result<(), String> {
        call.reply(()).ok();
        Ok(())
    }
}

impl Handler<SupervisionEvent<W>> for Sup {
    async fn handle(&self, me: &Mailbox<Self>, ev: SupervisionEvent<W>, _s: &mut ()) -> Result<(), String> {
        let (k, child) = match &ev {
            SupervisionEvent::ActorStarted(c) => ("started", c),
            SupervisionEvent::ActorTerminated(c) => ("terminated", c),
            SupervisionEvent::ActorFailed(c) => ("failed", c),
        };
        let name = child.name().unwrap_or("").to_string();
        let cap = child.capacity().get();
        let a = lock(&self.sh.ids).get(&(name.clone(), cap)).copied();
        let Some(a) = a else {
            lock(&self.sh.unexpected).push(format!("supervision event for unknown child {name}/{cap}"));
            return Ok(());
        };
        self.sh.log.put(json!({"e": "sup.event", "p": SUP, "k": k, "a": a}));
        if k != "started" && self.sh.respawn_left.fetch_sub(1, Ordering::AcqRel) > 0 {
            let b = self.sh.next_repl.fetch_add(1, Ordering::AcqRel);
            if b < MAX_ACTORS {
                let spec = ActorSpec {
                    name: Some(name),
                    cap: 5 + (b - MAX_SLOTS),
                    pre_ok: true,
                    post_ok: true,
                    prestop_ok: true,
                    poststop_ok: true,
                    sup: true,
                    pre_delay: 0,
                    stop_delay: 0,
                    drop_gate: false,
                    pre_gate: false,
                };
                lock(&self.sh.specs)[b] = Some(spec.clone());
                spawn_async(&self.sh, Cluster::current(), SUP, b, spec, Some(me.clone())).await;
            }
        }
        self.sh.log.put(json!({"e": "sup.done", "p": SUP}));
        Ok(())
    }
}

// ---------------------------------------------------------------------------------------------
// operations
// ---------------------------------------------------------------------------------------------
async fn spawn_async(sh: &Arc<Shared>, cluster: Cluster, p: u32, a: usize, spec: ActorSpec, sup: Option<Mailbox<Sup>>) -> &'static str {
    spawn_then(sh, cluster, p, a, spec, sup, || {}).await
}

/// `after_reserve` runs when `Cluster::start` returned (name reserved or refused, task dispatched) and before
/// the result is awaited.
async fn spawn_then(
    sh: &Arc<Shared>,
    cluster: Cluster,
    p: u32,
    a: usize,
    spec: ActorSpec,
    sup: Option<Mailbox<Sup>>,
    after_reserve: impl FnOnce(),
) -> &'static str {
    let name = spec.name.clone().unwrap_or_default();
    if let Some(nm) = &spec.name {
        lock(&sh.ids).insert((nm.clone(), spec.cap), a as u32);
    }
    let supervised = spec.sup && sup.is_some();
    sh.log.put(json!({"e": "spawn.call", "p": p, "a": a, "name": name, "cap": spec.cap, "sup": supervised}));
    let (sh2, spec2) = (sh.clone(), spec.clone());
    let mut b = cluster
        .spawn(move || W { id: a as u32, sh: sh2, spec: spec2, start_failed: AtomicBool::new(false) }, ())
        .with_capacity(NonZeroUsize::new(spec.cap).unwrap());
    if let Some(nm) = &spec.name {
        b = b.with_name(nm.clone());
    }
    if supervised {
        b = b.with_supervisor(sup.as_ref().unwrap());
    }
    let fut = b.into_future();
    after_reserve();
    let res = match fut.await {
        Ok((mb, h)) => {
            *lock(&sh.handles[a]) = Some(h);
            *lock(&sh.mbs[a]) = Some(mb);
            "ok"
        }
        Err(SpawnError::NameTaken(_)) => "nametaken",
        Err(SpawnError::Start(_)) => "startfail",
        Err(SpawnError::Unavailable) => "unavailable",
        Err(SpawnError::WorkerStopped) => "workerstopped",
    };
    sh.log.put(json!({"e": "spawn.ret", "p": p, "res": res}));
    sh.spawn_ret[a].store(true, Ordering::Release);
    res
}

fn deliver_res<M: Send + 'static>(r: &Result<(), DeliverError<M>>) -> &'static str {
    match r {
        Ok(()) => "ok",
        Err(DeliverError::Full(_)) => "full",
        Err(DeliverError::Closed(_)) => "closed",
    }
}

fn do_send(sh: &Shared, p: u32, n: &mut u64, a: u32, mb: &Mailbox<W>, k: &str, d: u32) {
    *n += 1;
    sh.log.put(json!({"e": "send.call", "p": p, "a": a, "n": *n, "k": k}));
    let r = mb.send(Msg { p, n: *n, k: k.to_string(), d, gate: false });
    if r.is_ok() {
        sh.accepted_casts.fetch_add(1, Ordering::AcqRel);
    }
    sh.log.put(json!({"e": "send.ret", "p": p, "res": deliver_res(&r)}));
}

/// returns false when the script must be abandoned (the call was given up)
fn do_call(sh: &Shared, t: usize, p: u32, n: &mut u64, a: u32, mb: &Mailbox<W>, k: &str, d: u32) -> bool {
    *n += 1;
    sh.log.put(json!({"e": "send.call", "p": p, "a": a, "n": *n, "k": k}));
    sh.in_call[t].store(true, Ordering::Release);
    let r = drive(mb.call(Req { p, n: *n, k: k.to_string(), d }), Some(&sh.giveup[t]), None);
    sh.in_call[t].store(false, Ordering::Release);
    let (res, v) = match &r {
        Some(Ok(v)) => ("reply", *v == reply_value(a, p, *n)),
        Some(Err(CallError::Full(_))) => ("full", true),
        Some(Err(CallError::Closed(_))) => ("closed", true),
        Some(Err(CallError::NoReply)) => ("noreply", true),
        None => ("hang", true),
    };
    sh.log.put(json!({"e": "call.ret", "p": p, "n": *n, "res": res, "v": v}));
    r.is_some()
}

fn pause(us: u32) {
    if us <= 50 {
        thread::yield_now();
    } else {
        thread::sleep(Duration::from_micros(us as u64));
    }
}

fn run_thread(sh: Arc<Shared>, cluster: Cluster, t: usize, ops: Vec<Op>, specs: Vec<ActorSpec>) {
    let p = t as u32 + 1;
    let mut n = 0u64;
    for op in ops {
        match op {
            Op::Spawn { slot } => {
                let gate = sh.gate.read().unwrap_or_else(|e| e.into_inner());
                if *gate {
                    continue;
                }
                let sup = lock(&sh.sup).clone();
                let deadline = Instant::now() + RUN_WATCHDOG;
                if drive(spawn_async(&sh, cluster.clone(), p, slot, specs[slot].clone(), sup), None, Some(deadline)).is_none() {
                    lock(&sh.unexpected).push(format!("HANG spawn of slot {slot} did not complete within the watchdog"));
                    break;
                }
            }
            Op::Send { slot, k, d } => {
                let mb = lock(&sh.mbs[slot]).clone();
                if let Some(mb) = mb {
                    do_send(&sh, p, &mut n, slot as u32, &mb, &k, d);
                }
            }
            Op::Call { slot, k, d } => {
                let mb = lock(&sh.mbs[slot]).clone();
                if let Some(mb) = mb {
                    if !do_call(&sh, t, p, &mut n, slot as u32, &mb, &k, d) {
                        break;
                    }
                }
            }
            Op::Stop { slot } => {
                let mb = lock(&sh.mbs[slot]).clone();
                if let Some(mb) = mb {
                    sh.log.put(json!({"e": "stop.call", "p": p, "a": slot}));
                    let r = mb.stop();
                    sh.log.put(json!({"e": "stop.ret", "p": p, "res": if r { "true" } else { "false" }}));
                }
            }
            Op::Lookup { name, send } => {
                sh.log.put(json!({"e": "lookup.call", "p": p, "name": name}));
                let r = cluster.lookup::<W, _>(name.clone());
                let found: i64 = match &r {
                    Some(mb) => match lock(&sh.ids).get(&(name.clone(), mb.capacity().get())) {
                        Some(a) => *a as i64,
                        None => {
                            lock(&sh.unexpected).push(format!("lookup({name}) returned an unknown mailbox"));
                            -2
                        }
                    },
                    None => -1,
                };
                sh.log.put(json!({"e": "lookup.ret", "p": p, "found": found}));
                if let (Some(mb), Some(k), true) = (r, send, found >= 0) {
                    do_send(&sh, p, &mut n, found as u32, &mb, &k, 0);
                }
            }
            Op::GJoin { slot, tok } => {
                let mb = lock(&sh.mbs[slot]).clone();
                if let Some(mb) = mb {
                    sh.log.put(json!({"e": "gjoin.call", "p": p, "a": slot, "tok": tok}));
                    let m = sh.group.join(mb.broker());
                    sh.log.put(json!({"e": "gjoin.ret", "p": p}));
                    lock(&sh.tokens).insert(tok, m);
                }
            }
            Op::GLeave { tok } => {
                let m = lock(&sh.tokens).remove(&tok);
                if let Some(m) = m {
                    sh.log.put(json!({"e": "gleave.call", "p": p, "tok": tok}));
                    m.leave();
                    sh.log.put(json!({"e": "gleave.ret", "p": p}));
                }
            }
            Op::GSend { k, d } => {
                n += 1;
                sh.log.put(json!({"e": "gsend.call", "p": p, "n": n, "k": k}));
                let r = sh.group.send(Msg { p, n, k: k.clone(), d, gate: false });
                if r.is_ok() {
                    sh.accepted_casts.fetch_add(1, Ordering::AcqRel);
                }
                sh.log.put(json!({"e": "send.ret", "p": p, "res": deliver_res(&r)}));
            }
            Op::GLen => {
                sh.log.put(json!({"e": "glen.call", "p": p}));
                let len = sh.group.len();
                sh.log.put(json!({"e": "glen.ret", "p": p, "len": len}));
            }
            Op::SpawnRespawn { slot, slot2 } => {
                let gate = sh.gate.read().unwrap_or_else(|e| e.into_inner());
                if *gate {
                    continue;
                }
                let sup = lock(&sh.sup).clone();
                let deadline = Instant::now() + RUN_WATCHDOG;
                let first = drive(spawn_async(&sh, cluster.clone(), p, slot, specs[slot].clone(), sup.clone()), None, Some(deadline));
                if first == Some("startfail") {
                    // the failure was reported: the name must be free NOW, while the failed incarnation is still
                    // inside its (gated) Drop; the gate opens as soon as the new reservation was attempted
                    let sh2 = sh.clone();
                    let second = drive(
                        spawn_then(&sh, cluster.clone(), p, slot2, specs[slot2].clone(), sup, move || {
                            sh2.drop_open[slot].store(true, Ordering::Release);
                        }),
                        None,
                        Some(Instant::now() + RUN_WATCHDOG),
                    );
                    if second.is_none() {
                        lock(&sh.unexpected).push(format!("HANG respawn of slot {slot2} did not complete within the watchdog"));
                        break;
                    }
                } else if first.is_none() {
                    lock(&sh.unexpected).push(format!("HANG spawn of slot {slot} did not complete within the watchdog"));
                    break;
                }
                sh.drop_open[slot].store(true, Ordering::Release);
            }
            Op::SendGate { slot } => {
                let mb = lock(&sh.mbs[slot]).clone();
                if let Some(mb) = mb {
                    n += 1;
                    sh.log.put(json!({"e": "send.call", "p": p, "a": slot, "n": n, "k": "cast"}));
                    let r = mb.send(Msg { p, n, k: "cast".into(), d: 0, gate: true });
                    sh.log.put(json!({"e": "send.ret", "p": p, "res": deliver_res(&r)}));
                    if r.is_ok() {
                        sh.accepted_casts.fetch_add(1, Ordering::AcqRel);
                        let t0 = Instant::now();
                        while !sh.gate_entered[slot].load(Ordering::Acquire) && t0.elapsed() < GATE_WATCHDOG {
                            thread::sleep(Duration::from_micros(100));
                        }
                    }
                }
            }
            Op::OpenGate { slot } => sh.gate_open[slot].store(true, Ordering::Release),
            Op::OpenStart { slot } => sh.start_open[slot].store(true, Ordering::Release),
            Op::WaitStartEntered { slot } => {
                let t0 = Instant::now();
                while !sh.start_entered[slot].load(Ordering::Acquire) && t0.elapsed() < GATE_WATCHDOG {
                    thread::sleep(Duration::from_micros(100));
                }
            }
            Op::WaitSettled { slot } => {
                // the spawn of `slot` was either refused / finished, or its task sits in the gated pre_start
                let t0 = Instant::now();
                while !sh.start_entered[slot].load(Ordering::Acquire)
                    && !sh.spawn_ret[slot].load(Ordering::Acquire)
                    && t0.elapsed() < GATE_WATCHDOG
                {
                    thread::sleep(Duration::from_micros(100));
                }
            }
            Op::WaitSpawnRet { slot } => {
                let t0 = Instant::now();
                while !sh.spawn_ret[slot].load(Ordering::Acquire) && t0.elapsed() < GATE_WATCHDOG {
                    thread::sleep(Duration::from_micros(100));
                }
            }
            Op::WaitHandled => {
                let t0 = Instant::now();
                while sh.handled_casts.load(Ordering::Acquire) < sh.accepted_casts.load(Ordering::Acquire) && t0.elapsed() < GATE_WATCHDOG {
                    thread::sleep(Duration::from_micros(100));
                }
            }
            Op::StopWait { slot } => {
                let mb = lock(&sh.mbs[slot]).clone();
                if let Some(mb) = mb {
                    sh.log.put(json!({"e": "stop.call", "p": p, "a": slot}));
                    let r = mb.stop();
                    sh.log.put(json!({"e": "stop.ret", "p": p, "res": if r { "true" } else { "false" }}));
                    let h = lock(&sh.handles[slot]).take();
                    if let Some(h) = h {
                        match drive(h, None, Some(Instant::now() + RUN_WATCHDOG)) {
                            Some(Ok(ActorExit::Stopped)) => sh.log.put(json!({"e": "exit", "a": slot, "res": "stopped"})),
                            Some(Ok(ActorExit::Failed(_))) => sh.log.put(json!({"e": "exit", "a": slot, "res": "failed"})),
                            Some(Err(_)) => sh.log.put(json!({"e": "exit", "a": slot, "res": "lost"})),
                            None => {
                                lock(&sh.unexpected).push(format!("HANG actor {slot} did not exit within the watchdog after stop"));
                                break;
                            }
                        }
                    }
                }
            }
            Op::Pause { us } => pause(us),
        }
    }
    sh.done[t].store(true, Ordering::Release);
}

// ---------------------------------------------------------------------------------------------
// one run
// ---------------------------------------------------------------------------------------------
struct RunOut {
    sh: Arc<Shared>,
    threads: Vec<JoinHandle<()>>,
    nthreads: usize,
    /// set when client threads are still inside a call after every actor exited
    parked_at: Option<Instant>,
    hang: Option<String>,
}

fn all_done(sh: &Shared, nt: usize) -> bool {
    (0..nt).all(|t| sh.done[t].load(Ordering::Acquire))
}

fn run_program(prog: &Program, run: u64, sh: Arc<Shared>) -> RunOut {
    sh.log.put(json!({"e": "reset", "run": run}));
    let nt = prog.threads.len().min(MAX_THREADS);
    let mut out = RunOut { sh: sh.clone(), threads: Vec::new(), nthreads: nt, parked_at: None, hang: None };
    let dispatcher = Dispatcher::builder()
        .worker_threads(NonZeroUsize::new(prog.workers.clamp(1, 3)).unwrap())
        .build();
    let dispatcher = match dispatcher {
        Ok(d) => d,
        Err(e) => {
            out.hang = Some(format!("dispatcher could not be built: {e}"));
            return out;
        }
    };
    let cluster = Cluster::from_dispatcher(dispatcher);
    let deadline = Instant::now() + RUN_WATCHDOG;

    // the supervisor (infrastructure of the recorder, its own lifecycle is not logged)
    let mut sup_handle = None;
    if prog.actors.iter().any(|a| a.sup) {
        let sh2 = sh.clone();
        match drive(async { cluster.spawn(move || Sup { sh: sh2 }, ()).await }, None, Some(deadline)) {
            Some(Ok((mb, h))) => {
                *lock(&sh.sup) = Some(mb);
                sup_handle = Some(h);
            }
            Some(Err(_)) => {
                out.hang = Some("supervisor could not be spawned".into());
                return out;
            }
            None => {
                out.hang = Some("spawn of the supervisor did not complete".into());
                return out;
            }
        }
    }
    // base actors
    for &slot in &prog.base {
        let sup = lock(&sh.sup).clone();
        if drive(spawn_async(&sh, cluster.clone(), MAIN, slot, prog.actors[slot].clone(), sup), None, Some(deadline)).is_none() {
            out.hang = Some(format!("spawn of base slot {slot} did not complete"));
            return out;
        }
    }
    // client threads
    let barrier = Arc::new(Barrier::new(nt + 1));
    for t in 0..nt {
        let (sh2, cl, ops, specs, b) = (sh.clone(), cluster.clone(), prog.threads[t].clone(), prog.actors.clone(), barrier.clone());
        out.threads.push(
            thread::Builder::new()
                .name(format!("client{t}"))
                .spawn(move || {
                    b.wait();
                    let sh3 = sh2.clone();
                    if let Err(e) = catch_unwind(AssertUnwindSafe(|| run_thread(sh2, cl, t, ops, specs))) {
                        lock(&sh3.unexpected).push(format!("PANIC in client thread {t}: {}", panic_msg(e)));
                        sh3.done[t].store(true, Ordering::Release);
                    }
                })
                .expect("thread"),
        );
    }
    barrier.wait();
    // phase A: wait until every client is done or waits inside a call
    let t0 = Instant::now();
    while t0.elapsed() < Duration::from_secs(10) {
        if (0..nt).all(|t| sh.done[t].load(Ordering::Acquire) || sh.in_call[t].load(Ordering::Acquire)) {
            break;
        }
        thread::sleep(Duration::from_micros(200));
    }
    // phase B: no further spawns from client threads
    {
        let t0 = Instant::now();
        loop {
            if let Ok(mut g) = sh.gate.try_write() {
                *g = true;
                break;
            }
            if t0.elapsed() > RUN_WATCHDOG {
                out.hang = Some("a client spawn did not complete (gate)".into());
                return out;
            }
            thread::sleep(Duration::from_millis(1));
        }
    }
    // phase C: stop every actor, await every exit, let the supervisor settle; repeat until stable
    for a in 0..MAX_ACTORS {
        sh.gate_open[a].store(true, Ordering::Release);
        sh.drop_open[a].store(true, Ordering::Release);
        sh.start_open[a].store(true, Ordering::Release);
    }
    let mut stopped = vec![false; MAX_ACTORS];
    let mut exited = vec![false; MAX_ACTORS];
    loop {
        let mut progress = false;
        for a in 0..MAX_ACTORS {
            let mb = lock(&sh.mbs[a]).clone();
            if let (Some(mb), false) = (mb, stopped[a]) {
                stopped[a] = true;
                progress = true;
                sh.log.put(json!({"e": "stop.call", "p": MAIN, "a": a}));
                let r = mb.stop();
                sh.log.put(json!({"e": "stop.ret", "p": MAIN, "res": if r { "true" } else { "false" }}));
            }
        }
        for a in 0..MAX_ACTORS {
            if !stopped[a] {
                // spawned (by the supervisor) after the stop sweep of this round: next round
                if lock(&sh.mbs[a]).is_some() {
                    progress = true;
                }
                continue;
            }
            let h = lock(&sh.handles[a]).take();
            if let Some(h) = h {
                progress = true;
                match drive(h, None, Some(Instant::now() + RUN_WATCHDOG)) {
                    Some(Ok(ActorExit::Stopped)) => sh.log.put(json!({"e": "exit", "a": a, "res": "stopped"})),
                    Some(Ok(ActorExit::Failed(_))) => sh.log.put(json!({"e": "exit", "a": a, "res": "failed"})),
                    Some(Err(_)) => sh.log.put(json!({"e": "exit", "a": a, "res": "lost"})),
                    None => {
                        out.hang = Some(format!("actor {a} did not exit within the watchdog after stop"));
                        return out;
                    }
                }
                exited[a] = true;
            }
        }
        let sup = lock(&sh.sup).clone();
        if let Some(sup) = sup {
            match drive(sup.call(Sync), None, Some(Instant::now() + RUN_WATCHDOG)) {
                Some(_) => {}
                None => {
                    out.hang = Some("supervisor did not answer within the watchdog".into());
                    return out;
                }
            }
        }
        if !progress {
            break;
        }
    }
    // phase D: clients that are still inside a call now wait on an actor that is gone
    let t0 = Instant::now();
    let mut last = sh.log.len();
    loop {
        if all_done(&sh, nt) {
            break;
        }
        thread::sleep(Duration::from_millis(2));
        let now = sh.log.len();
        let quiet = now == last;
        last = now;
        let only_calls = (0..nt).all(|t| sh.done[t].load(Ordering::Acquire) || sh.in_call[t].load(Ordering::Acquire));
        if (quiet && only_calls && t0.elapsed() > Duration::from_millis(150)) || t0.elapsed() > Duration::from_secs(5) {
            out.parked_at = Some(Instant::now());
            break;
        }
    }
    // phase E: supervisor down, cluster joined
    if let (Some(sup), Some(h)) = (lock(&sh.sup).clone(), sup_handle) {
        sup.stop();
        if drive(h, None, Some(Instant::now() + RUN_WATCHDOG)).is_none() {
            out.hang = Some("supervisor did not exit".into());
            return out;
        }
    }
    lock(&sh.tokens).clear();
    match drive(cluster.join(), None, Some(Instant::now() + RUN_WATCHDOG)) {
        Some(Ok(())) => {}
        Some(Err(e)) => lock(&sh.unexpected).push(format!("cluster.join failed: {e}")),
        None => out.hang = Some("cluster.join did not complete".into()),
    }
    out
}

struct Sink {
    tf: std::io::BufWriter<std::fs::File>,
    pf: std::io::BufWriter<std::fs::File>,
    events: u64,
}

impl Sink {
    fn line(&mut self, v: Value) {
        // the program / progress file is what the check reads when this process dies: always flushed
        let _ = writeln!(self.pf, "{v}");
        let _ = self.pf.flush();
    }
}

/// Joins the client threads of a finished run (bounded) and writes its trace and its progress line.
fn finalize(run: u64, prog: &Program, out: &mut RunOut, rep: &mut Report, sink: &mut Sink) {
    let progv = serde_json::to_value(prog).unwrap_or(Value::Null);
    if out.hang.is_none() {
        let t0 = Instant::now();
        while !all_done(&out.sh, out.nthreads) && t0.elapsed() < RUN_WATCHDOG {
            for h in &out.threads {
                h.thread().unpark();
            }
            thread::sleep(Duration::from_millis(1));
        }
        if all_done(&out.sh, out.nthreads) {
            for h in out.threads.drain(..) {
                let _ = h.join();
            }
        } else {
            rep.problem(
                "hang",
                json!({"site": "client-thread", "class": prog.class}),
                format!("run {run}: a client thread did not finish its script"),
                &progv,
                run as usize,
            );
        }
    }
    let n = {
        let ev = lock(&out.sh.log.ev);
        for e in ev.iter() {
            let _ = writeln!(sink.tf, "{e}");
        }
        ev.len() as u64
    };
    let _ = sink.tf.flush();
    sink.events += n;
    let unexpected = lock(&out.sh.unexpected).clone();
    sink.line(json!({"run": run, "state": "done", "unexpected": unexpected, "hang": out.hang, "parked": out.parked_at.is_some(), "events": n}));
    for u in unexpected {
        let ty = if u.starts_with("PANIC") { "panic" } else if u.starts_with("HANG") { "hang" } else { "contract" };
        rep.problem(
            ty,
            json!({"site": "recorder-observation", "class": prog.class, "what": u.split(' ').take(4).collect::<Vec<_>>().join(" ")}),
            format!("run {run}: {u}"),
            &progv,
            run as usize,
        );
    }
}

fn main() {
    let args: Vec<String> = std::env::args().collect();
    if args.len() < 5 {
        eprintln!("usage: record_actor <trace.ndjson> <programs.jsonl> <seed> <runs> [hang_watchdog_ms] [replay.json|-] [first_run]");
        std::process::exit(2);
    }
    let seed: u64 = args[3].parse().unwrap_or(1);
    let runs: u64 = args[4].parse().unwrap_or(1);
    let hang_ms: u64 = args.get(5).and_then(|s| s.parse().ok()).unwrap_or(20_000);
    let replay: Option<Program> = match args.get(6).map(String::as_str) {
        None | Some("-") => None,
        Some(p) => match std::fs::read_to_string(p).ok().and_then(|t| serde_json::from_str(&t).ok()) {
            Some(p) => Some(p),
            None => {
                eprintln!("cannot read replay program {p}");
                std::process::exit(2);
            }
        },
    };
    let first: u64 = args.get(7).and_then(|s| s.parse().ok()).unwrap_or(0);
    silence_panics();
    let mut rep = Report::new();
    let (tf, pf) = match (std::fs::File::create(&args[1]), std::fs::File::create(&args[2])) {
        (Ok(a), Ok(b)) => (a, b),
        _ => {
            eprintln!("cannot create output files");
            std::process::exit(2);
        }
    };
    let mut sink = Sink { tf: std::io::BufWriter::new(tf), pf: std::io::BufWriter::new(pf), events: 0 };
    let mut parked: Vec<(u64, Program, RunOut)> = Vec::new();
    let mut aborted_at: Option<u64> = None;
    for run in first..runs {
        // programs with calls first, so that the hang watchdog of a parked call overlaps with later runs
        let class = match (run * 20) / runs.max(1) {
            0..=6 => 0,
            7..=8 => 3,
            9..=13 => 1,
            _ => 2,
        };
        // the last 28 runs are the directed programs: 18 group layouts, 6 failed-start respawns, 4 spawn races
        let tail = if runs >= 48 { runs - run } else { u64::MAX };
        let prog = match &replay {
            Some(p) => p.clone(),
            None if tail <= 4 => directed("race", tail - 1),
            None if tail <= 10 => directed("respawn", seed.wrapping_add(tail)),
            None if tail <= 28 => directed("layout", tail - 11),
            None => generate(seed.wrapping_mul(1_000_003).wrapping_add(run), class),
        };
        let progv = serde_json::to_value(&prog).unwrap_or(Value::Null);
        sink.line(json!({"run": run, "state": "start", "prog": progv}));
        let sh = Arc::new(Shared::new(&prog));
        let mut out = match catch_unwind(AssertUnwindSafe(|| run_program(&prog, run, sh.clone()))) {
            Ok(o) => o,
            Err(e) => {
                // a panic that reached the main thread of the run (e.g. a worker panic resumed by Cluster::join)
                let msg = panic_msg(e);
                rep.problem(
                    "panic",
                    json!({"site": "run", "class": prog.class, "what": msg.split(' ').take(4).collect::<Vec<_>>().join(" ")}),
                    format!("run {run}: panic reached the driving thread: {msg}"),
                    &progv,
                    run as usize,
                );
                for a in 0..MAX_ACTORS {
                    sh.gate_open[a].store(true, Ordering::Release);
                    sh.drop_open[a].store(true, Ordering::Release);
                    sh.start_open[a].store(true, Ordering::Release);
                }
                for t in 0..MAX_THREADS {
                    sh.giveup[t].store(true, Ordering::Release);
                }
                sink.line(json!({"run": run, "state": "done", "panic": msg, "unexpected": [], "hang": Value::Null, "parked": false, "events": 0}));
                rep.cases += 1;
                continue;
            }
        };
        rep.cases += 1;
        if let Some(h) = out.hang.clone() {
            rep.problem(
                "hang",
                json!({"site": "run", "class": prog.class, "what": h.split(' ').take(3).collect::<Vec<_>>().join(" ")}),
                format!("run {run}: {h}"),
                &progv,
                run as usize,
            );
            finalize(run, &prog, &mut out, &mut rep, &mut sink);
            // threads and workers of this run may be wedged for good: the check continues in a fresh process
            aborted_at = Some(run);
            break;
        }
        if out.parked_at.is_some() {
            parked.push((run, prog, out));
        } else {
            finalize(run, &prog, &mut out, &mut rep, &mut sink);
        }
    }
    // parked calls: wait until each is at least hang_ms old, then give up on it
    let hang = Duration::from_millis(hang_ms);
    let parked_runs = parked.len() as u64;
    for (run, prog, mut out) in parked {
        if let Some(at) = out.parked_at {
            while !all_done(&out.sh, out.nthreads) && at.elapsed() < hang {
                thread::sleep(Duration::from_millis(5));
            }
            for t in 0..out.nthreads {
                out.sh.giveup[t].store(true, Ordering::Release);
            }
        }
        finalize(run, &prog, &mut out, &mut rep, &mut sink);
    }
    rep.steps = sink.events;
    rep.set("parked_runs", json!(parked_runs));
    rep.set("aborted", json!(aborted_at.is_some()));
    rep.set("aborted_at", json!(aborted_at));
    rep.finish();
    // client threads of a wedged run may still be blocked: leave without joining them
    std::process::exit(0);
}
