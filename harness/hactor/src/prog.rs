//! Seeded random programs over the public compio-actor API.
//!
//! A program is plain data: actor specifications ("slots"), the slots the main thread spawns before the
//! client threads start, and one script per client thread.  The recorder executes it on a real cluster.
use serde::{Deserialize, Serialize};

pub const MAX_SLOTS: usize = 8; // program actors 0..8, replacements spawned by the supervisor 8..12
pub const MAX_ACTORS: usize = 12;
pub const MAX_THREADS: usize = 4;

#[derive(Serialize, Deserialize, Clone, Debug)]
pub struct ActorSpec {
    pub name: Option<String>,
    pub cap: usize,
    pub pre_ok: bool,
    pub post_ok: bool,
    pub prestop_ok: bool,
    pub poststop_ok: bool,
    pub sup: bool,
    /// microseconds spent inside pre_start (widens the reserved-but-invisible window)
    pub pre_delay: u32,
    /// microseconds spent inside pre_stop (widens the window between the end of the loop and the close)
    #[serde(default)]
    pub stop_delay: u32,
    /// the Drop of an incarnation whose pre_start failed waits (bounded) until the spawner reacted to the failure
    #[serde(default)]
    pub drop_gate: bool,
    /// pre_start parks (async, bounded) until the recorder opens the actor's start gate
    #[serde(default)]
    pub pre_gate: bool,
}

#[derive(Serialize, Deserialize, Clone, Debug)]
#[serde(tag = "op")]
pub enum Op {
    Spawn { slot: usize },
    Send { slot: usize, k: String, d: u32 },
    Call { slot: usize, k: String, d: u32 },
    Stop { slot: usize },
    Lookup { name: String, send: Option<String> },
    GJoin { slot: usize, tok: u32 },
    GLeave { tok: u32 },
    GSend { k: String, d: u32 },
    GLen,
    /// spawn `slot`; if its start-up fails, immediately spawn `slot2` (same name) while the failed
    /// incarnation is still being torn down
    SpawnRespawn { slot: usize, slot2: usize },
    /// send a cast whose handler waits for the actor's gate, and wait until the handler is entered
    SendGate { slot: usize },
    OpenGate { slot: usize },
    OpenStart { slot: usize },
    WaitStartEntered { slot: usize },
    WaitSettled { slot: usize },
    WaitSpawnRet { slot: usize },
    /// wait (bounded) until every cast accepted so far was handled
    WaitHandled,
    /// stop the actor and await its exit
    StopWait { slot: usize },
    Pause { us: u32 },
}

#[derive(Serialize, Deserialize, Clone, Debug)]
pub struct Program {
    pub class: String,
    pub seed: u64,
    pub workers: usize,
    pub actors: Vec<ActorSpec>,
    pub base: Vec<usize>,
    pub threads: Vec<Vec<Op>>,
    pub respawns: u32,
}

pub struct Rng(pub u64);
impl Rng {
    pub fn next(&mut self) -> u64 {
        self.0 = self.0.wrapping_add(0x9E37_79B9_7F4A_7C15);
        let mut z = self.0;
        z = (z ^ (z >> 30)).wrapping_mul(0xBF58_476D_1CE4_E5B9);
        z = (z ^ (z >> 27)).wrapping_mul(0x94D0_49BB_1331_11EB);
        z ^ (z >> 31)
    }

    pub fn below(&mut self, n: u64) -> u64 {
        self.next() % n.max(1)
    }

    pub fn range(&mut self, lo: u64, hi: u64) -> u64 {
        lo + self.below(hi - lo + 1)
    }

    pub fn chance(&mut self, percent: u64) -> bool {
        self.below(100) < percent
    }

    pub fn pick<'a, T>(&mut self, xs: &'a [T]) -> &'a T {
        &xs[self.below(xs.len() as u64) as usize]
    }
}

fn plain(cap: usize) -> ActorSpec {
    ActorSpec {
        name: None,
        cap,
        pre_ok: true,
        post_ok: true,
        prestop_ok: true,
        poststop_ok: true,
        sup: false,
        pre_delay: 0,
        stop_delay: 0,
        drop_gate: false,
        pre_gate: false,
    }
}

fn cast_kind(r: &mut Rng) -> String {
    match r.below(100) {
        0..=79 => "cast",
        80..=87 => "fail",
        _ => "stopself",
    }
    .to_string()
}

fn call_kind(r: &mut Rng) -> String {
    match r.below(100) {
        0..=69 => "call",
        70..=89 => "noreply",
        _ => "callfail",
    }
    .to_string()
}

fn delay(r: &mut Rng) -> u32 {
    *r.pick(&[0, 0, 0, 30, 200, 800])
}

/// `class`: 0 mailbox, 1 registry, 2 group, 3 mixed
pub fn generate(seed: u64, class: u32) -> Program {
    let mut r = Rng(seed ^ 0xC19C_19C1_9C19);
    let workers = r.range(1, 3) as usize;
    let mut actors: Vec<ActorSpec> = Vec::new();
    let mut base: Vec<usize> = Vec::new();
    let mut threads: Vec<Vec<Op>> = Vec::new();
    let mut respawns = 0;
    let names = ["x", "y"];
    let mut tok = 0u32;
    match class {
        0 => {
            // mailbox: unnamed actors, concurrent senders / callers, stop racing
            let n = r.range(1, 2) as usize;
            for i in 0..n {
                let mut a = plain(r.range(1, 2) as usize);
                a.post_ok = !r.chance(6);
                a.prestop_ok = !r.chance(5);
                a.poststop_ok = !r.chance(5);
                a.stop_delay = *r.pick(&[0, 0, 100, 400]);
                actors.push(a);
                base.push(i);
            }
            let nt = r.range(2, 3) as usize;
            for _ in 0..nt {
                let len = r.range(3, 7);
                let mut s = Vec::new();
                for _ in 0..len {
                    let slot = r.below(n as u64) as usize;
                    s.push(match r.below(100) {
                        0..=54 => Op::Send { slot, k: cast_kind(&mut r), d: delay(&mut r) },
                        55..=79 => Op::Call { slot, k: call_kind(&mut r), d: delay(&mut r) },
                        80..=89 => Op::Stop { slot },
                        _ => Op::Pause { us: *r.pick(&[10, 100, 500]) },
                    });
                }
                threads.push(s);
            }
        }
        1 => {
            // registry: named spawns racing each other, lookups racing start-up, failing hooks, supervisor
            let n = r.range(2, 6) as usize;
            let mut caps = [0usize; 2];
            for _ in 0..n {
                let two = !r.chance(70);
                let ni = r.below(if two { 2 } else { 1 }) as usize;
                caps[ni] += 1;
                let mut a = plain(caps[ni].min(4));
                if caps[ni] > 4 {
                    // more than four incarnations of one name: leave the rest unnamed
                    a.name = None;
                    a.cap = 1;
                } else {
                    a.name = Some(names[ni].to_string());
                }
                a.pre_ok = !r.chance(20);
                a.post_ok = !r.chance(15);
                a.prestop_ok = !r.chance(5);
                a.poststop_ok = !r.chance(5);
                a.pre_delay = *r.pick(&[0, 100, 500, 1500, 3000]);
                a.sup = a.name.is_some() && r.chance(40);
                actors.push(a);
            }
            respawns = r.range(0, 2) as u32;
            if r.chance(50) {
                base.push(0);
            }
            let nt = r.range(2, 4) as usize;
            for _ in 0..nt {
                threads.push(Vec::new());
            }
            // every slot not in base is spawned by exactly one thread
            for slot in 0..n {
                if base.contains(&slot) {
                    continue;
                }
                let t = r.below(nt as u64) as usize;
                threads[t].push(Op::Spawn { slot });
            }
            for t in 0..nt {
                let extra = r.range(3, 7);
                for _ in 0..extra {
                    let slot = r.below(n as u64) as usize;
                    let op = match r.below(100) {
                        0..=54 => Op::Lookup {
                            name: r.pick(&names).to_string(),
                            send: if r.chance(50) { Some(cast_kind(&mut r)) } else { None },
                        },
                        55..=69 => Op::Stop { slot },
                        70..=84 => Op::Send { slot, k: cast_kind(&mut r), d: delay(&mut r) },
                        85..=92 => Op::Call { slot, k: call_kind(&mut r), d: 0 },
                        _ => Op::Pause { us: *r.pick(&[10, 100, 500]) },
                    };
                    let pos = r.below(threads[t].len() as u64 + 1) as usize;
                    threads[t].insert(pos, op);
                }
            }
        }
        2 => {
            // process group: join / leave / send racing direct sends and stops
            let n = r.range(2, 3) as usize;
            for i in 0..n {
                actors.push(plain(r.range(1, 2) as usize));
                base.push(i);
            }
            let nt = r.range(2, 3) as usize;
            for t in 0..nt {
                let mut s = Vec::new();
                if t == 0 {
                    for slot in 0..n {
                        if r.chance(85) {
                            s.push(Op::GJoin { slot, tok });
                            tok += 1;
                        }
                    }
                }
                let len = r.range(3, 7);
                for _ in 0..len {
                    let slot = r.below(n as u64) as usize;
                    s.push(match r.below(100) {
                        0..=44 => Op::GSend { k: cast_kind(&mut r), d: *r.pick(&[0, 200, 800, 2000]) },
                        45..=49 => Op::GLen,
                        50..=59 => {
                            tok += 1;
                            Op::GJoin { slot, tok: tok - 1 }
                        }
                        60..=69 => Op::GLeave { tok: r.below(tok.max(1) as u64) as u32 },
                        70..=81 => Op::Send { slot, k: "cast".into(), d: *r.pick(&[200, 800, 2000]) },
                        82..=91 => Op::Stop { slot },
                        _ => Op::Pause { us: *r.pick(&[10, 100, 500]) },
                    });
                }
                threads.push(s);
            }
        }
        _ => {
            // mixed: one named supervised actor, one unnamed, group and calls together
            let mut a = plain(r.range(1, 2) as usize);
            a.name = Some("x".into());
            a.sup = true;
            actors.push(a);
            actors.push(plain(r.range(1, 2) as usize));
            let mut b = plain(3);
            b.name = Some("x".into());
            b.pre_ok = !r.chance(30);
            b.pre_delay = 300;
            actors.push(b);
            base.push(0);
            base.push(1);
            respawns = 1;
            let nt = r.range(2, 4) as usize;
            let spawner = r.below(nt as u64) as usize;
            for t in 0..nt {
                let mut s = Vec::new();
                let len = r.range(3, 7);
                for _ in 0..len {
                    let slot = r.below(2) as usize;
                    s.push(match r.below(100) {
                        0..=24 => Op::Send { slot, k: cast_kind(&mut r), d: delay(&mut r) },
                        25..=44 => Op::Call { slot, k: call_kind(&mut r), d: delay(&mut r) },
                        45..=59 => Op::GSend { k: "cast".into(), d: delay(&mut r) },
                        60..=69 => {
                            tok += 1;
                            Op::GJoin { slot, tok: tok - 1 }
                        }
                        70..=74 => Op::GLeave { tok: r.below(tok.max(1) as u64) as u32 },
                        75..=86 => Op::Lookup { name: "x".into(), send: if r.chance(50) { Some("cast".into()) } else { None } },
                        87..=91 => Op::Stop { slot },
                        92..=95 => Op::GLen,
                        _ => Op::Pause { us: *r.pick(&[10, 100, 500]) },
                    });
                }
                if t == spawner {
                    let pos = r.below(s.len() as u64 + 1) as usize;
                    s.insert(pos, Op::Spawn { slot: 2 });
                }
                threads.push(s);
            }
        }
    }
    // registry programs: sometimes a failing named spawn is followed at once by a respawn under the same name
    if class == 1 {
        let failing: Vec<usize> = (0..actors.len()).filter(|&i| actors[i].name.is_some() && !actors[i].pre_ok).collect();
        for f in failing {
            let nm = actors[f].name.clone();
            let partner = (0..actors.len()).find(|&j| j != f && actors[j].name == nm && actors[j].pre_ok);
            if let Some(j) = partner {
                let mut found = None;
                for t in 0..threads.len() {
                    if let Some(pos) = threads[t].iter().position(|o| matches!(o, Op::Spawn { slot } if *slot == f)) {
                        found = Some((t, pos));
                    }
                }
                let jpos = threads.iter().enumerate().find_map(|(t, s)| {
                    s.iter().position(|o| matches!(o, Op::Spawn { slot } if *slot == j)).map(|p| (t, p))
                });
                if let (Some((t, pos)), Some((tj, pj))) = (found, jpos) {
                    actors[f].drop_gate = true;
                    threads[tj].remove(pj);
                    let pos = if tj == t && pj < pos { pos - 1 } else { pos };
                    threads[t][pos] = Op::SpawnRespawn { slot: f, slot2: j };
                    break;
                }
            }
        }
    }
    let class = ["mailbox", "registry", "group", "mixed"][class.min(3) as usize].to_string();
    Program { class, seed, workers, actors, base, threads, respawns }
}

/// Directed programs (small exhaustive enumerations) for behaviours random programs rarely reach.
///
/// kind "respawn", variant 0..: a named spawn whose pre_start fails, followed at once by a spawn of the same
/// name while the failed incarnation is still being torn down (its Drop is gated).
/// kind "race", variant 0..4: two spawns race for one name while the first sits in a gated pre_start.
/// kind "layout", variant 0..18: process group with members A (mailbox full), B (closed, not yet pruned) and
/// C (live, room), every join order (6) x every cursor position (3); the group send must reach C.
pub fn directed(kind: &str, variant: u64) -> Program {
    let mut r = Rng(variant ^ 0xD1EC_7ED0);
    let mut actors = Vec::new();
    let mut threads: Vec<Vec<Op>> = Vec::new();
    let mut base = Vec::new();
    let workers = (variant % 3 + 1) as usize;
    match kind {
        "respawn" => {
            let mut a = plain(1);
            a.name = Some("x".into());
            a.pre_ok = false;
            a.drop_gate = true;
            a.pre_delay = *r.pick(&[0, 100, 500]);
            actors.push(a);
            let mut b = plain(2);
            b.name = Some("x".into());
            actors.push(b);
            let mut c = plain(3);
            c.name = Some("x".into());
            actors.push(c);
            let mut t0 = vec![Op::SpawnRespawn { slot: 0, slot2: 1 }, Op::Lookup { name: "x".into(), send: Some("cast".into()) }];
            if variant % 2 == 1 {
                // the replacement is stopped and the name reused once more
                t0.push(Op::StopWait { slot: 1 });
                t0.push(Op::Spawn { slot: 2 });
            }
            threads.push(t0);
            if variant % 3 != 0 {
                let mut t1 = Vec::new();
                for _ in 0..r.range(2, 5) {
                    t1.push(Op::Lookup { name: "x".into(), send: None });
                    t1.push(Op::Pause { us: *r.pick(&[10, 100, 300]) });
                }
                threads.push(t1);
            }
        }
        "race" => {
            // two spawns race for one name: the second arrives while the first incarnation is parked inside its
            // gated pre_start; variant bit 0: which gate opens first, bit 1: the first incarnation's start-up fails
            let second_first = variant & 1 == 1;
            let first_fails = variant & 2 == 2;
            let mut a = plain(1);
            a.name = Some("x".into());
            a.pre_gate = true;
            a.pre_ok = !first_fails;
            actors.push(a);
            let mut b = plain(2);
            b.name = Some("x".into());
            b.pre_gate = true;
            actors.push(b);
            let mut c = plain(3);
            c.name = Some("x".into());
            actors.push(c);
            threads.push(vec![Op::Spawn { slot: 0 }]);
            threads.push(vec![Op::WaitStartEntered { slot: 0 }, Op::Spawn { slot: 1 }]);
            let (x, y) = if second_first { (1, 0) } else { (0, 1) };
            threads.push(vec![
                Op::WaitStartEntered { slot: 0 },
                Op::WaitSettled { slot: 1 },
                Op::Lookup { name: "x".into(), send: None }, // nobody has started yet: invisible
                Op::OpenStart { slot: x },
                Op::WaitSpawnRet { slot: x },
                Op::Lookup { name: "x".into(), send: None },
                Op::OpenStart { slot: y },
                Op::WaitSpawnRet { slot: y },
                Op::Lookup { name: "x".into(), send: Some("cast".into()) },
                Op::StopWait { slot: 0 }, // the first incarnation leaves ...
                Op::Lookup { name: "x".into(), send: None }, // ... a second one, if admitted, must still be found
                Op::Spawn { slot: 2 },
                Op::Lookup { name: "x".into(), send: None },
            ]);
        }
        _ => {
            let perms = [[0usize, 1, 2], [0, 2, 1], [1, 0, 2], [1, 2, 0], [2, 0, 1], [2, 1, 0]];
            let perm = perms[(variant % 6) as usize];
            let priming = (variant / 6) % 3;
            for i in 0..3 {
                actors.push(plain(1));
                base.push(i);
            }
            let mut t0 = Vec::new();
            for (tok, slot) in perm.iter().enumerate() {
                t0.push(Op::GJoin { slot: *slot, tok: tok as u32 });
            }
            for _ in 0..priming {
                t0.push(Op::GSend { k: "cast".into(), d: 0 });
                t0.push(Op::WaitHandled);
            }
            t0.push(Op::SendGate { slot: 0 }); // A is busy ...
            t0.push(Op::Send { slot: 0, k: "cast".into(), d: 0 }); // ... and its mailbox (capacity 1) full
            t0.push(Op::StopWait { slot: 1 }); // B is closed but still a member
            t0.push(Op::GLen);
            t0.push(Op::GSend { k: "cast".into(), d: 0 }); // must reach C, the only live member with room
            t0.push(Op::GLen);
            t0.push(Op::OpenGate { slot: 0 });
            threads.push(t0);
        }
    }
    Program { class: kind.to_string(), seed: variant, workers, actors, base, threads, respawns: 0 }
}
