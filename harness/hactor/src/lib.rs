//! harness package hactor
