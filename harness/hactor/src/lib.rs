//! harness package hactor: recorder for property C19 (compio-actor).
//!
//! `prog` holds the seeded program generator (plain data, serialisable so that a failing program is its
//! own replay file); the recorder itself is `src/bin/record_actor.rs`.
pub mod prog;
