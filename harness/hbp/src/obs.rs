//! Observation of the real pool state (the projection the model is compared with, and the input of the
//! contract oracle). Nothing here goes through the code under test except `Debug for BufferPool`:
//!   * slot table and, for the fallback pool, the free list: parsed from `format!("{pool:?}")`;
//!   * io_uring buffer ring: the tail and the entries are read from the mmap-ed ring memory (address taken
//!     from the same Debug output), the kernel's head from `io_uring_register(IORING_REGISTER_PBUF_STATUS)`.
use std::os::fd::RawFd;

use compio_driver::BufferPool;

#[derive(Clone, Debug, Default)]
pub struct PoolObs {
    /// slot[b]: Some(address) or None
    pub slots: Vec<Option<usize>>,
    /// ids visible to the kernel / in the free list, oldest first
    pub provided: Vec<u16>,
    /// (bid, addr, len) of the provided ring entries (ring only)
    pub entries: Vec<(u16, usize, u32)>,
    pub ring: bool,
    pub tail: u16,
    pub head: u16,
}

fn parse_hex(s: &str) -> Option<usize> {
    let s = s.trim().trim_start_matches("0x");
    usize::from_str_radix(s, 16).ok()
}

fn field_usize(s: &str, name: &str) -> Option<usize> {
    let i = s.find(name)? + name.len();
    let rest = &s[i..];
    let end = rest.find(|c: char| c == ',' || c == ' ' || c == '}').unwrap_or(rest.len());
    let v = rest[..end].trim();
    if v.starts_with("0x") { parse_hex(v) } else { v.parse().ok() }
}

#[repr(C)]
#[derive(Default)]
struct BufStatus {
    buf_group: u32,
    head: u32,
    resv: [u32; 8],
}

const IORING_REGISTER_PBUF_STATUS: libc::c_uint = 26;
const BUF_GROUP: u32 = 1;

fn ring_head(ring_fd: RawFd) -> Result<u16, String> {
    let mut st = BufStatus {
        buf_group: BUF_GROUP,
        ..Default::default()
    };
    let r = unsafe {
        libc::syscall(
            libc::SYS_io_uring_register,
            ring_fd,
            IORING_REGISTER_PBUF_STATUS,
            &mut st as *mut BufStatus,
            1u32,
        )
    };
    if r < 0 {
        return Err(format!("PBUF_STATUS failed: {}", std::io::Error::last_os_error()));
    }
    Ok(st.head as u16)
}

/// Observe the pool. `ring_fd` is the io_uring fd of the proactor (used only for the ring kind).
pub fn observe(pool: &BufferPool, ring_fd: RawFd) -> Result<PoolObs, String> {
    let s = format!("{pool:?}");
    if s.contains("<dropped>") {
        return Err("dropped".into());
    }
    let bi = s.find("buffers: [").ok_or("no buffers field")? + "buffers: [".len();
    let be = s[bi..].find(']').ok_or("no ]")? + bi;
    let mut slots = vec![];
    let body = s[bi..be].trim();
    if !body.is_empty() {
        for item in body.split(", ") {
            let item = item.trim();
            if item == "None" {
                slots.push(None);
            } else if let Some(i) = item.find("Buf<") {
                let e = item[i..].find('>').ok_or("no >")? + i;
                slots.push(Some(parse_hex(&item[i + 4..e]).ok_or("bad ptr")?));
            } else {
                return Err(format!("unparsed slot {item:?}"));
            }
        }
    }
    let mut o = PoolObs {
        slots,
        ..Default::default()
    };
    if let Some(qi) = s.find("queue: [") {
        let qs = qi + "queue: [".len();
        let qe = s[qs..].find(']').ok_or("no ] in queue")? + qs;
        let body = s[qs..qe].trim();
        if !body.is_empty() {
            for item in body.split(", ") {
                o.provided.push(item.trim().parse::<u16>().map_err(|e| format!("queue item: {e}"))?);
            }
        }
    } else if s.contains("IoUring(") {
        o.ring = true;
        let ci = s.find("IoUring(").unwrap();
        let ctl = &s[ci..];
        let ptr = field_usize(ctl, "ptr: ").ok_or("no ring ptr")?;
        let len = field_usize(ctl, "len: ").ok_or("no ring len")? as u16;
        if ptr == 0 || len == 0 || !len.is_power_of_two() {
            return Err(format!("bad ring ptr/len {ptr:#x}/{len}"));
        }
        // struct io_uring_buf { u64 addr; u32 len; u16 bid; u16 resv }, the tail overlays resv of entry 0
        let base = ptr as *const u8;
        let tail = unsafe { std::ptr::read_volatile(base.add(14) as *const u16) };
        let head = ring_head(ring_fd)?;
        o.tail = tail;
        o.head = head;
        // more entries than the ring has slots can only come from providing a buffer twice: still report
        // what the kernel would consume (entries are then seen more than once)
        let cnt = tail.wrapping_sub(head).min(len.saturating_mul(2));
        for k in 0..cnt {
            let idx = (head.wrapping_add(k) & (len - 1)) as usize;
            let e = unsafe { base.add(idx * 16) };
            let addr = unsafe { std::ptr::read_volatile(e as *const u64) } as usize;
            let blen = unsafe { std::ptr::read_volatile(e.add(8) as *const u32) };
            let bid = unsafe { std::ptr::read_volatile(e.add(12) as *const u16) };
            o.provided.push(bid);
            o.entries.push((bid, addr, blen));
        }
    } else {
        return Err("unknown control block".into());
    }
    Ok(o)
}
