//! harness package hbp (C07: managed buffer pool).
//!
//! `rec` is a tiny recorder installed into the hook sink `compio_log::verif`: the replay binary
//! uses it only to *wait* for driver-side events (a completion was processed, an operation was
//! freed) without consuming results, never for ordering by wall-clock.
pub mod alloc;
pub mod obs;
pub mod ops;
pub mod src;

pub mod rec {
    use std::sync::{
        Mutex, OnceLock,
        atomic::{AtomicBool, AtomicU64, Ordering},
    };

    #[derive(Clone, Debug)]
    pub struct RawEvent {
        pub site: &'static str,
        pub a: u64,
        pub b: u64,
        /// recorded on the thread that installed the recorder (the driver thread)
        pub main: bool,
    }

    static REC: OnceLock<Mutex<Vec<RawEvent>>> = OnceLock::new();
    static MAIN: OnceLock<std::thread::ThreadId> = OnceLock::new();
    /// steering: while set, a pool thread that reaches `blocking.done` (its job is finished, the
    /// completion entry not yet sent) spins until the harness opens the gate
    static HOLD: AtomicBool = AtomicBool::new(false);
    static PARKED: AtomicU64 = AtomicU64::new(0);
    static GATE_TIMEOUTS: AtomicU64 = AtomicU64::new(0);

    fn state() -> &'static Mutex<Vec<RawEvent>> {
        REC.get_or_init(|| Mutex::new(Vec::new()))
    }

    fn sink(site: &'static str, a: u64, b: u64) {
        // only the sites this package looks at (keeps the log small)
        match site {
            "op.alloc" | "op.free" | "op.result" | "iour.cqe" | "blocking.dispatch" | "blocking.start" | "blocking.done" => {}
            _ => return,
        }
        let main = MAIN.get().map(|m| *m == std::thread::current().id()).unwrap_or(false);
        {
            let mut s = state().lock().unwrap_or_else(|e| e.into_inner());
            s.push(RawEvent { site, a, b, main });
        }
        if site == "blocking.done" && !main && HOLD.load(Ordering::Acquire) {
            PARKED.fetch_add(1, Ordering::AcqRel);
            // the gate opens by itself after a while: if the proactor's drop waits for this job (a repaired
            // driver) the harness thread cannot open it
            let t0 = std::time::Instant::now();
            while HOLD.load(Ordering::Acquire) {
                std::hint::spin_loop();
                if t0.elapsed() > std::time::Duration::from_secs(3) {
                    GATE_TIMEOUTS.fetch_add(1, Ordering::AcqRel);
                    HOLD.store(false, Ordering::Release);
                }
            }
        }
    }

    pub fn install() {
        let _ = MAIN.set(std::thread::current().id());
        compio_log::verif::set_sink(Some(sink));
    }

    pub fn hold(on: bool) {
        HOLD.store(on, Ordering::Release);
    }

    pub fn gate_timeouts() -> u64 {
        GATE_TIMEOUTS.load(Ordering::Acquire)
    }

    pub fn parked() -> u64 {
        PARKED.load(Ordering::Acquire)
    }

    pub fn mark() -> usize {
        state().lock().unwrap_or_else(|e| e.into_inner()).len()
    }

    pub fn since(mark: usize) -> Vec<RawEvent> {
        let s = state().lock().unwrap_or_else(|e| e.into_inner());
        s[mark.min(s.len())..].to_vec()
    }

    pub fn count(mark: usize, pred: impl Fn(&RawEvent) -> bool) -> usize {
        let s = state().lock().unwrap_or_else(|e| e.into_inner());
        s[mark.min(s.len())..].iter().filter(|e| pred(e)).count()
    }

    pub fn clear() {
        state().lock().unwrap_or_else(|e| e.into_inner()).clear();
    }
}
