//! harness package hbp (C07: managed buffer pool).
//!
//! `rec` is a tiny recorder installed into the hook sink `compio_log::verif`: the replay binary
//! uses it only to *wait* for driver-side events (a completion was processed, an operation was
//! freed) without consuming results, never for ordering by wall-clock.
pub mod alloc;
pub mod obs;
pub mod ops;
pub mod src;

pub mod rec {
    use std::sync::{Mutex, OnceLock};

    #[derive(Clone, Debug)]
    pub struct RawEvent {
        pub site: &'static str,
        pub a: u64,
        pub b: u64,
    }

    static REC: OnceLock<Mutex<Vec<RawEvent>>> = OnceLock::new();

    fn state() -> &'static Mutex<Vec<RawEvent>> {
        REC.get_or_init(|| Mutex::new(Vec::new()))
    }

    fn sink(site: &'static str, a: u64, b: u64) {
        // only the sites this package looks at (keeps the log small)
        match site {
            "op.alloc" | "op.free" | "op.result" | "iour.cqe" => {}
            _ => return,
        }
        let mut s = state().lock().unwrap_or_else(|e| e.into_inner());
        s.push(RawEvent { site, a, b });
    }

    pub fn install() {
        compio_log::verif::set_sink(Some(sink));
    }

    pub fn mark() -> usize {
        state().lock().unwrap_or_else(|e| e.into_inner()).len()
    }

    pub fn since(mark: usize) -> Vec<RawEvent> {
        let s = state().lock().unwrap_or_else(|e| e.into_inner());
        s[mark.min(s.len())..].to_vec()
    }

    pub fn count(mark: usize, pred: impl Fn(&RawEvent) -> bool) -> usize {
        let s = state().lock().unwrap_or_else(|e| e.into_inner());
        s[mark.min(s.len())..].iter().filter(|e| pred(e)).count()
    }

    pub fn clear() {
        state().lock().unwrap_or_else(|e| e.into_inner()).clear();
    }
}
