//! The two API levels the programs are replayed on.
//!
//! * `drv`: the Proactor API (push / poll / pop / pop_multishot / cancel). Results are turned into handles
//!   exactly the way the library's own consumers do it: `ResultTakeBuffer::take_buffer` for a single read,
//!   the two branches of `SubmitMultiManaged::poll_next` for a multishot stream.
//! * `rt`: compio-runtime: `Runtime::submit(op)` + `ResultTakeBuffer` (what AsyncFd::read_managed does) and
//!   `Runtime::submit_multi(op).into_managed(pool)` (the real stream adapter of future/stream.rs), polled by hand.
use std::{
    future::Future,
    io,
    os::fd::OwnedFd,
    pin::Pin,
    task::{Context, Poll, Waker},
};

use compio_buf::{BufResult, SetLenExt};
use compio_driver::{
    BufferPool, BufferRef, Key, OpCode, Proactor, PushEntry, ResultTakeBuffer, SharedFd, TakeBuffer,
    op::{ReadManaged, ReadManagedAt, ReadMulti, RecvFlags, RecvManaged, RecvMulti},
};
use compio_runtime::Runtime;
use futures_util::{Stream, stream::FusedStream};

use crate::src::SrcKind;

pub type Fd = SharedFd<OwnedFd>;

pub enum NextOut {
    /// nothing available yet
    Pending,
    /// a buffer handle with `n` bytes; `fin`: the operation is over
    Handle(BufferRef, bool),
    /// a result without a buffer (end of data); `fin` as above
    Nothing(bool),
    /// an error result; the operation is over
    Err(io::Error),
}

pub trait DynOp {
    fn next(&mut self, be: &mut Backend, pool: &BufferPool) -> NextOut;
    /// Proactor::cancel + dropping whatever comes back / dropping the future or stream
    fn cancel(self: Box<Self>, be: &mut Backend);
}

pub enum Backend {
    Drv(Option<Proactor>),
    Rt(Option<Runtime>),
}

impl Backend {
    pub fn poll(&mut self, t: std::time::Duration) {
        match self {
            Backend::Drv(Some(d)) => {
                let _ = d.poll(Some(t));
            }
            Backend::Rt(Some(rt)) => rt.poll_with(Some(t)),
            _ => {}
        }
    }

    pub fn alive(&self) -> bool {
        matches!(self, Backend::Drv(Some(_)) | Backend::Rt(Some(_)))
    }

    pub fn ring_fd(&self) -> i32 {
        use std::os::fd::AsRawFd;
        match self {
            Backend::Drv(Some(d)) => d.as_raw_fd(),
            Backend::Rt(Some(rt)) => rt.as_raw_fd(),
            _ => -1,
        }
    }
}

// ---------------------------------------------------------------------------------------------
// drv leg
// ---------------------------------------------------------------------------------------------

struct DrvOp<T: OpCode + TakeBuffer<Buffer = BufferRef> + 'static> {
    key: Option<Key<T>>,
    ready: Option<BufResult<usize, T>>,
    multi: bool,
}

fn final_single<T: OpCode + TakeBuffer<Buffer = BufferRef>>(r: BufResult<usize, T>) -> NextOut {
    // compio-runtime AsyncFd::read_managed / compio-net recv_managed: `unsafe { res.take_buffer() }`
    match unsafe { r.take_buffer() } {
        Ok(Some(b)) => NextOut::Handle(b, true),
        Ok(None) => NextOut::Nothing(true),
        Err(e) => NextOut::Err(e),
    }
}

fn final_multi<T: OpCode + TakeBuffer<Buffer = BufferRef>>(r: BufResult<usize, T>) -> NextOut {
    // SubmitMultiManaged::poll_next, branch `inner.is_terminated()`
    let BufResult(res, op) = r;
    let mut b = op.take_buffer();
    let n = match res {
        Ok(n) => n,
        Err(e) => return NextOut::Err(e),
    };
    if let Some(b) = &mut b {
        unsafe { b.advance_to(n) }
    }
    match b {
        Some(b) => NextOut::Handle(b, true),
        None => NextOut::Nothing(true),
    }
}

fn queued(res: io::Result<usize>, extra: compio_driver::Extra, pool: &BufferPool) -> NextOut {
    // SubmitMultiManaged::poll_next, the other branch
    let id = match extra.buffer_id() {
        Ok(id) => id,
        Err(e) => return NextOut::Err(e),
    };
    let b = match pool.take(id) {
        Ok(b) => b,
        Err(e) => return NextOut::Err(e),
    };
    let n = match res {
        Ok(n) => n,
        Err(e) => return NextOut::Err(e),
    };
    match b {
        Some(mut b) => {
            unsafe { b.advance_to(n) };
            NextOut::Handle(b, false)
        }
        None => NextOut::Nothing(false),
    }
}

impl<T: OpCode + TakeBuffer<Buffer = BufferRef> + 'static> DynOp for DrvOp<T> {
    fn next(&mut self, be: &mut Backend, pool: &BufferPool) -> NextOut {
        if let Some(r) = self.ready.take() {
            return if self.multi { final_multi(r) } else { final_single(r) };
        }
        let Backend::Drv(Some(d)) = be else {
            return NextOut::Pending;
        };
        let Some(key) = self.key.take() else {
            return NextOut::Pending;
        };
        if self.multi {
            if let Some(BufResult(res, extra)) = d.pop_multishot(&key) {
                self.key = Some(key);
                return queued(res, extra, pool);
            }
        }
        match d.pop_with_extra(key) {
            PushEntry::Pending(k) => {
                self.key = Some(k);
                NextOut::Pending
            }
            PushEntry::Ready((r, _extra)) => {
                if self.multi {
                    final_multi(r)
                } else {
                    final_single(r)
                }
            }
        }
    }

    fn cancel(mut self: Box<Self>, be: &mut Backend) {
        if let Some(k) = self.key.take() {
            match be {
                Backend::Drv(Some(d)) => drop(d.cancel(k)),
                _ => drop(k),
            }
        }
        self.ready.take();
    }
}

fn drv_push<T: OpCode + TakeBuffer<Buffer = BufferRef> + 'static>(d: &mut Proactor, op: T, multi: bool) -> Box<dyn DynOp> {
    match d.push(op) {
        PushEntry::Pending(k) => Box::new(DrvOp {
            key: Some(k),
            ready: None,
            multi,
        }),
        PushEntry::Ready(r) => Box::new(DrvOp::<T> {
            key: None,
            ready: Some(r),
            multi,
        }),
    }
}

// ---------------------------------------------------------------------------------------------
// rt leg
// ---------------------------------------------------------------------------------------------

type Item = io::Result<Option<BufferRef>>;
trait MStream: Stream<Item = Item> + FusedStream {}
impl<S: Stream<Item = Item> + FusedStream> MStream for S {}

struct RtSingle {
    fut: Option<Pin<Box<dyn Future<Output = Item>>>>,
}

struct RtMulti {
    st: Option<Pin<Box<dyn MStream>>>,
}

fn cx_poll<R>(f: impl FnOnce(&mut Context<'_>) -> R) -> R {
    let w = Waker::noop();
    let mut cx = Context::from_waker(w);
    f(&mut cx)
}

impl DynOp for RtSingle {
    fn next(&mut self, _: &mut Backend, _: &BufferPool) -> NextOut {
        let Some(f) = self.fut.as_mut() else {
            return NextOut::Pending;
        };
        match cx_poll(|cx| f.as_mut().poll(cx)) {
            Poll::Pending => NextOut::Pending,
            Poll::Ready(r) => {
                self.fut = None;
                match r {
                    Ok(Some(b)) => NextOut::Handle(b, true),
                    Ok(None) => NextOut::Nothing(true),
                    Err(e) => NextOut::Err(e),
                }
            }
        }
    }

    fn cancel(mut self: Box<Self>, _: &mut Backend) {
        self.fut.take();
    }
}

impl DynOp for RtMulti {
    fn next(&mut self, _: &mut Backend, _: &BufferPool) -> NextOut {
        let Some(s) = self.st.as_mut() else {
            return NextOut::Pending;
        };
        match cx_poll(|cx| s.as_mut().poll_next(cx)) {
            Poll::Pending => NextOut::Pending,
            Poll::Ready(item) => {
                let fin = s.is_terminated() || item.is_none();
                if fin {
                    self.st = None;
                }
                match item {
                    Some(Ok(Some(b))) => NextOut::Handle(b, fin),
                    Some(Ok(None)) | None => NextOut::Nothing(fin),
                    Some(Err(e)) => {
                        // an error item ends the submission (the adapter has dropped the op)
                        self.st = None;
                        NextOut::Err(e)
                    }
                }
            }
        }
    }

    fn cancel(mut self: Box<Self>, _: &mut Backend) {
        self.st.take();
    }
}

fn rt_single<T: OpCode + TakeBuffer<Buffer = BufferRef> + 'static>(rt: &Runtime, op: T) -> RtSingle {
    let sub = rt.submit(op);
    RtSingle {
        fut: Some(Box::pin(async move {
            let res = sub.await;
            unsafe { res.take_buffer() }
        })),
    }
}

fn rt_multi<T: OpCode + TakeBuffer<Buffer = BufferRef> + 'static>(rt: &Runtime, op: T, pool: &BufferPool) -> RtMulti {
    RtMulti {
        st: Some(Box::pin(rt.submit_multi(op).into_managed(pool.clone()))),
    }
}

// ---------------------------------------------------------------------------------------------

/// Create and submit a managed read on `fd`. `Err` = the constructor failed (fallback pool: pop on an empty
/// free list). On the rt leg the future / stream is polled once so that the operation is really submitted;
/// a result that is ready at once stays inside and comes out of the first `next`.
pub fn submit(
    be: &mut Backend,
    pool: &BufferPool,
    kind: SrcKind,
    fd: &Fd,
    multi: bool,
    offset: u64,
) -> io::Result<Box<dyn DynOp>> {
    macro_rules! go {
        ($op:expr) => {{
            let op = $op?;
            match be {
                Backend::Drv(Some(d)) => Ok(drv_push(d, op, multi)),
                Backend::Rt(Some(rt)) => {
                    if multi {
                        Ok(Box::new(rt_multi(rt, op, pool)) as Box<dyn DynOp>)
                    } else {
                        Ok(Box::new(rt_single(rt, op)) as Box<dyn DynOp>)
                    }
                }
                _ => Err(io::Error::other("backend gone")),
            }
        }};
    }
    match (kind, multi) {
        (SrcKind::File, _) => go!(ReadManagedAt::new(fd.clone(), offset, pool, 0)),
        (SrcKind::Pipe, false) => go!(ReadManaged::new(fd.clone(), pool, 0)),
        (SrcKind::Pipe, true) => go!(ReadMulti::new(fd.clone(), pool, 0)),
        (_, false) => go!(RecvManaged::new(fd.clone(), pool, 0, RecvFlags::empty())),
        (_, true) => go!(RecvMulti::new(fd.clone(), pool, 0, RecvFlags::empty())),
    }
}

/// Wrapper that lets the first poll's Ready result be replayed by the next `next` call.
struct Stash {
    inner: Box<dyn DynOp>,
    first: Option<NextOut>,
}

impl DynOp for Stash {
    fn next(&mut self, be: &mut Backend, pool: &BufferPool) -> NextOut {
        if let Some(f) = self.first.take() {
            return f;
        }
        self.inner.next(be, pool)
    }

    fn cancel(mut self: Box<Self>, be: &mut Backend) {
        self.first.take();
        self.inner.cancel(be)
    }
}

/// rt leg: poll once so that the op reaches the driver; keep an immediate result for later.
pub fn prime(op: Box<dyn DynOp>, be: &mut Backend, pool: &BufferPool, early: &mut bool) -> Box<dyn DynOp> {
    if !matches!(be, Backend::Rt(_)) {
        return op;
    }
    let mut op = op;
    match op.next(be, pool) {
        NextOut::Pending => op,
        other => {
            // a result without a handle has already released the op's buffer: the user-visible `next` of the
            // model has in effect happened during submission
            *early = !matches!(other, NextOut::Handle(..));
            Box::new(Stash {
                inner: op,
                first: Some(other),
            })
        }
    }
}
