//! Data sources of the replayed programs: the harness is the peer that makes data arrive.
//! Every source knows the chunks it has sent that no observed completion has consumed yet, so the content
//! of every buffer handed to the user can be compared with the distinct pattern that was sent.
use compio_driver::SharedFd;
use std::{
    collections::VecDeque,
    io::Write,
    net::{TcpListener, TcpStream, UdpSocket},
    os::{
        fd::{AsRawFd, FromRawFd, OwnedFd},
        unix::net::{UnixDatagram, UnixStream},
    },
};

#[derive(Clone, Copy, Debug, PartialEq, Eq)]
pub enum SrcKind {
    Pipe,
    Unix,
    Tcp,
    Udp,
    Dgram,
    File,
}

impl SrcKind {
    pub fn parse(s: &str) -> Option<Self> {
        Some(match s {
            "pipe" => Self::Pipe,
            "unix" => Self::Unix,
            "tcp" => Self::Tcp,
            "udp" => Self::Udp,
            "dgram" => Self::Dgram,
            "file" => Self::File,
            _ => return None,
        })
    }

    pub fn name(self) -> &'static str {
        match self {
            Self::Pipe => "pipe",
            Self::Unix => "unix",
            Self::Tcp => "tcp",
            Self::Udp => "udp",
            Self::Dgram => "dgram",
            Self::File => "file",
        }
    }

    pub fn is_socket(self) -> bool {
        matches!(self, Self::Unix | Self::Tcp | Self::Udp | Self::Dgram)
    }

    pub fn is_dgram(self) -> bool {
        matches!(self, Self::Udp | Self::Dgram)
    }

    pub fn can_close(self) -> bool {
        !matches!(self, Self::Udp | Self::Dgram)
    }
}

enum Writer {
    Fd(OwnedFd),
    File(std::fs::File, std::path::PathBuf),
    Closed,
}

pub struct Source {
    pub kind: SrcKind,
    /// read side, handed to the operations
    pub rfd: SharedFd<OwnedFd>,
    writer: Writer,
    /// chunks sent and not yet seen in a completion, oldest first
    pub expect: VecDeque<Vec<u8>>,
    /// bytes consumed by completions (the read offset of a file)
    pub consumed: u64,
    salt: u64,
    seq: u64,
    pub bl: usize,
}

fn set_nonblock(fd: i32) {
    unsafe {
        let fl = libc::fcntl(fd, libc::F_GETFL);
        libc::fcntl(fd, libc::F_SETFL, fl | libc::O_NONBLOCK);
    }
}

impl Source {
    pub fn new(kind: SrcKind, bl: usize, salt: u64, scratch: &std::path::Path) -> std::io::Result<Self> {
        let (r, w): (OwnedFd, Writer) = match kind {
            SrcKind::Pipe => {
                let mut fds = [0i32; 2];
                let rc = unsafe { libc::pipe2(fds.as_mut_ptr(), libc::O_NONBLOCK | libc::O_CLOEXEC) };
                if rc != 0 {
                    return Err(std::io::Error::last_os_error());
                }
                unsafe { (OwnedFd::from_raw_fd(fds[0]), Writer::Fd(OwnedFd::from_raw_fd(fds[1]))) }
            }
            SrcKind::Unix => {
                let (a, b) = UnixStream::pair()?;
                a.set_nonblocking(true)?;
                (a.into(), Writer::Fd(b.into()))
            }
            SrcKind::Dgram => {
                let (a, b) = UnixDatagram::pair()?;
                a.set_nonblocking(true)?;
                (a.into(), Writer::Fd(b.into()))
            }
            SrcKind::Tcp => {
                let l = TcpListener::bind("127.0.0.1:0")?;
                let c = TcpStream::connect(l.local_addr()?)?;
                let (s, _) = l.accept()?;
                s.set_nodelay(true)?;
                c.set_nonblocking(true)?;
                (c.into(), Writer::Fd(s.into()))
            }
            SrcKind::Udp => {
                let a = UdpSocket::bind("127.0.0.1:0")?;
                let b = UdpSocket::bind("127.0.0.1:0")?;
                b.connect(a.local_addr()?)?;
                a.connect(b.local_addr()?)?;
                a.set_nonblocking(true)?;
                (a.into(), Writer::Fd(b.into()))
            }
            SrcKind::File => {
                let p = scratch.join(format!("f{}_{salt}.dat", std::process::id()));
                let f = std::fs::OpenOptions::new().create(true).append(true).open(&p)?;
                let r = std::fs::File::open(&p)?;
                (r.into(), Writer::File(f, p))
            }
        };
        if kind != SrcKind::File {
            set_nonblock(r.as_raw_fd());
        }
        Ok(Self {
            kind,
            rfd: SharedFd::new(r),
            writer: w,
            expect: VecDeque::new(),
            consumed: 0,
            salt,
            seq: 0,
            bl,
        })
    }

    fn pattern(&mut self, n: usize) -> Vec<u8> {
        (0..n)
            .map(|_| {
                self.seq += 1;
                // never 0, differs between neighbouring positions and between sources
                ((self.salt * 89 + self.seq * 7 + (self.seq / 31) * 3) % 251 + 1) as u8
            })
            .collect()
    }

    /// Send k chunks. Streams: one write of k * bl bytes (the payload spans k buffers).
    /// Datagram sockets: k datagrams of bl or bl - 1 bytes.
    pub fn feed(&mut self, k: usize) -> std::io::Result<()> {
        let mut chunks = vec![];
        for i in 0..k {
            let n = if self.kind.is_dgram() && self.bl > 1 && (self.seq as usize + i) % 2 == 1 {
                self.bl - 1
            } else {
                self.bl
            };
            chunks.push(self.pattern(n));
        }
        match &mut self.writer {
            Writer::Closed => return Err(std::io::Error::other("feed after close")),
            Writer::File(f, _) => {
                let all: Vec<u8> = chunks.concat();
                f.write_all(&all)?;
                f.flush()?;
            }
            Writer::Fd(fd) => {
                if self.kind.is_dgram() {
                    for c in &chunks {
                        let n = unsafe { libc::send(fd.as_raw_fd(), c.as_ptr() as _, c.len(), 0) };
                        if n as usize != c.len() {
                            return Err(std::io::Error::last_os_error());
                        }
                    }
                } else {
                    let all: Vec<u8> = chunks.concat();
                    let n = unsafe { libc::write(fd.as_raw_fd(), all.as_ptr() as _, all.len()) };
                    if n as usize != all.len() {
                        return Err(std::io::Error::last_os_error());
                    }
                }
            }
        }
        self.expect.extend(chunks);
        Ok(())
    }

    pub fn close(&mut self) {
        if self.kind == SrcKind::File {
            return;
        }
        if let Writer::Fd(fd) = &self.writer {
            if self.kind.is_socket() {
                unsafe { libc::shutdown(fd.as_raw_fd(), libc::SHUT_RDWR) };
            }
        }
        self.writer = Writer::Closed;
    }

    /// A completion delivered `data`: it must be the oldest chunk not yet seen. Returns Err(description).
    pub fn consume(&mut self, data: &[u8]) -> Result<(), String> {
        self.consumed += data.len() as u64;
        match self.expect.pop_front() {
            Some(c) if c == data => Ok(()),
            Some(c) => Err(format!("got {data:?}, the oldest unread chunk sent was {c:?}")),
            None => Err(format!("got {data:?} but nothing unread had been sent")),
        }
    }

    /// `n` chunks were consumed by completions the user never sees (cancelled / dropped operations).
    pub fn skip(&mut self, n: usize) {
        for _ in 0..n {
            if let Some(c) = self.expect.pop_front() {
                self.consumed += c.len() as u64;
            }
        }
    }
}

impl Drop for Source {
    fn drop(&mut self) {
        if let Writer::File(_, p) = &self.writer {
            let _ = std::fs::remove_file(p);
        }
    }
}
