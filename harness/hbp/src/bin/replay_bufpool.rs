//! C07: replay BufferPool programs (spec/Gen_BufferPool.tla) on the real buffer pool.
//!
//! usage: replay_bufpool <cases.jsonl> --leg drv|rt --src pipe|unix|tcp|udp|dgram [--bl 4] [--free] [--probe-only]
//!
//! A case is a program of user commands (submit a managed / multishot read, feed data, take the next
//! result, drop a handle, cancel an operation / drop a stream, close the source, drop the proactor) with
//! the model state expected before every command. `kind` selects the driver: "ring" = io_uring with the
//! provided-buffer ring, "fallback" = polling driver with the fallback pool.
//!
//! exact mode (default): after every command the harness polls the driver until the operations are in the
//!   state the model expects (watchdog), then compares the real slot table, the real provided list (ring
//!   memory + kernel head / free list), the handles and the per-operation state with the model: `mismatch`.
//! free mode (--free): nothing is awaited after submit / feed, completions stay in flight across commands;
//!   only the contract oracle runs.
//! Contract oracle, on the real observation only (both modes): live handles are pairwise disjoint, are
//!   buffers of the pool and are not in their slot; no held buffer is visible to the kernel / in the free
//!   list; no buffer is provided twice; ring entries point at the right memory; the content of a handle is
//!   the distinct pattern that was sent and never changes while held; a request that must be answered is
//!   answered (else `hang`); after the program, with everything dropped, the provided list holds all N
//!   buffers and exactly N managed reads obtain a buffer while the N+1st reports exhaustion as an error;
//!   after the proactor is gone and everything is dropped, every buffer was freed exactly once.
use std::{
    collections::BTreeMap,
    num::NonZeroU16,
    panic::{AssertUnwindSafe, catch_unwind},
    sync::{
        Arc,
        atomic::{AtomicU64, Ordering},
    },
    time::{Duration, Instant},
};

use compio_driver::{BufferPool, BufferRef, DriverType, ProactorBuilder};
use compio_runtime::RuntimeBuilder;
use hbp::{
    alloc::{self, TrackAlloc},
    obs::{self, PoolObs},
    ops::{self, Backend, DynOp, NextOut},
    rec,
    src::{Source, SrcKind},
};
use hcore::out::{Report, cases_from_arg, panic_msg};
use serde_json::{Value, json};

#[derive(Clone)]
struct Cfg {
    leg: String,
    src: SrcKind,
    free: bool,
    bl: usize,
    wd: Duration,
    scratch: std::path::PathBuf,
}

/// the steered race has produced its leak once: further attempts would only cost a watchdog period each
static RACE_FOUND: std::sync::atomic::AtomicBool = std::sync::atomic::AtomicBool::new(false);

struct OpRec {
    op: Option<Box<dyn DynOp>>,
    ptr: u64,
    mark: usize,
    src: String,
    /// results with data the user has seen
    seen: usize,
    cancelled: bool,
}

impl OpRec {
    fn more(&self) -> usize {
        let p = self.ptr;
        rec::count(self.mark, |e| e.site == "iour.cqe" && e.a == p && e.b == 1)
    }

    fn result(&self) -> Option<u64> {
        let p = self.ptr;
        rec::since(self.mark).iter().find(|e| e.site == "op.result" && e.a == p).map(|e| e.b)
    }

    fn freed(&self) -> bool {
        let p = self.ptr;
        self.ptr != 0 && rec::count(self.mark, |e| e.site == "op.free" && e.a == p) > 0
    }

    fn done(&self) -> bool {
        self.ptr == 0 || self.result().is_some()
    }

    /// chunks this op took from its source
    fn consumed(&self) -> usize {
        let fin = match self.result() {
            Some(b) if b >> 63 == 0 && b > 0 => 1,
            _ => 0,
        };
        self.more() + fin
    }
}

struct Held {
    buf: BufferRef,
    addr: usize,
    snap: Vec<u8>,
}

struct Run<'a> {
    cfg: &'a Cfg,
    kind: String,
    n: usize,
    be: Backend,
    pool: BufferPool,
    srcs: BTreeMap<String, Source>,
    ops: BTreeMap<String, OpRec>,
    zombies: Vec<OpRec>,
    hands: Vec<Option<Held>>,
    addr_of: Vec<usize>,
    exact: bool,
    problems: &'a std::cell::RefCell<Vec<(String, Value, String, usize)>>,
    step: usize,
    act: String,
    beat: &'a AtomicU64,
    obs_ok: u64,
    early_final: u64,
    /// event-log position when the proactor was dropped
    release_mark: Option<usize>,
    foreign_frees: u64,
    salt: u64,
}

fn errkind(e: &std::io::Error) -> String {
    if e.kind() == std::io::ErrorKind::ResourceBusy {
        "exhausted".into()
    } else {
        format!("error:{:?}", e.kind())
    }
}

impl<'a> Run<'a> {
    fn sig(&self, what: &str) -> Value {
        json!({"what": what, "leg": self.cfg.leg, "kind": self.kind, "act": self.act,
               "mode": if self.cfg.free { "free" } else { "exact" }})
    }

    fn contract(&mut self, what: &str, desc: String) {
        let s = self.sig(what);
        self.problems.borrow_mut().push(("contract".into(), s, desc, self.step));
    }

    fn hang(&mut self, what: &str, desc: String) {
        let s = self.sig(what);
        self.problems.borrow_mut().push(("hang".into(), s, desc, self.step));
    }

    fn mismatch(&mut self, what: &str, desc: String) {
        if !self.exact {
            return;
        }
        let s = json!({"what": what, "leg": self.cfg.leg, "kind": self.kind, "act": self.act});
        self.problems.borrow_mut().push(("mismatch".into(), s, desc, self.step));
        // one drift per case: the rest of the program runs under the contract oracle only
        self.exact = false;
    }

    fn tick(&self) {
        self.beat.fetch_add(1, Ordering::Relaxed);
    }

    fn poll_once(&mut self, ms: u64) {
        self.be.poll(Duration::from_millis(ms));
        self.tick();
    }

    /// account for zombies that have been freed by now
    fn reap(&mut self) {
        let mut i = 0;
        while i < self.zombies.len() {
            if self.zombies[i].freed() || self.zombies[i].ptr == 0 {
                let z = self.zombies.remove(i);
                let unseen = z.consumed().saturating_sub(z.seen);
                if let Some(s) = self.srcs.get_mut(&z.src) {
                    s.skip(unseen);
                }
            } else {
                i += 1;
            }
        }
    }

    fn st_real(&self, o: &str) -> &'static str {
        if self.zombies.iter().any(|z| z.src == o) {
            return "zombie";
        }
        match self.ops.get(o) {
            None => "idle",
            Some(r) if !self.be.alive() => {
                let _ = r;
                "orphan"
            }
            Some(r) if r.done() => "done",
            Some(_) => "armed",
        }
    }

    fn q_real(&self, o: &str) -> usize {
        match self.ops.get(o) {
            Some(r) if self.be.alive() => r.more().saturating_sub(r.seen),
            _ => 0,
        }
    }

    fn ops_match(&self, x: &Value) -> bool {
        if !self.be.alive() {
            return true;
        }
        let Some(st) = x["st"].as_object() else { return true };
        for (o, v) in st {
            if self.st_real(o) != v.as_str().unwrap_or("") {
                return false;
            }
            if self.q_real(o) as u64 != x["q"][o].as_u64().unwrap_or(0) {
                return false;
            }
        }
        true
    }

    /// exact mode: poll until the operations are in the state the model expects next
    fn settle(&mut self, target: Option<&Value>) {
        let t0 = Instant::now();
        // completions can only arrive through a poll
        self.poll_once(0);
        loop {
            self.reap();
            let ok = match target {
                Some(x) => self.ops_match(x),
                None => self.zombies.is_empty(),
            };
            if ok {
                return;
            }
            if t0.elapsed() > self.cfg.wd {
                break;
            }
            self.poll_once(2);
        }
        // classify: a request that has to be answered and is not
        let mut stuck = vec![];
        for z in &self.zombies {
            stuck.push(format!("cancelled op on {} never freed", z.src));
        }
        for (o, r) in &self.ops {
            if !r.done() {
                let s = &self.srcs[&r.src];
                if !s.expect.is_empty() && self.q_real(o) == 0 {
                    stuck.push(format!("op {o} has {} unread chunks on its source but no result", s.expect.len()));
                }
            }
        }
        if !stuck.is_empty() {
            self.hang("no-answer", format!("after {:?}: {}", self.cfg.wd, stuck.join("; ")));
            self.exact = false;
        } else if let Some(x) = target {
            let real: BTreeMap<String, (String, usize)> = x["st"]
                .as_object()
                .map(|m| m.keys().map(|o| (o.clone(), (self.st_real(o).to_string(), self.q_real(o)))).collect())
                .unwrap_or_default();
            self.mismatch("op-state", format!("model expects st={} q={}, real {:?}", x["st"], x["q"], real));
        }
    }

    fn observe(&mut self) -> Option<PoolObs> {
        if !self.be.alive() {
            return None;
        }
        match obs::observe(&self.pool, self.be.ring_fd()) {
            Ok(o) => {
                self.obs_ok += 1;
                Some(o)
            }
            Err(e) => {
                self.mismatch("observation-failed", e);
                None
            }
        }
    }

    /// contract oracle on the current real state; in exact mode also the comparison with the model
    fn check(&mut self, x: Option<&Value>) {
        self.tick();
        // handles: stable content, disjoint, pool buffers
        let bl = self.cfg.bl;
        let mut held: Vec<(usize, usize, Option<usize>)> = vec![]; // (handle slot, addr, id)
        let mut errs = vec![];
        for (i, h) in self.hands.iter().enumerate() {
            let Some(h) = h else { continue };
            let now: &[u8] = &h.buf;
            if now != h.snap.as_slice() {
                errs.push(("content-changed", format!("handle {} at {:#x}: was {:?}, now {:?}", i + 1, h.addr, h.snap, now)));
            }
            let id = self.addr_of.iter().position(|a| *a == h.addr);
            if id.is_none() {
                errs.push(("foreign-buffer", format!("handle {} at {:#x} is not a buffer of the pool {:x?}", i + 1, h.addr, self.addr_of)));
            }
            held.push((i + 1, h.addr, id));
        }
        for a in 0..held.len() {
            for b in a + 1..held.len() {
                let (x0, x1) = (held[a].1, held[a].1 + bl);
                let (y0, y1) = (held[b].1, held[b].1 + bl);
                if x0 < y1 && y0 < x1 {
                    errs.push(("alias", format!("handles {} and {} overlap: {:#x} / {:#x} (len {bl})", held[a].0, held[b].0, x0, y0)));
                }
            }
        }
        let o = self.observe();
        if let Some(o) = &o {
            for (h, addr, id) in &held {
                if let Some(id) = id {
                    if o.provided.iter().any(|p| *p as usize == *id) {
                        errs.push(("os-sees-held-buffer", format!("buffer {id} is held by handle {h} and visible to the kernel / in the free list {:?}", o.provided)));
                    }
                    if let Some(Some(_)) = o.slots.get(*id) {
                        errs.push(("held-buffer-in-slot", format!("buffer {id} is held by handle {h} but its slot is Some")));
                    }
                }
                for (bid, eaddr, elen) in &o.entries {
                    let (y0, y1) = (*eaddr, *eaddr + *elen as usize);
                    if *addr < y1 && y0 < *addr + bl {
                        errs.push(("os-sees-held-buffer", format!("ring entry bid {bid} {y0:#x}+{elen} overlaps handle {h} at {addr:#x}")));
                    }
                }
            }
            let mut seen = std::collections::BTreeSet::new();
            for p in &o.provided {
                if !seen.insert(*p) {
                    errs.push(("provided-twice", format!("buffer {p} twice in {:?}", o.provided)));
                }
                if *p as usize >= self.n {
                    errs.push(("ring-entry", format!("unknown buffer id {p} provided")));
                }
            }
            for (bid, eaddr, elen) in &o.entries {
                if self.addr_of.get(*bid as usize) != Some(eaddr) || *elen as usize != bl {
                    errs.push(("ring-entry", format!("ring entry bid {bid} points at {eaddr:#x}+{elen}, buffer is at {:x?}+{bl}", self.addr_of.get(*bid as usize))));
                }
            }
            if o.slots.len() != self.n {
                errs.push(("slot-table", format!("{} slots, pool has {}", o.slots.len(), self.n)));
            }
        }
        for (w, d) in errs {
            self.contract(w, d);
        }
        // model comparison
        if let (true, Some(x)) = (self.exact, x) {
            if x["alive"].as_bool() != Some(self.be.alive()) {
                self.mismatch("alive", format!("model alive={} real {}", x["alive"], self.be.alive()));
                return;
            }
            let mh: Vec<u64> = x["hand"].as_array().map(|a| a.iter().map(|v| v.as_u64().unwrap()).collect()).unwrap_or_default();
            let rh: Vec<u64> = (0..mh.len())
                .map(|i| match self.hands.get(i).and_then(|h| h.as_ref()) {
                    Some(h) => self.addr_of.iter().position(|a| *a == h.addr).map(|p| p as u64).unwrap_or(999),
                    None => self.n as u64,
                })
                .collect();
            if mh != rh {
                self.mismatch("handles", format!("model hand={mh:?} real {rh:?}"));
                return;
            }
            if !self.ops_match(x) {
                let real: Vec<(String, &str, usize)> = x["st"].as_object().unwrap().keys().map(|o| (o.clone(), self.st_real(o), self.q_real(o))).collect();
                self.mismatch("op-state", format!("model st={} q={} real {:?}", x["st"], x["q"], real));
                return;
            }
            if let Some(o) = &o {
                let ms: Vec<u64> = x["slot"].as_array().unwrap().iter().map(|v| v.as_u64().unwrap()).collect();
                let rs: Vec<u64> = o.slots.iter().map(|s| s.is_some() as u64).collect();
                if ms != rs {
                    self.mismatch("slots", format!("model slot={ms:?} real {rs:?}"));
                    return;
                }
                let mp: Vec<u64> = x["prov"].as_array().unwrap().iter().map(|v| v.as_u64().unwrap()).collect();
                let rp: Vec<u64> = o.provided.iter().map(|v| *v as u64).collect();
                if mp != rp {
                    self.mismatch("provided", format!("model provided={mp:?} real {rp:?} (head {} tail {})", o.head, o.tail));
                }
            }
        }
    }

    fn take_handle(&mut self, b: BufferRef, srcname: &str, want_slot: usize) {
        let data: Vec<u8> = b.to_vec();
        // an empty buffer (end of data on the fallback pool) carries no content but is still a pool buffer
        let addr = b.as_ptr() as usize;
        if !data.is_empty() {
            if let Some(s) = self.srcs.get_mut(srcname) {
                if let Err(e) = s.consume(&data) {
                    self.contract("content", format!("buffer handed out by op {srcname}: {e}"));
                }
            }
        }
        let held = Held {
            buf: b,
            addr,
            snap: data,
        };
        let slot = if want_slot >= 1 && want_slot <= self.hands.len() && self.hands[want_slot - 1].is_none() {
            want_slot - 1
        } else if let Some(i) = self.hands.iter().position(|h| h.is_none()) {
            i
        } else {
            self.hands.push(None);
            self.hands.len() - 1
        };
        self.hands[slot] = Some(held);
    }

    fn do_next(&mut self, o: &str, want_h: usize) -> String {
        let Some(mut r) = self.ops.remove(o) else {
            return "no-op".into();
        };
        let out = match r.op.as_mut() {
            Some(op) => op.next(&mut self.be, &self.pool),
            None => NextOut::Pending,
        };
        let (res, fin) = match out {
            NextOut::Pending => ("pending".to_string(), false),
            NextOut::Handle(b, fin) => {
                r.seen += (b.len() > 0) as usize;
                self.take_handle(b, o, want_h);
                ("handle".to_string(), fin)
            }
            NextOut::Nothing(fin) => ("end".to_string(), fin),
            NextOut::Err(e) => (errkind(&e), true),
        };
        if fin {
            // the op is over: what it consumed and the user never saw is gone from the source
            let unseen = r.consumed().saturating_sub(r.seen);
            if let Some(s) = self.srcs.get_mut(&r.src) {
                s.skip(unseen);
            }
            drop(r);
        } else {
            self.ops.insert(o.to_string(), r);
        }
        res
    }

    fn do_cancel(&mut self, o: &str) {
        if let Some(mut r) = self.ops.remove(o) {
            if let Some(op) = r.op.take() {
                op.cancel(&mut self.be);
            }
            r.cancelled = true;
            self.zombies.push(r);
            self.reap();
        }
    }

    fn do_submit(&mut self, o: &str, multi: bool) -> String {
        if self.ops.contains_key(o) {
            return "busy".into();
        }
        let (kind, fd, off) = {
            let s = &self.srcs[o];
            (s.kind, s.rfd.clone(), s.consumed)
        };
        let mark = rec::mark();
        match ops::submit(&mut self.be, &self.pool, kind, &fd, multi, off) {
            Err(e) => errkind(&e),
            Ok(op) => {
                let mut early = false;
                let op = ops::prime(op, &mut self.be, &self.pool, &mut early);
                if early && self.exact {
                    // rt leg only: a future cannot be submitted without being polled; when that first poll
                    // already ends the operation without a handle the rest runs under the contract oracle only
                    self.exact = false;
                    self.early_final += 1;
                }
                let ptr = rec::since(mark).iter().find(|e| e.site == "op.alloc").map(|e| e.a).unwrap_or(0);
                self.ops.insert(o.to_string(), OpRec {
                    op: Some(op),
                    ptr,
                    mark,
                    src: o.to_string(),
                    seen: 0,
                    cancelled: false,
                });
                "ok".into()
            }
        }
    }

    fn release(&mut self) {
        if self.cfg.leg == "rt" {
            // futures and streams keep the proactor alive: the runtime can only go after them
            let names: Vec<String> = self.ops.keys().cloned().collect();
            for o in names {
                if let Some(mut r) = self.ops.remove(&o) {
                    if let Some(op) = r.op.take() {
                        op.cancel(&mut self.be);
                    }
                }
            }
        }
        self.zombies.clear();
        self.release_mark = Some(rec::mark());
        match &mut self.be {
            Backend::Drv(d) => drop(d.take()),
            Backend::Rt(rt) => drop(rt.take()),
        }
    }

    /// after the program: everything dropped, then count the buffers
    fn teardown(&mut self) {
        self.act = "teardown".into();
        self.exact = false;
        let names: Vec<String> = self.ops.keys().cloned().collect();
        for o in names {
            self.do_cancel(&o);
        }
        if self.be.alive() {
            self.settle(None);
        }
        self.check(None);
        for h in self.hands.iter_mut() {
            h.take();
        }
        if self.be.alive() {
            self.act = "conservation".into();
            if let Some(o) = self.observe() {
                let some = o.slots.iter().filter(|s| s.is_some()).count();
                let mut ids: Vec<u16> = o.provided.clone();
                ids.sort();
                ids.dedup();
                if o.provided.len() != self.n || ids.len() != self.n || some != self.n {
                    self.contract("pool-shrunk", format!(
                        "everything dropped: {} of {} buffers visible to the kernel / in the free list {:?}, {} of {} slots filled",
                        o.provided.len(), self.n, o.provided, some, self.n));
                }
            }
            self.probe();
            for h in self.hands.iter_mut() {
                h.take();
            }
            self.ops.clear();
            self.release();
        }
        self.ops.clear();
        self.hands.clear();
        self.act = "after-release".into();
        // an operation that was running on a pool thread when the proactor went away ends on its own
        let t0 = Instant::now();
        while alloc::stats().0 > 0 && t0.elapsed() < self.cfg.wd {
            std::thread::sleep(Duration::from_millis(2));
            self.tick();
        }
        let (live, allocs, frees, dbl) = alloc::stats();
        if dbl > 0 {
            self.contract("double-free", format!("{dbl} buffers deallocated twice ({allocs} allocated, {frees} freed)"));
        }
        let evs = rec::since(0);
        self.foreign_frees += evs.iter().filter(|e| e.site == "op.free" && !e.main).count() as u64;
        if live > 0 {
            // who still holds it? operations that were allocated and never freed, and what their thread-pool job did
            let rm = self.release_mark.unwrap_or(evs.len());
            let mut holder = "unknown";
            let mut detail = vec![];
            let allocs_: Vec<(usize, u64)> = evs.iter().enumerate().filter(|(_, e)| e.site == "op.alloc").map(|(i, e)| (i, e.a)).collect();
            for (i, p) in allocs_ {
                let freed = evs[i..].iter().any(|e| e.site == "op.free" && e.a == p);
                if freed {
                    continue;
                }
                let disp = evs[i..].iter().any(|e| e.site == "blocking.dispatch" && e.a == p);
                let delivered = evs[i..].iter().any(|e| e.site == "op.result" && e.a == p);
                if disp && !delivered {
                    // the job's completion entry never reached the driver: with the driver gone the entry (a
                    // reference to the op) is dropped by the pool thread
                    holder = "op-dropped-off-driver-thread";
                    detail.push(format!(
                        "op {p:#x} ran on the thread pool, its completion entry never reached the driver (proactor dropped at event {rm}), the op was never freed"));
                } else {
                    if holder == "unknown" {
                        holder = "op-never-freed";
                    }
                    detail.push(format!("op {p:#x}: never freed (thread pool: {disp}, result delivered: {delivered})"));
                }
            }
            if holder == "op-dropped-off-driver-thread" {
                RACE_FOUND.store(true, Ordering::Relaxed);
            }
            let mut sig = self.sig("leak-after-release");
            sig["holder"] = json!(holder);
            self.problems.borrow_mut().push(("contract".into(), sig, format!(
                "{live} of {allocs} buffers never deallocated within {:?} after the pool and every holder were dropped; {}",
                self.cfg.wd, detail.join("; ")), self.step));
        }
    }

    /// N managed reads must each obtain a buffer, the N+1st must report exhaustion as an error
    fn probe(&mut self) {
        self.salt += 1;
        let mut s = match Source::new(SrcKind::Pipe, self.cfg.bl, 900 + self.salt, &self.cfg.scratch) {
            Ok(s) => s,
            Err(_) => return,
        };
        let _ = s.feed(self.n + 1);
        self.srcs.insert("probe".into(), s);
        self.hands = (0..self.n + 1).map(|_| None).collect();
        for i in 0..=self.n {
            let last = i == self.n;
            let mut out = self.do_submit("probe", false);
            if out == "ok" {
                // wait for the answer
                let t0 = Instant::now();
                loop {
                    self.poll_once(if t0.elapsed().as_millis() < 5 { 0 } else { 2 });
                    if self.ops.get("probe").map(|r| r.done()).unwrap_or(true) {
                        break;
                    }
                    if t0.elapsed() > self.cfg.wd {
                        break;
                    }
                }
                out = self.do_next("probe", i + 1);
                if out == "pending" {
                    self.hang(if last { "exhaustion-hang" } else { "probe-read-hang" }, format!(
                        "managed read {} of {} after the program: no result within {:?} (data is readable)", i + 1, self.n, self.cfg.wd));
                    self.do_cancel("probe");
                    return;
                }
            }
            if !last && out != "handle" {
                self.contract("pool-shrunk", format!(
                    "after the program, with everything dropped, managed read {} of {} got `{out}` instead of a buffer", i + 1, self.n));
                break;
            }
            if last && out == "handle" {
                self.contract("pool-grew", format!("after the program {} managed reads obtained a buffer from a pool of {}", self.n + 1, self.n));
            } else if last && out != "exhausted" {
                self.contract("exhaustion-not-reported", format!("read {} with all {} buffers held answered `{out}`, expected a ResourceBusy error", self.n + 1, self.n));
            }
            self.check(None);
        }
        self.do_cancel("probe");
        self.settle(None);
    }
}

fn run_case(cfg: &Cfg, case: &Value, idx: usize, beat: &AtomicU64, problems: &std::cell::RefCell<Vec<(String, Value, String, usize)>>) -> (u64, u64, u64) {
    let kind = case["kind"].as_str().unwrap_or("ring").to_string();
    let n = case["n"].as_u64().unwrap_or(2) as usize;
    let maxh = case["maxh"].as_u64().unwrap_or(n as u64 + 1) as usize;
    let files: Vec<String> = case["files"].as_array().map(|a| a.iter().map(|v| v.as_str().unwrap().to_string()).collect()).unwrap_or_default();
    let steps = case["steps"].as_array().cloned().unwrap_or_default();
    rec::clear();
    alloc::reset();
    // a request that is not a power of two is rounded up by BufferPoolRoot::new
    let req = if n == 4 && idx % 2 == 1 { 3 } else { n };
    let mut pb = ProactorBuilder::new();
    pb.driver_type(if kind == "ring" { DriverType::IoUring } else { DriverType::Poll })
        .buffer_pool_size(NonZeroU16::new(req as u16).unwrap())
        .buffer_pool_buffer_len(cfg.bl)
        .buffer_pool_allocator::<TrackAlloc>();
    let (be, pool) = if cfg.leg == "rt" {
        let rt = RuntimeBuilder::new().with_proactor(pb).build().expect("runtime");
        let pool = rt.buffer_pool().expect("pool");
        (Backend::Rt(Some(rt)), pool)
    } else {
        let mut d = pb.build().expect("proactor");
        let pool = d.buffer_pool().expect("pool");
        (Backend::Drv(Some(d)), pool)
    };
    let mut run = Run {
        cfg,
        kind: kind.clone(),
        n,
        be,
        pool,
        srcs: BTreeMap::new(),
        ops: BTreeMap::new(),
        zombies: vec![],
        hands: (0..maxh).map(|_| None).collect(),
        addr_of: vec![],
        exact: !cfg.free,
        problems,
        step: 0,
        act: "init".into(),
        beat,
        obs_ok: 0,
        early_final: 0,
        release_mark: None,
        foreign_frees: 0,
        salt: idx as u64 * 16,
    };
    let mut nsteps = 0u64;
    match run.observe() {
        Some(o) => {
            run.addr_of = o.slots.iter().map(|s| s.unwrap_or(0)).collect();
            if o.slots.len() != n || o.slots.iter().any(|s| s.is_none()) {
                run.contract("slot-table", format!("fresh pool of {req} buffers has slots {:?}", o.slots));
            }
        }
        None => {
            run.exact = false;
        }
    }
    // sources: one per op slot named in the program
    let mut names: Vec<String> = vec![];
    if let Some(st) = case["final"]["st"].as_object() {
        names = st.keys().cloned().collect();
    }
    for (i, o) in names.iter().enumerate() {
        let k = if files.contains(o) { SrcKind::File } else { cfg.src };
        match Source::new(k, cfg.bl, run.salt + i as u64 + 1, &cfg.scratch) {
            Ok(s) => {
                run.srcs.insert(o.clone(), s);
            }
            Err(e) => panic!("harness: cannot create source {k:?}: {e}"),
        }
    }
    for (i, st) in steps.iter().enumerate() {
        run.step = i;
        let a = st["a"].as_str().unwrap_or("");
        let o = st["o"].as_str().unwrap_or("").to_string();
        let h = st["h"].as_u64().unwrap_or(0) as usize;
        let k = st["k"].as_u64().unwrap_or(0) as usize;
        let want = st["r"].as_str().unwrap_or("ok");
        run.act = a.to_string();
        // state expected before this command (= after the previous one has settled)
        if i == 0 {
            run.check(Some(&st["x"]));
        }
        nsteps += 1;
        let mut got = "ok".to_string();
        match a {
            "submit" => {
                got = run.do_submit(&o, k == 2);
                if !run.exact {
                    // free mode: hand the request to the kernel (zero timeout), wait for nothing
                    run.poll_once(0);
                }
                if got == "ok" && want == "exhausted" {
                    // the model's constructor failed; keep going with the real op
                }
            }
            "feed" => {
                if let Some(s) = run.srcs.get_mut(&o) {
                    if let Err(e) = s.feed(k) {
                        run.mismatch("feed-failed", format!("{e}"));
                    }
                }
            }
            "close" => {
                if let Some(s) = run.srcs.get_mut(&o) {
                    s.close();
                }
            }
            "next" => {
                if !run.exact {
                    run.poll_once(0);
                    run.reap();
                }
                got = run.do_next(&o, h);
                if !run.exact && got == "pending" {
                    got = want.to_string();
                }
            }
            "drop" => {
                if h >= 1 && h <= run.hands.len() {
                    run.hands[h - 1].take();
                }
            }
            "cancel" => {
                run.do_cancel(&o);
                if !run.exact {
                    // free mode still waits for the cancelled op to be gone before its source is reused
                    run.settle(None);
                }
            }
            "keydrop" => {
                if let Some(mut r) = run.ops.remove(&o) {
                    if let Some(op) = r.op.take() {
                        op.cancel(&mut run.be);
                    }
                }
            }
            "release" => run.release(),
            // steering: a thread-pool job (file read on the polling driver) is held right after it finished
            // (hook blocking.done, before its completion entry is sent) until the proactor is gone.
            // k = 0: the user's key is dropped first, then the job goes on (its entry is dropped on the pool thread)
            // k = 1: both drop their reference to the op at the same moment
            "race_release" if k == 1 && RACE_FOUND.load(Ordering::Relaxed) => {}
            "race_release" => {
                let before = rec::parked();
                // k = 2: no steering at all; also once the gate had to open by itself (the driver's drop waits
                // for its thread-pool jobs): holding is pointless then
                let gated = k != 2 && rec::gate_timeouts() == 0;
                rec::hold(gated);
                let sub = run.do_submit(&o, false);
                let t0 = Instant::now();
                while gated && sub == "ok" && rec::parked() == before && t0.elapsed() < run.cfg.wd {
                    std::thread::sleep(Duration::from_micros(200));
                    run.tick();
                }
                if gated && rec::parked() == before {
                    rec::hold(false);
                    run.mismatch("steering", "the operation did not go to the thread pool".into());
                } else {
                    let key = run.ops.remove(&o);
                    run.zombies.clear();
                    run.release_mark = Some(rec::mark());
                    match &mut run.be {
                        Backend::Drv(d) => drop(d.take()),
                        Backend::Rt(rt) => drop(rt.take()),
                    }
                    if k == 0 {
                        drop(key);
                        rec::hold(false);
                    } else {
                        rec::hold(false);
                        drop(key);
                    }
                }
            }
            // control: the documented misuse (BufferPool::take called directly on a buffer the kernel owns);
            // the contract oracle has to see the resulting double ownership
            "misuse_take" => {
                if let Ok(Some(b)) = run.pool.take(k as u16) {
                    run.take_handle(b, "", h);
                }
            }
            // many recycles of the same buffers: the u16 ring tail wraps, the free list rotates
            "soak" => {
                for it in 0..k {
                    if let Some(s) = run.srcs.get_mut(&o) {
                        let _ = s.feed(1);
                    }
                    if run.do_submit(&o, false) != "ok" {
                        run.contract("pool-shrunk", format!("recycle {it}: no buffer for a managed read with nothing held"));
                        break;
                    }
                    let t0 = Instant::now();
                    while !run.ops.get(&o).map(|r| r.done()).unwrap_or(true) && t0.elapsed() < run.cfg.wd {
                        run.poll_once(if t0.elapsed().as_millis() < 5 { 0 } else { 2 });
                    }
                    let out = run.do_next(&o, 1);
                    if out != "handle" {
                        if out == "pending" {
                            run.hang("no-answer", format!("recycle {it}: managed read not answered"));
                            run.do_cancel(&o);
                        } else {
                            run.contract("pool-shrunk", format!("recycle {it}: managed read with nothing held answered `{out}`"));
                        }
                        break;
                    }
                    if it % 4096 == 0 || it + 8 > k {
                        run.check(None);
                    }
                    run.hands[0].take();
                    if it % 512 == 0 {
                        rec::clear();
                    }
                }
            }
            _ => {}
        }
        if run.exact && got != want {
            run.mismatch("outcome", format!("{a} {o}: model says `{want}`, real `{got}`"));
        }
        let target = if i + 1 < steps.len() { &steps[i + 1]["x"] } else { &case["final"] };
        if run.exact {
            if run.be.alive() {
                run.settle(Some(target));
            }
            run.check(Some(target));
        } else {
            run.check(None);
        }
    }
    run.teardown();
    let obs_ok = run.obs_ok;
    (nsteps, obs_ok, run.foreign_frees)
}

fn main() {
    let args: Vec<String> = std::env::args().collect();
    let mut cfg = Cfg {
        leg: "drv".into(),
        src: SrcKind::Pipe,
        free: false,
        bl: 4,
        wd: Duration::from_millis(std::env::var("HBP_WATCHDOG_MS").ok().and_then(|s| s.parse().ok()).unwrap_or(20_000)),
        scratch: std::env::temp_dir(),
    };
    let mut i = 2;
    while i < args.len() {
        match args[i].as_str() {
            "--leg" => {
                cfg.leg = args[i + 1].clone();
                i += 1;
            }
            "--src" => {
                cfg.src = SrcKind::parse(&args[i + 1]).expect("bad --src");
                i += 1;
            }
            "--bl" => {
                cfg.bl = args[i + 1].parse().expect("bad --bl");
                i += 1;
            }
            "--scratch" => {
                cfg.scratch = args[i + 1].clone().into();
                i += 1;
            }
            "--free" => cfg.free = true,
            _ => panic!("unknown argument {}", args[i]),
        }
        i += 1;
    }
    rec::install();
    hcore::out::silence_panics();
    let beat = Arc::new(AtomicU64::new(0));
    let cur = Arc::new(std::sync::Mutex::new(Value::Null));
    // last-resort watchdog: the code under test blocks inside a call
    {
        let beat = beat.clone();
        let cur = cur.clone();
        let cfg2 = cfg.clone();
        std::thread::spawn(move || {
            let mut last = beat.load(Ordering::Relaxed);
            let mut since = Instant::now();
            loop {
                std::thread::sleep(Duration::from_millis(500));
                let b = beat.load(Ordering::Relaxed);
                if b != last {
                    last = b;
                    since = Instant::now();
                } else if since.elapsed() > cfg2.wd * 6 {
                    let case = cur.lock().unwrap_or_else(|e| e.into_inner()).clone();
                    let line = json!({"type": "hang", "sig": {"what": "call-never-returns", "leg": cfg2.leg, "kind": case["kind"], "act": "?",
                        "mode": if cfg2.free {"free"} else {"exact"}},
                        "desc": format!("no progress for {:?} inside a call of the code under test", cfg2.wd * 6), "case": case, "step": 0});
                    println!("{line}");
                    println!("{}", json!({"type": "summary", "cases": 0, "steps": 0, "aborted": true,
                        "problems": [{"type": "hang", "sig": line["sig"], "count": 1}]}));
                    std::process::exit(0);
                }
            }
        });
    }
    let mut rep = Report::new();
    let mut obs_total = 0u64;
    let mut foreign_total = 0u64;
    let mut skipped = 0u64;
    for (idx, case) in cases_from_arg().enumerate() {
        if !cfg.src.can_close()
            && case["steps"].as_array().map(|s| s.iter().any(|st| st["a"] == "close")).unwrap_or(false)
        {
            skipped += 1;
            continue;
        }
        *cur.lock().unwrap_or_else(|e| e.into_inner()) = case.clone();
        beat.fetch_add(1, Ordering::Relaxed);
        // lets the caller name the program that was running if the process dies (heap corruption, abort)
        println!("{}", json!({"type": "case", "i": idx}));
        let problems = std::cell::RefCell::new(vec![]);
        let r = catch_unwind(AssertUnwindSafe(|| run_case(&cfg, &case, idx, &beat, &problems)));
        rep.cases += 1;
        for (ty, sig, desc, step) in problems.into_inner() {
            rep.problem(&ty, sig, desc, &case, step);
        }
        match r {
            Ok((nsteps, obs_ok, ff)) => {
                rep.steps += nsteps;
                obs_total += obs_ok;
                foreign_total += ff;
            }
            Err(e) => {
                let msg = panic_msg(e);
                let site = msg.split(':').next().unwrap_or("").chars().take(60).collect::<String>();
                rep.problem(
                    "panic",
                    json!({"what": "panic", "leg": cfg.leg, "kind": case["kind"], "msg": site,
                           "mode": if cfg.free {"free"} else {"exact"}}),
                    msg,
                    &case,
                    0,
                );
            }
        }
    }
    rep.set("observations", json!(obs_total));
    rep.set("skipped", json!(skipped));
    rep.set("foreign_thread_frees", json!(foreign_total));
    rep.set("steering_gate_timeouts", json!(rec::gate_timeouts()));
    rep.set("leg", json!(cfg.leg));
    rep.set("src", json!(cfg.src.name()));
    rep.set("bl", json!(cfg.bl));
    rep.set("free", json!(cfg.free));
    rep.finish();
}
