//! Buffer allocator that keeps the set of live pool buffers, so that the harness can observe on the real
//! code whether every buffer is deallocated exactly once after the pool is released (and never twice).
use std::{
    collections::HashMap,
    mem::MaybeUninit,
    ptr::NonNull,
    sync::Mutex,
};

use compio_driver::BufferAllocator;

#[derive(Default)]
pub struct AllocState {
    /// address -> (length, epoch of the case that allocated it)
    pub live: HashMap<usize, (u32, u64)>,
    pub epoch: u64,
    pub allocs: u64,
    pub frees: u64,
    pub double_frees: u64,
}

static STATE: Mutex<Option<AllocState>> = Mutex::new(None);

fn with<R>(f: impl FnOnce(&mut AllocState) -> R) -> R {
    let mut g = STATE.lock().unwrap_or_else(|e| e.into_inner());
    f(g.get_or_insert_with(AllocState::default))
}

/// Start a new case. Buffers of earlier cases that are still alive (an operation that finishes late on a
/// pool thread) stay known, so that their late deallocation is not mistaken for a double free.
pub fn reset() {
    with(|s| {
        s.epoch += 1;
        s.allocs = 0;
        s.frees = 0;
        s.double_frees = 0;
    });
}

/// (live buffers, allocations, frees, double frees)
pub fn stats() -> (usize, u64, u64, u64) {
    with(|s| (s.live.values().filter(|(_, e)| *e == s.epoch).count(), s.allocs, s.frees, s.double_frees))
}

pub fn is_live(addr: usize) -> bool {
    with(|s| s.live.contains_key(&addr))
}

pub struct TrackAlloc;

impl BufferAllocator for TrackAlloc {
    fn allocate(len: u32) -> NonNull<MaybeUninit<u8>> {
        // page-separated, zeroed allocations would hide nothing here; plain boxes like the default allocator
        let ptr = Box::into_raw(vec![0u8; len.max(1) as usize].into_boxed_slice()) as *mut MaybeUninit<u8>;
        with(|s| {
            s.allocs += 1;
            let e = s.epoch;
            s.live.insert(ptr as usize, (len, e));
        });
        unsafe { NonNull::new_unchecked(ptr) }
    }

    unsafe fn deallocate(ptr: NonNull<MaybeUninit<u8>>, len: u32) {
        let known = with(|s| {
            if s.live.remove(&(ptr.as_ptr() as usize)).is_some() {
                s.frees += 1;
                true
            } else {
                s.double_frees += 1;
                false
            }
        });
        if known {
            let p = std::ptr::slice_from_raw_parts_mut(ptr.as_ptr() as *mut u8, len.max(1) as usize);
            drop(unsafe { Box::from_raw(p) });
        }
    }
}
