//! What a task is blocked on, read from /proc (state letter + current system call).
use std::fs;

#[derive(Clone, Copy, Debug, PartialEq)]
pub struct TaskInfo {
    /// 'R','S','D','Z',... or '?' when the task does not exist
    pub state: char,
    /// system call number (-1 = not in a system call / running / unknown)
    pub nr: i64,
    pub a0: u64,
}

fn parse(stat: Option<String>, syscall: Option<String>) -> TaskInfo {
    let state = stat
        .as_deref()
        .and_then(|s| s.rfind(')').map(|i| &s[i + 1..]))
        .and_then(|r| r.trim_start().chars().next())
        .unwrap_or('?');
    let (mut nr, mut a0) = (-1i64, 0u64);
    if let Some(sc) = syscall {
        let mut it = sc.split_whitespace();
        if let Some(first) = it.next() {
            if let Ok(n) = first.parse::<i64>() {
                nr = n;
                if let Some(x) = it.next() {
                    a0 = u64::from_str_radix(x.trim_start_matches("0x"), 16).unwrap_or(u64::MAX);
                }
            }
        }
    }
    TaskInfo { state, nr, a0 }
}

pub fn process(pid: i32) -> TaskInfo {
    parse(
        fs::read_to_string(format!("/proc/{pid}/stat")).ok(),
        fs::read_to_string(format!("/proc/{pid}/syscall")).ok(),
    )
}

pub fn thread(tid: i32) -> TaskInfo {
    parse(
        fs::read_to_string(format!("/proc/self/task/{tid}/stat")).ok(),
        fs::read_to_string(format!("/proc/self/task/{tid}/syscall")).ok(),
    )
}

impl TaskInfo {
    pub fn sleeping_in(&self, nr: i64) -> bool {
        self.state == 'S' && self.nr == nr
    }

    /// blocked in read(0, ..)
    pub fn blocked_read_stdin(&self) -> bool {
        self.sleeping_in(libc::SYS_read) && self.a0 == 0
    }

    /// blocked in write(1|2, ..)
    pub fn blocked_write_out(&self) -> bool {
        self.sleeping_in(libc::SYS_write) && (self.a0 == 1 || self.a0 == 2)
    }

    pub fn zombie_or_gone(&self) -> bool {
        self.state == 'Z' || self.state == '?' || self.state == 'X'
    }
}

/// Does this process hold a pidfd that refers to `pid`?
pub fn has_pidfd_for(pid: i32) -> bool {
    let Ok(rd) = fs::read_dir("/proc/self/fdinfo") else {
        return false;
    };
    let needle = format!("Pid:\t{pid}");
    for e in rd.flatten() {
        if let Ok(s) = fs::read_to_string(e.path()) {
            if s.lines().any(|l| l.trim_end() == needle) {
                return true;
            }
        }
    }
    false
}

pub fn gettid() -> i32 {
    unsafe { libc::syscall(libc::SYS_gettid) as i32 }
}
