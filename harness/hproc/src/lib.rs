//! harness package hproc
