//! harness package hproc - C20: child processes (complete stdio, real exit status).
//!
//! `replay::main()` is the body of the two replay binaries (`replay_process` = default build of
//! compio-process, wait on the blocking pool; `replay_process_pidfd` = feature `linux_pidfd`,
//! nightly, wait = PollOnce on the pidfd).  The same executable is also the helper child
//! (`<exe> --child ...`), see `child`.
pub mod child;
pub mod pattern;
pub mod procfs;
pub mod replay;
