//! Byte patterns in which position, stream and duplication are visible.
//!
//! Counter stream: the 32-bit word number `w` of a stream is stored big endian as `w ^ salt`;
//! the top byte of the salt identifies the stream (stdin / stdout / stderr).
//! Text stream: what `seq -w 0 9999999` prints (8 bytes per line), optionally mapped 0-9 -> a-j.

pub const SALT_IN: u32 = 0x1100_0000;
pub const SALT_OUT: u32 = 0x2200_0000;
pub const SALT_ERR: u32 = 0x3300_0000;

#[inline]
pub fn counter_byte(off: u64, salt: u32) -> u8 {
    let w = ((off / 4) as u32) ^ salt;
    w.to_be_bytes()[(off % 4) as usize]
}

pub fn counter_fill(buf: &mut [u8], start: u64, salt: u32) {
    for (i, b) in buf.iter_mut().enumerate() {
        *b = counter_byte(start + i as u64, salt);
    }
}

pub fn counter_vec(start: u64, len: usize, salt: u32) -> Vec<u8> {
    let mut v = vec![0u8; len];
    counter_fill(&mut v, start, salt);
    v
}

#[inline]
pub fn seq_byte(off: u64, letters: bool) -> u8 {
    let line = off / 8;
    let col = off % 8;
    if col == 7 {
        return b'\n';
    }
    // 7 digits, most significant first
    let mut div = 1u64;
    for _ in 0..(6 - col) {
        div *= 10;
    }
    let d = ((line / div) % 10) as u8;
    if letters { b'a' + d } else { b'0' + d }
}

#[derive(Clone, Copy, Debug, PartialEq)]
pub enum Stream {
    Counter(u32),
    Seq { letters: bool },
    /// nothing may appear on this stream
    Empty,
}

impl Stream {
    #[inline]
    pub fn byte(&self, off: u64) -> u8 {
        match self {
            Stream::Counter(s) => counter_byte(off, *s),
            Stream::Seq { letters } => seq_byte(off, *letters),
            Stream::Empty => 0,
        }
    }

    /// First offset at which `data` differs from the stream (compared from stream offset 0).
    pub fn first_bad(&self, data: &[u8]) -> Option<usize> {
        if let Stream::Empty = self {
            return if data.is_empty() { None } else { Some(0) };
        }
        data.iter()
            .enumerate()
            .find(|(i, b)| **b != self.byte(*i as u64))
            .map(|(i, _)| i)
    }
}

/// POSIX cksum (CRC-32/CKSUM over the data followed by its length).
pub fn posix_cksum(data: &[u8]) -> u32 {
    fn step(mut crc: u32, byte: u8) -> u32 {
        crc ^= (byte as u32) << 24;
        for _ in 0..8 {
            crc = if crc & 0x8000_0000 != 0 {
                (crc << 1) ^ 0x04C1_1DB7
            } else {
                crc << 1
            };
        }
        crc
    }
    let mut crc = 0u32;
    for b in data {
        crc = step(crc, *b);
    }
    let mut n = data.len() as u64;
    while n != 0 {
        crc = step(crc, (n & 0xff) as u8);
        n >>= 8;
    }
    !crc
}

#[cfg(test)]
mod tests {
    use super::*;

    #[test]
    fn seq() {
        let s: Vec<u8> = (0..24).map(|i| seq_byte(i, false)).collect();
        assert_eq!(&s, b"0000000\n0000001\n0000002\n");
        let s: Vec<u8> = (80..88).map(|i| seq_byte(i, true)).collect();
        assert_eq!(&s, b"aaaaaba\n");
    }

    #[test]
    fn cksum() {
        assert_eq!(posix_cksum(b""), 4294967295);
        assert_eq!(posix_cksum(b"123456789"), 930766865);
    }
}
