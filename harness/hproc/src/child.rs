//! The helper child: `<exe> --child <mode> ...`.  Plain blocking std I/O, one process, so that
//! the harness can see in /proc what it is blocked on.
//!
//!   echo <bufbytes> <status>                         read(0) -> write_all(1), at EOF finish
//!   consume <bufbytes> <status>                      read stdin to EOF, check the stdin pattern,
//!                                                    print "C20SUM len=<n> bad=<off|-1>\n", finish
//!   produce <nout> <nerr> <gate> <status> <corrupt>  counter stream to stdout, then to stderr,
//!                                                    then (gate=1) wait for EOF on stdin, finish
//!   exit <gate> <status>                             (gate=1) wait for EOF on stdin, finish
//!   gated_produce <nout> <status>                    wait for EOF on stdin, then counter stream to stdout
//! status: c<N> = exit(N), s<N> = kill(self, N)
use std::io::{Read, Write};

use crate::pattern::{SALT_ERR, SALT_IN, SALT_OUT, counter_byte, counter_fill};

fn finish(status: &str) -> ! {
    let (k, n) = status.split_at(1);
    let n: i32 = n.parse().expect("status number");
    if k == "s" {
        unsafe {
            libc::signal(n, libc::SIG_DFL);
            libc::kill(libc::getpid(), n);
        }
        // SIGTERM / SIGKILL are delivered before this returns; be safe
        loop {
            std::thread::sleep(std::time::Duration::from_secs(1));
        }
    }
    std::process::exit(n)
}

fn wait_eof() {
    let mut b = [0u8; 4096];
    let mut i = std::io::stdin().lock();
    loop {
        match i.read(&mut b) {
            Ok(0) => break,
            Ok(_) => {}
            Err(e) if e.kind() == std::io::ErrorKind::Interrupted => {}
            Err(_) => std::process::exit(97),
        }
    }
}

fn write_stream(fd: i32, total: u64, salt: u32, corrupt: bool) {
    let mut f: Box<dyn Write> = if fd == 1 {
        Box::new(std::io::stdout().lock())
    } else {
        Box::new(std::io::stderr().lock())
    };
    let mut buf = vec![0u8; 32768];
    let mut off = 0u64;
    while off < total {
        let n = ((total - off) as usize).min(buf.len());
        counter_fill(&mut buf[..n], off, salt);
        if corrupt && off == 0 && n >= 8 {
            // duplicate the first word over the second one
            buf.copy_within(0..4, 4);
        }
        if f.write_all(&buf[..n]).is_err() {
            std::process::exit(98);
        }
        off += n as u64;
    }
    let _ = f.flush();
}

pub fn main(args: &[String]) -> ! {
    let mode = args[0].as_str();
    match mode {
        "echo" => {
            let bufsz: usize = args[1].parse().unwrap();
            let mut buf = vec![0u8; bufsz];
            let mut i = std::io::stdin().lock();
            let mut o = std::io::stdout().lock();
            loop {
                match i.read(&mut buf) {
                    Ok(0) => break,
                    Ok(n) => {
                        if o.write_all(&buf[..n]).is_err() {
                            std::process::exit(98);
                        }
                        let _ = o.flush();
                    }
                    Err(e) if e.kind() == std::io::ErrorKind::Interrupted => {}
                    Err(_) => std::process::exit(97),
                }
            }
            finish(&args[2])
        }
        "consume" => {
            let bufsz: usize = args[1].parse().unwrap();
            let mut buf = vec![0u8; bufsz];
            let mut i = std::io::stdin().lock();
            let mut len = 0u64;
            let mut bad: i64 = -1;
            loop {
                match i.read(&mut buf) {
                    Ok(0) => break,
                    Ok(n) => {
                        if bad < 0 {
                            for (k, b) in buf[..n].iter().enumerate() {
                                if *b != counter_byte(len + k as u64, SALT_IN) {
                                    bad = (len + k as u64) as i64;
                                    break;
                                }
                            }
                        }
                        len += n as u64;
                    }
                    Err(e) if e.kind() == std::io::ErrorKind::Interrupted => {}
                    Err(_) => std::process::exit(97),
                }
            }
            println!("C20SUM len={len} bad={bad}");
            let _ = std::io::stdout().flush();
            finish(&args[2])
        }
        "produce" => {
            let nout: u64 = args[1].parse().unwrap();
            let nerr: u64 = args[2].parse().unwrap();
            let gate = args[3] == "1";
            let corrupt = args.get(5).map(|s| s == "1").unwrap_or(false);
            write_stream(1, nout, SALT_OUT, corrupt);
            write_stream(2, nerr, SALT_ERR, false);
            if gate {
                wait_eof();
            }
            finish(&args[4])
        }
        "gated_produce" => {
            let nout: u64 = args[1].parse().unwrap();
            wait_eof();
            write_stream(1, nout, SALT_OUT, false);
            finish(&args[2])
        }
        "exit" => {
            if args[1] == "1" {
                wait_eof();
            }
            finish(&args[2])
        }
        _ => std::process::exit(96),
    }
}
