//! Replay of Gen_Process programs on the real compio-process with real child processes.
//!
//! Input: JSON lines, one case each:
//!   {"id":n, "prog":{kind,nin,nout,nerr,wchunk,rchunk,mode,hold,gate,pipein,take,status,driver,..},
//!    "block":32768, "bytes":{nin,nout,nerr,wchunk,rchunk}?, "helper":"own|cat|dd|cksum|sh",
//!    "wstyle":"all|loop", "corrupt":bool?, "expect":{"outcome":"complete|stuck|either", ...}}
//! The sizes of `prog` are in blocks; `bytes` overrides them with exact byte counts.
//! kind "pipeline" (not part of the model): `c20_child gated_produce | cat` through
//! `TryFrom<ChildStdout> for Stdio`.
//!
//! For every case a fresh runtime (driver as requested) runs the parent program on its own
//! thread; a monitor thread watches /proc and decides "stuck" without relying on timing:
//! the child sleeps in read(0)/write(1|2) and the runtime thread sleeps in its driver wait (or in
//! a blocking write(2) on the child's stdin) with no progress in between.  It then kills the
//! child so that the parent program unwinds, and the case is judged:
//!   contract  - the property's predicate on the real observation (content, order, status,
//!               wait timing, reaping, must-complete programs really complete)
//!   mismatch  - the model predicted something else while the contract holds (spec drift)
use std::{
    process::Stdio,
    sync::{
        Arc, Mutex,
        atomic::{AtomicBool, AtomicI32, AtomicU64, Ordering::SeqCst},
        mpsc,
    },
    time::{Duration, Instant},
};

use compio_buf::BufResult;
use compio_driver::{AsRawFd, DriverType, ProactorBuilder};
use compio_io::{AsyncRead, AsyncReadExt, AsyncWrite, AsyncWriteExt};
use compio_process::{Child, ChildStdin, Command};
use compio_runtime::RuntimeBuilder;
use hcore::out::Report;
use serde_json::{Value, json};

use crate::{
    pattern::{SALT_ERR, SALT_IN, SALT_OUT, Stream, counter_vec, posix_cksum},
    procfs,
};

pub const WAIT_IMPL: &str = if cfg!(feature = "pidfd") { "pidfd" } else { "blocking" };

const WATCHDOG: Duration = Duration::from_secs(25);
const UNWIND_GRACE: Duration = Duration::from_secs(8);
const SAMPLE: Duration = Duration::from_millis(4);
const STUCK_SAMPLES: u32 = 6;
const ZOMBIE_SAMPLES: u32 = 500;
const MAX_UNEXPECTED_HANGS: u32 = 4;

// ---------------------------------------------------------------------------------------------
// program
// ---------------------------------------------------------------------------------------------
#[derive(Clone, Debug)]
struct Prog {
    kind: String,
    mode: String,
    driver: String,
    status: String,
    hold: bool,
    gate: bool,
    pipein: bool,
    take: bool,
    nin: usize,
    nout: usize,
    nerr: usize,
    /// bytes per write_all piece, 0 = everything in one piece
    wchunk: usize,
    /// bytes per read, 0 = read_to_end
    rchunk: usize,
    block: usize,
    helper: String,
    wstyle: String,
    /// negative controls: the helper corrupts its stdout / ends with another status than `status`
    corrupt: bool,
    child_status: String,
}

fn parse_prog(case: &Value) -> Result<Prog, String> {
    let p = case.get("prog").ok_or("no prog")?;
    let s = |k: &str| -> Result<String, String> {
        p.get(k).and_then(|v| v.as_str()).map(|x| x.to_string()).ok_or(format!("prog.{k} missing"))
    };
    let b = |k: &str| p.get(k).and_then(|v| v.as_bool()).unwrap_or(false);
    let n = |k: &str| p.get(k).and_then(|v| v.as_u64()).unwrap_or(0) as usize;
    let block = case.get("block").and_then(|v| v.as_u64()).unwrap_or(32768) as usize;
    let bytes = case.get("bytes");
    let sz = |k: &str| -> usize {
        bytes
            .and_then(|x| x.get(k))
            .and_then(|v| v.as_u64())
            .map(|v| v as usize)
            .unwrap_or(n(k) * block)
    };
    Ok(Prog {
        kind: s("kind")?,
        mode: s("mode")?,
        driver: s("driver")?,
        status: s("status")?,
        hold: b("hold"),
        gate: b("gate"),
        pipein: b("pipein"),
        take: p.get("take").and_then(|v| v.as_bool()).unwrap_or(true),
        nin: sz("nin"),
        nout: sz("nout"),
        nerr: sz("nerr"),
        wchunk: sz("wchunk"),
        rchunk: sz("rchunk"),
        block,
        helper: case.get("helper").and_then(|v| v.as_str()).unwrap_or("own").to_string(),
        wstyle: case.get("wstyle").and_then(|v| v.as_str()).unwrap_or("all").to_string(),
        corrupt: case.get("corrupt").and_then(|v| v.as_bool()).unwrap_or(false),
        child_status: case.get("child_status").and_then(|v| v.as_str()).map(|x| x.to_string()).unwrap_or(s("status")?),
    })
}

impl Prog {
    fn needs_eof(&self) -> bool {
        self.kind == "echo" || self.kind == "consumer" || self.gate
    }

    fn stdin_piped(&self) -> bool {
        self.needs_eof() || self.pipein
    }

    fn held_stdin(&self) -> bool {
        self.stdin_piped() && !self.take
    }

    /// Programs that have to complete whatever the timing is (mirrors MustComplete of the spec,
    /// with the measured pipe size instead of K).
    fn must_complete(&self, pipe_sz: usize) -> bool {
        if self.held_stdin() && self.needs_eof() {
            return false;
        }
        let maxvol = self.nin.max(self.nout).max(self.nerr);
        self.mode == "conc" || (self.mode == "wwo" && self.nin <= pipe_sz) || maxvol <= pipe_sz
    }

    fn expected_status(&self) -> (Option<i32>, Option<i32>) {
        let (k, n) = self.status.split_at(1);
        let n: i32 = n.parse().unwrap_or(-1);
        if k == "c" { (Some(n), None) } else { (None, Some(n)) }
    }

    fn sig_base(&self) -> serde_json::Map<String, Value> {
        let mut m = serde_json::Map::new();
        m.insert("kind".into(), json!(self.kind));
        m.insert("mode".into(), json!(self.mode));
        m.insert("driver".into(), json!(self.driver));
        m.insert("wait_impl".into(), json!(WAIT_IMPL));
        m
    }
}

enum Expected {
    Stream(Stream, usize),
    Exact(Vec<u8>),
}

impl Expected {
    fn len(&self) -> usize {
        match self {
            Expected::Stream(_, n) => *n,
            Expected::Exact(v) => v.len(),
        }
    }

    /// None = `data` is a correct beginning of the expected stream
    fn first_bad(&self, data: &[u8]) -> Option<usize> {
        match self {
            Expected::Stream(s, n) => {
                let lim = data.len().min(*n);
                if let Some(i) = s.first_bad(&data[..lim]) {
                    return Some(i);
                }
                if data.len() > *n { Some(*n) } else { None }
            }
            Expected::Exact(v) => {
                let lim = data.len().min(v.len());
                if let Some(i) = (0..lim).find(|i| data[*i] != v[*i]) {
                    return Some(i);
                }
                if data.len() > v.len() { Some(v.len()) } else { None }
            }
        }
    }
}

fn expected_out(p: &Prog) -> Expected {
    match (p.kind.as_str(), p.helper.as_str()) {
        ("echo", _) => Expected::Stream(Stream::Counter(SALT_IN), p.nin),
        ("consumer", "cksum") => {
            let data = counter_vec(0, p.nin, SALT_IN);
            Expected::Exact(format!("{} {}\n", posix_cksum(&data), p.nin).into_bytes())
        }
        ("consumer", _) => Expected::Exact(format!("C20SUM len={} bad=-1\n", p.nin).into_bytes()),
        ("producer", "sh") => Expected::Stream(Stream::Seq { letters: false }, p.nout),
        ("producer", _) | ("pipeline", _) => Expected::Stream(Stream::Counter(SALT_OUT), p.nout),
        _ => Expected::Stream(Stream::Empty, 0),
    }
}

fn expected_err(p: &Prog) -> Expected {
    match (p.kind.as_str(), p.helper.as_str()) {
        ("producer", "sh") => Expected::Stream(Stream::Seq { letters: true }, p.nerr),
        ("producer", _) => Expected::Stream(Stream::Counter(SALT_ERR), p.nerr),
        _ => Expected::Stream(Stream::Empty, 0),
    }
}

fn sh_status(status: &str) -> String {
    let (k, n) = status.split_at(1);
    if k == "c" { format!("exit {n}") } else { format!("kill -{n} $$") }
}

/// the small helper binary next to this executable; this executable itself as fall-back
fn helper_exe() -> Result<(std::path::PathBuf, &'static [&'static str]), String> {
    let me = std::env::current_exe().map_err(|e| e.to_string())?;
    let small = me.with_file_name("c20_child");
    Ok(if small.exists() { (small, &[]) } else { (me, &["--child"]) })
}

fn build_command(p: &Prog) -> Result<Command, String> {
    let (exe, pre) = helper_exe()?;
    let gate = if p.gate { "1" } else { "0" };
    let mut cmd;
    match (p.kind.as_str(), p.helper.as_str()) {
        ("echo", "cat") => {
            cmd = Command::new("cat");
        }
        ("echo", "dd") => {
            cmd = Command::new("dd");
            cmd.arg(format!("bs={}", p.block)).arg("status=none");
        }
        ("echo", _) => {
            cmd = Command::new(&exe);
            cmd.args(pre).args(["echo", &p.block.to_string(), &p.child_status]);
        }
        ("consumer", "cksum") => {
            cmd = Command::new("cksum");
        }
        ("consumer", _) => {
            cmd = Command::new(&exe);
            cmd.args(pre).args(["consume", &p.block.to_string(), &p.child_status]);
        }
        ("producer", "sh") => {
            cmd = Command::new("sh");
            let script = format!(
                "seq -w 0 9999999 | head -c {}; seq -w 0 9999999 | head -c {} | tr 0-9 a-j 1>&2; {}{}",
                p.nout,
                p.nerr,
                if p.gate { "read x; " } else { "" },
                sh_status(&p.child_status)
            );
            cmd.arg("-c").arg(script);
        }
        ("producer", _) => {
            cmd = Command::new(&exe);
            cmd.args(pre).args([
                "produce",
                &p.nout.to_string(),
                &p.nerr.to_string(),
                gate,
                &p.child_status,
                if p.corrupt { "1" } else { "0" },
            ]);
        }
        ("exit" | "killed", "sh") => {
            cmd = Command::new("sh");
            let script = format!("{}{}", if p.gate { "read x; " } else { "" }, sh_status(&p.child_status));
            cmd.arg("-c").arg(script);
        }
        ("exit" | "killed", _) => {
            cmd = Command::new(&exe);
            cmd.args(pre).args(["exit", gate, &p.child_status]);
        }
        (k, h) => return Err(format!("unknown kind/helper {k}/{h}")),
    }
    cmd.process_group(0);
    if p.stdin_piped() {
        cmd.stdin(Stdio::piped()).map_err(|_| "stdin")?;
    } else {
        cmd.stdin(Stdio::null()).map_err(|_| "stdin")?;
    }
    cmd.stdout(Stdio::piped()).map_err(|_| "stdout")?;
    cmd.stderr(Stdio::piped()).map_err(|_| "stderr")?;
    Ok(cmd)
}

// ---------------------------------------------------------------------------------------------
// observation + monitor
// ---------------------------------------------------------------------------------------------
#[derive(Clone, Debug, Default)]
struct Obs {
    error: Option<String>,
    pid: i32,
    pipe_sz: usize,
    pidfd_seen: bool,
    out: Vec<u8>,
    out_eof: bool,
    out_err: Option<String>,
    err: Vec<u8>,
    err_eof: bool,
    err_err: Option<String>,
    /// bytes the stdin pipe accepted (exact only for wstyle "loop")
    written: usize,
    w_done: bool,
    w_err: Option<String>,
    wait: Option<Result<(Option<i32>, Option<i32>), String>>,
    wait_released: bool,
    wait_after_kill: bool,
    wait_reaped: Option<bool>,
    /// pipeline cases: status of the first process
    wait_first: Option<Result<(Option<i32>, Option<i32>), String>>,
    /// "read returned n but the buffer has length m"
    len_mismatch: Option<String>,
    ops: u64,
    finished: bool,
}

#[derive(Clone, Debug)]
struct Verdict {
    verified: bool,
    cause: String,
    child: String,
    parent: String,
}

struct Mon {
    progress: AtomicU64,
    gate_wait: AtomicBool,
    finished: AtomicBool,
    pid: AtomicI32,
    /// second process of a pipeline case
    pid2: AtomicI32,
    tid: AtomicI32,
    stdin_fd: AtomicI32,
    killed: AtomicBool,
    thread_block_seen: AtomicBool,
    verdict: Mutex<Option<Verdict>>,
    kill_time: Mutex<Option<Instant>>,
    start: Instant,
    obs: Mutex<Obs>,
}

impl Mon {
    fn new() -> Self {
        Self {
            progress: AtomicU64::new(0),
            gate_wait: AtomicBool::new(false),
            finished: AtomicBool::new(false),
            pid: AtomicI32::new(0),
            pid2: AtomicI32::new(0),
            tid: AtomicI32::new(0),
            stdin_fd: AtomicI32::new(-1),
            killed: AtomicBool::new(false),
            thread_block_seen: AtomicBool::new(false),
            verdict: Mutex::new(None),
            kill_time: Mutex::new(None),
            start: Instant::now(),
            obs: Mutex::new(Obs::default()),
        }
    }

    fn tick(&self) {
        self.progress.fetch_add(1, SeqCst);
        self.obs.lock().unwrap().ops += 1;
    }

    fn with<R>(&self, f: impl FnOnce(&mut Obs) -> R) -> R {
        f(&mut self.obs.lock().unwrap())
    }

    fn kill_child(&self, v: Verdict) {
        let mut g = self.verdict.lock().unwrap();
        if g.is_some() {
            return;
        }
        *g = Some(v);
        drop(g);
        // order matters: a wait that returns because of this kill must see the flag
        self.killed.store(true, SeqCst);
        *self.kill_time.lock().unwrap() = Some(Instant::now());
        for pid in [self.pid.load(SeqCst), self.pid2.load(SeqCst)] {
            if pid > 0 {
                unsafe {
                    libc::kill(-pid, libc::SIGKILL);
                    libc::kill(pid, libc::SIGKILL);
                }
            }
        }
    }
}

fn idle_syscall(nr: i64) -> bool {
    nr == libc::SYS_io_uring_enter
        || nr == libc::SYS_epoll_wait
        || nr == libc::SYS_epoll_pwait
        || nr == libc::SYS_epoll_pwait2
        || nr == libc::SYS_poll
        || nr == libc::SYS_ppoll
}

fn monitor(m: Arc<Mon>) {
    let mut same = 0u32;
    let mut zsame = 0u32;
    let mut last = u64::MAX;
    loop {
        if m.finished.load(SeqCst) {
            return;
        }
        std::thread::sleep(SAMPLE);
        if m.killed.load(SeqCst) {
            continue;
        }
        let pid = m.pid.load(SeqCst);
        let tid = m.tid.load(SeqCst);
        if m.start.elapsed() > WATCHDOG {
            let c = if pid > 0 { format!("{:?}", procfs::process(pid)) } else { "not spawned".into() };
            let p = if tid > 0 { format!("{:?}", procfs::thread(tid)) } else { "?".into() };
            m.kill_child(Verdict { verified: false, cause: "watchdog".into(), child: c, parent: p });
            continue;
        }
        if pid <= 0 || tid <= 0 {
            continue;
        }
        let c = procfs::process(pid);
        let p = procfs::thread(tid);
        let sfd = m.stdin_fd.load(SeqCst);
        let in_write = p.state == 'S' && p.nr == libc::SYS_write && sfd >= 0 && p.a0 == sfd as u64;
        if in_write {
            m.thread_block_seen.store(true, SeqCst);
        }
        let prog = m.progress.load(SeqCst);
        if m.gate_wait.load(SeqCst) {
            same = 0;
            zsame = 0;
            last = prog;
            continue;
        }
        // a wait for the child on the runtime thread itself (instead of pool / pidfd readiness)
        let in_wait = p.state == 'S' && (p.nr == libc::SYS_waitid || p.nr == libc::SYS_wait4);
        let idle = (p.state == 'S' && idle_syscall(p.nr)) || in_write || in_wait;
        let mut cblk = c.blocked_read_stdin() || c.blocked_write_out();
        // pipeline cases: the first process talks to the second one, not to the parent; nothing moves only
        // if the other process is asleep in its stdio as well (or gone)
        let pid2 = m.pid2.load(SeqCst);
        if pid2 > 0 {
            let c2 = procfs::process(pid2);
            let b2 = c2.blocked_read_stdin() || c2.blocked_write_out();
            cblk = (cblk && (b2 || c2.zombie_or_gone())) || (b2 && c.zombie_or_gone());
        }
        if cblk && idle && prog == last { same += 1 } else { same = 0 }
        if c.zombie_or_gone() && idle && !in_write && prog == last { zsame += 1 } else { zsame = 0 }
        last = prog;
        if same >= STUCK_SAMPLES {
            let cause = if in_write {
                "thread_blocked_in_stdin_write"
            } else if in_wait {
                "thread_blocked_in_waitpid"
            } else if c.blocked_write_out() {
                "child_blocked_writing_output"
            } else {
                "child_blocked_reading_stdin"
            };
            m.kill_child(Verdict {
                verified: true,
                cause: cause.into(),
                child: format!("{c:?}"),
                parent: format!("{p:?}"),
            });
        } else if zsame >= ZOMBIE_SAMPLES {
            m.kill_child(Verdict {
                verified: true,
                cause: "child_exited_parent_idle".into(),
                child: format!("{c:?}"),
                parent: format!("{p:?}"),
            });
        }
    }
}

// ---------------------------------------------------------------------------------------------
// the parent program
// ---------------------------------------------------------------------------------------------
#[derive(Clone, Copy, PartialEq)]
enum Which {
    Out,
    Err,
}

async fn reader<R: AsyncRead>(mut r: R, which: Which, rchunk: usize, m: Arc<Mon>) {
    let put = |m: &Mon, data: &[u8]| {
        m.with(|o| match which {
            Which::Out => o.out.extend_from_slice(data),
            Which::Err => o.err.extend_from_slice(data),
        })
    };
    let fail = |m: &Mon, e: String| {
        m.with(|o| match which {
            Which::Out => o.out_err = Some(e),
            Which::Err => o.err_err = Some(e),
        })
    };
    let mut ok = true;
    if rchunk == 0 {
        let BufResult(res, v) = r.read_to_end(Vec::new()).await;
        match res {
            Ok(n) => {
                if n != v.len() {
                    m.with(|o| o.len_mismatch = Some(format!("read_to_end returned {n}, buffer has {}", v.len())));
                }
            }
            Err(e) => {
                ok = false;
                fail(&m, e.to_string());
            }
        }
        put(&m, &v);
        m.tick();
    } else {
        loop {
            let BufResult(res, b) = r.read(Vec::with_capacity(rchunk)).await;
            match res {
                Ok(n) => {
                    if n != b.len() {
                        m.with(|o| o.len_mismatch = Some(format!("read returned {n}, buffer has {}", b.len())));
                    }
                    if n == 0 {
                        break;
                    }
                    put(&m, &b);
                    m.tick();
                }
                Err(e) => {
                    ok = false;
                    fail(&m, e.to_string());
                    break;
                }
            }
        }
    }
    if ok {
        m.with(|o| match which {
            Which::Out => o.out_eof = true,
            Which::Err => o.err_eof = true,
        });
    }
    m.tick();
    drop(r);
}

/// write_all per piece (`all`) or an own retry loop over `write` (`loop`); hands the handle back
async fn writer(mut stdin: ChildStdin, p: Prog, m: Arc<Mon>) -> ChildStdin {
    let mut off = 0usize;
    while off < p.nin {
        let piece = if p.wchunk == 0 { p.nin - off } else { p.wchunk.min(p.nin - off) };
        if p.wstyle == "all" {
            let buf = counter_vec(off as u64, piece, SALT_IN);
            let BufResult(res, _) = stdin.write_all(buf).await;
            match res {
                Ok(()) => m.with(|o| o.written += piece),
                Err(e) => {
                    m.with(|o| o.w_err = Some(e.to_string()));
                    m.tick();
                    return stdin;
                }
            }
            m.tick();
        } else {
            let mut done = 0usize;
            while done < piece {
                let buf = counter_vec((off + done) as u64, piece - done, SALT_IN);
                let BufResult(res, _) = stdin.write(buf).await;
                match res {
                    Ok(0) => {
                        m.with(|o| o.w_err = Some("write returned Ok(0)".into()));
                        m.tick();
                        return stdin;
                    }
                    Ok(n) => {
                        if n > piece - done {
                            m.with(|o| o.w_err = Some(format!("write returned {n} > offered {}", piece - done)));
                            m.tick();
                            return stdin;
                        }
                        done += n;
                        m.with(|o| o.written += n);
                    }
                    Err(e) => {
                        m.with(|o| o.w_err = Some(e.to_string()));
                        m.tick();
                        return stdin;
                    }
                }
                m.tick();
            }
        }
        off += piece;
    }
    m.with(|o| o.w_done = true);
    m.tick();
    stdin
}

fn record_wait(m: &Mon, pid: i32, released: bool, r: std::io::Result<std::process::ExitStatus>) {
    use std::os::unix::process::ExitStatusExt;
    let after_kill = m.killed.load(SeqCst);
    // the child must be gone: reaped exactly once by the implementation
    let reaped = unsafe {
        let mut st = 0i32;
        let x = libc::waitpid(pid, &mut st, libc::WNOHANG);
        x == -1 && std::io::Error::last_os_error().raw_os_error() == Some(libc::ECHILD)
    };
    m.with(|o| {
        o.wait = Some(r.map(|s| (s.code(), s.signal())).map_err(|e| e.to_string()));
        o.wait_released = released;
        o.wait_after_kill = after_kill;
        o.wait_reaped = Some(reaped);
    });
    m.tick();
}

async fn waiter(child: Child, pid: i32, released: Arc<AtomicBool>, m: Arc<Mon>) {
    let r = child.wait().await;
    record_wait(&m, pid, released.load(SeqCst), r);
}

fn dbg(msg: &str) {
    if std::env::var_os("C20_DEBUG").is_some() {
        eprintln!("[c20 {:?}] {msg}", std::thread::current().id());
    }
}

async fn nap(ms: u64) {
    compio_runtime::time::sleep(Duration::from_millis(ms)).await;
}

/// Hold the child's stdin until the child verifiably sits at its gate (blocked in read(0)),
/// give a wrong wait the chance to return, then tell the caller to release.
async fn gate(pid: i32, m: &Arc<Mon>) {
    m.gate_wait.store(true, SeqCst);
    dbg("gate: enter");
    let mut hits = 0;
    loop {
        if m.killed.load(SeqCst) || m.with(|o| o.wait.is_some()) {
            break;
        }
        if procfs::process(pid).blocked_read_stdin() {
            hits += 1;
            if hits >= 2 {
                break;
            }
        } else {
            hits = 0;
        }
        nap(2).await;
    }
    dbg("gate: child at gate or wait done");
    for _ in 0..4 {
        nap(2).await;
    }
    dbg("gate: leave");
    m.gate_wait.store(false, SeqCst);
}

/// `first | cat`: the first child's ChildStdout is converted back into a Stdio and becomes the stdin
/// of `cat`.  The first child produces only after it was released, so `cat` has to sit in a
/// blocking read(0) meanwhile - it would fail with EAGAIN if the pipe were handed over in
/// non-blocking mode.
async fn pipeline_program(p: Prog, m: Arc<Mon>) {
    use std::os::unix::process::ExitStatusExt;
    let fail = |m: &Mon, e: String| m.with(|o| o.error = Some(e));
    let (exe, pre) = match helper_exe() {
        Ok(x) => x,
        Err(e) => return fail(&m, e),
    };
    let mut a = Command::new(&exe);
    a.args(pre).args(["gated_produce", &p.nout.to_string(), "c0"]);
    a.process_group(0);
    let _ = a.stdin(Stdio::piped());
    let _ = a.stdout(Stdio::piped());
    let _ = a.stderr(Stdio::null());
    let mut ca = match a.spawn() {
        Ok(c) => c,
        Err(e) => return fail(&m, format!("spawn first: {e}")),
    };
    let pid_a = ca.id() as i32;
    m.pid.store(pid_a, SeqCst);
    let a_stdin = ca.stdin.take().unwrap();
    let a_stdout = ca.stdout.take().unwrap();
    let pipe_sz = unsafe { libc::fcntl(a_stdout.as_raw_fd(), libc::F_GETPIPE_SZ) };
    let mut b = Command::new("cat");
    b.process_group(0);
    if b.stdin(a_stdout).is_err() {
        m.with(|o| o.len_mismatch = Some("ChildStdout could not be converted into a Stdio".into()));
        return;
    }
    let _ = b.stdout(Stdio::piped());
    let _ = b.stderr(Stdio::piped());
    let mut cb = match b.spawn() {
        Ok(c) => c,
        Err(e) => return fail(&m, format!("spawn cat: {e}")),
    };
    let pid_b = cb.id() as i32;
    m.pid2.store(pid_b, SeqCst);
    m.with(|o| {
        o.pid = pid_b;
        o.pipe_sz = pipe_sz.max(0) as usize;
        o.pidfd_seen = procfs::has_pidfd_for(pid_b);
    });
    let released = Arc::new(AtomicBool::new(false));
    let ho = compio_runtime::spawn(reader(cb.stdout.take().unwrap(), Which::Out, p.rchunk, m.clone()));
    let he = compio_runtime::spawn(reader(cb.stderr.take().unwrap(), Which::Err, p.rchunk, m.clone()));
    let hb = compio_runtime::spawn(waiter(cb, pid_b, released.clone(), m.clone()));
    let m2 = m.clone();
    let ha = compio_runtime::spawn(async move {
        let r = ca.wait().await;
        m2.with(|o| o.wait_first = Some(r.map(|s| (s.code(), s.signal())).map_err(|e| e.to_string())));
        m2.tick();
    });
    gate(pid_b, &m).await;
    released.store(true, SeqCst);
    drop(a_stdin);
    m.tick();
    let _ = ho.await;
    let _ = he.await;
    let _ = hb.await;
    let _ = ha.await;
    m.with(|o| o.finished = true);
}

async fn parent_program(p: Prog, m: Arc<Mon>) {
    if p.kind == "pipeline" {
        return pipeline_program(p, m).await;
    }
    let mut cmd = match build_command(&p) {
        Ok(c) => c,
        Err(e) => {
            m.with(|o| o.error = Some(format!("command: {e}")));
            return;
        }
    };
    let mut child = match cmd.spawn() {
        Ok(c) => c,
        Err(e) => {
            m.with(|o| o.error = Some(format!("spawn: {e}")));
            return;
        }
    };
    let pid = child.id() as i32;
    let pipe_sz = child
        .stdout
        .as_ref()
        .map(|s| unsafe { libc::fcntl(s.as_raw_fd(), libc::F_GETPIPE_SZ) })
        .unwrap_or(-1);
    let pidfd = procfs::has_pidfd_for(pid);
    m.with(|o| {
        o.pid = pid;
        o.pipe_sz = pipe_sz.max(0) as usize;
        o.pidfd_seen = pidfd;
    });
    if let Some(s) = child.stdin.as_ref() {
        m.stdin_fd.store(s.as_raw_fd(), SeqCst);
    }
    m.pid.store(pid, SeqCst);
    let released = Arc::new(AtomicBool::new(!p.hold));

    let stdin = if p.take { child.stdin.take() } else { None };
    let drop_stdin = |s: ChildStdin, m: &Mon| {
        m.stdin_fd.store(-1, SeqCst);
        drop(s);
        m.tick();
    };

    match p.mode.as_str() {
        "conc" | "waithold" => {
            let stdout = child.stdout.take().unwrap();
            let stderr = child.stderr.take().unwrap();
            let hw = stdin.map(|s| compio_runtime::spawn(writer(s, p.clone(), m.clone())));
            let ho = compio_runtime::spawn(reader(stdout, Which::Out, p.rchunk, m.clone()));
            let he = compio_runtime::spawn(reader(stderr, Which::Err, p.rchunk, m.clone()));
            let ht = compio_runtime::spawn(waiter(child, pid, released.clone(), m.clone()));
            if let Some(hw) = hw {
                dbg("conc: awaiting writer");
                if let Ok(s) = hw.await {
                    dbg("conc: writer joined");
                    if p.hold {
                        gate(pid, &m).await;
                        released.store(true, SeqCst);
                    }
                    drop_stdin(s, &m);
                }
            }
            dbg("conc: joining readers and wait");
            let _ = ho.await;
            dbg("conc: stdout reader joined");
            let _ = he.await;
            dbg("conc: stderr reader joined");
            let _ = ht.await;
            dbg("conc: wait joined");
        }
        "seq" | "seqerr" | "waitfirst" => {
            let stdout = child.stdout.take().unwrap();
            let stderr = child.stderr.take().unwrap();
            if let Some(s) = stdin {
                let s = writer(s, p.clone(), m.clone()).await;
                drop_stdin(s, &m);
            }
            match p.mode.as_str() {
                "seq" => {
                    reader(stdout, Which::Out, p.rchunk, m.clone()).await;
                    reader(stderr, Which::Err, p.rchunk, m.clone()).await;
                    waiter(child, pid, released.clone(), m.clone()).await;
                }
                "seqerr" => {
                    reader(stderr, Which::Err, p.rchunk, m.clone()).await;
                    reader(stdout, Which::Out, p.rchunk, m.clone()).await;
                    waiter(child, pid, released.clone(), m.clone()).await;
                }
                _ => {
                    waiter(child, pid, released.clone(), m.clone()).await;
                    reader(stdout, Which::Out, p.rchunk, m.clone()).await;
                    reader(stderr, Which::Err, p.rchunk, m.clone()).await;
                }
            }
        }
        "wwo" => {
            if let Some(s) = stdin {
                let s = writer(s, p.clone(), m.clone()).await;
                drop_stdin(s, &m);
            }
            let r = child.wait_with_output().await;
            match r {
                Ok(o) => {
                    m.with(|ob| {
                        ob.out = o.stdout;
                        ob.err = o.stderr;
                        ob.out_eof = true;
                        ob.err_eof = true;
                    });
                    record_wait(&m, pid, released.load(SeqCst), Ok(o.status));
                }
                Err(e) => record_wait(&m, pid, released.load(SeqCst), Err(e)),
            }
        }
        other => m.with(|o| o.error = Some(format!("unknown mode {other}"))),
    }
    m.with(|o| o.finished = true);
}

fn run_in_runtime(p: Prog, m: Arc<Mon>) {
    let dt = if p.driver == "poll" { DriverType::Poll } else { DriverType::IoUring };
    let mut pb = ProactorBuilder::new();
    pb.driver_type(dt);
    // One blocking pool for all cases of this process (threads are reused instead of piling up).
    // Do NOT shorten the pool's receive timeout instead: AsyncifyPool::dispatch spawns a worker and then
    // does a blocking rendezvous send; if the worker's recv_timeout expires before the dispatcher thread
    // gets to the send (loaded machine), that send waits forever (seen once with 200 ms; C17's topic).
    static POOL: std::sync::OnceLock<compio_driver::AsyncifyPool> = std::sync::OnceLock::new();
    pb.reuse_thread_pool(
        POOL.get_or_init(|| compio_driver::AsyncifyPool::new(256, Duration::from_secs(60))).clone(),
    );
    let mut b = RuntimeBuilder::new();
    b.with_proactor(pb);
    let rt = match b.build() {
        Ok(r) => r,
        Err(e) => {
            m.with(|o| o.error = Some(format!("runtime: {e}")));
            return;
        }
    };
    if rt.driver_type() != dt {
        m.with(|o| o.error = Some(format!("runtime: asked for {dt:?}, got {:?}", rt.driver_type())));
        return;
    }
    rt.block_on(parent_program(p, m));
}

struct CaseRun {
    obs: Obs,
    verdict: Option<Verdict>,
    abandoned: bool,
    panicked: Option<String>,
    thread_block_seen: bool,
}

fn run_case(p: &Prog) -> CaseRun {
    let m = Arc::new(Mon::new());
    let (tx, rx) = mpsc::channel::<Option<String>>();
    let (m2, p2) = (m.clone(), p.clone());
    let th = std::thread::Builder::new()
        .name("c20-rt".into())
        .spawn(move || {
            m2.tid.store(procfs::gettid(), SeqCst);
            let m3 = m2.clone();
            let r = std::panic::catch_unwind(std::panic::AssertUnwindSafe(move || run_in_runtime(p2, m3)));
            let _ = tx.send(r.err().map(hcore::out::panic_msg));
        })
        .expect("thread");
    let (m4,) = (m.clone(),);
    let mh = std::thread::spawn(move || monitor(m4));
    let mut abandoned = false;
    let mut panicked = None;
    loop {
        match rx.recv_timeout(Duration::from_millis(50)) {
            Ok(pm) => {
                panicked = pm;
                break;
            }
            Err(mpsc::RecvTimeoutError::Timeout) => {
                let kt = *m.kill_time.lock().unwrap();
                if let Some(t) = kt {
                    let cause_zombie = m
                        .verdict
                        .lock()
                        .unwrap()
                        .as_ref()
                        .map(|v| v.cause == "child_exited_parent_idle")
                        .unwrap_or(false);
                    if t.elapsed() > UNWIND_GRACE || (cause_zombie && t.elapsed() > Duration::from_secs(1)) {
                        abandoned = true;
                        break;
                    }
                }
            }
            Err(mpsc::RecvTimeoutError::Disconnected) => {
                panicked = Some("runtime thread vanished".into());
                break;
            }
        }
    }
    m.finished.store(true, SeqCst);
    let _ = mh.join();
    if !abandoned {
        let _ = th.join();
    }
    // clean up whatever is left of the child (process group) and reap it if nobody did
    for pid in [m.pid.load(SeqCst), m.pid2.load(SeqCst)] {
        if pid > 0 {
            unsafe {
                libc::kill(-pid, libc::SIGKILL);
                let mut st = 0i32;
                for _ in 0..200 {
                    let x = libc::waitpid(pid, &mut st, libc::WNOHANG);
                    if x != 0 {
                        break;
                    }
                    std::thread::sleep(Duration::from_millis(5));
                }
            }
        }
    }
    let obs = m.obs.lock().unwrap().clone();
    let verdict = m.verdict.lock().unwrap().clone();
    CaseRun { obs, verdict, abandoned, panicked, thread_block_seen: m.thread_block_seen.load(SeqCst) }
}

// ---------------------------------------------------------------------------------------------
// judging
// ---------------------------------------------------------------------------------------------
struct Problem {
    ty: &'static str,
    sig: Value,
    desc: String,
}

fn sig(p: &Prog, check: &str, extra: &[(&str, Value)]) -> Value {
    let mut m = p.sig_base();
    m.insert("check".into(), json!(check));
    for (k, v) in extra {
        m.insert((*k).into(), v.clone());
    }
    Value::Object(m)
}

fn judge(case: &Value, p: &Prog, r: &CaseRun) -> Vec<Problem> {
    let mut out = Vec::new();
    let o = &r.obs;
    let natural = o.finished && r.verdict.is_none() && !r.abandoned;
    let expect = case.get("expect").cloned().unwrap_or(json!({}));
    let exp_outcome = expect.get("outcome").and_then(|v| v.as_str()).unwrap_or("either");
    let class = json!(format!(
        "nin={} nout={} nerr={} wchunk={} rchunk={} hold={} gate={} take={} helper={} wstyle={}",
        p.nin, p.nout, p.nerr, p.wchunk, p.rchunk, p.hold, p.gate, p.take, p.helper, p.wstyle
    ));

    if let Some(pm) = &r.panicked {
        out.push(Problem { ty: "panic", sig: sig(p, "panic", &[]), desc: format!("parent program panicked: {pm} [{class}]") });
        return out;
    }
    if let Some(e) = &o.error {
        // environment problem (spawn / runtime creation), not a statement about the property
        out.push(Problem { ty: "mismatch", sig: sig(p, "environment", &[]), desc: format!("could not run: {e}") });
        return out;
    }

    // ---- content: what was read is a correct beginning of what the child produced, always
    let eo = expected_out(p);
    let ee = expected_err(p);
    for (name, data, exp, eof) in [("stdout", &o.out, &eo, o.out_eof), ("stderr", &o.err, &ee, o.err_eof)] {
        if let Some(i) = exp.first_bad(data) {
            let what = if i >= exp.len() { "too_long" } else { "corrupt" };
            let shown = if data.len() <= 64 { format!(" (read {:?})", String::from_utf8_lossy(data)) } else { String::new() };
            out.push(Problem {
                ty: "contract",
                sig: sig(p, &format!("{name}_content"), &[("what", json!(what))]),
                desc: format!(
                    "{name}: byte {i} of {} read differs from what the child must have written (expected length {}){shown} [{class}]",
                    data.len(),
                    exp.len()
                ),
            });
        } else if natural && eof && data.len() != exp.len() {
            out.push(Problem {
                ty: "contract",
                sig: sig(p, &format!("{name}_content"), &[("what", json!("short"))]),
                desc: format!("{name}: end of stream after {} bytes, the child wrote {} [{class}]", data.len(), exp.len()),
            });
        }
    }
    if let Some(lm) = &o.len_mismatch {
        out.push(Problem { ty: "contract", sig: sig(p, "read_len", &[]), desc: format!("{lm} [{class}]") });
    }
    if natural {
        for (name, e) in [("stdout read", &o.out_err), ("stderr read", &o.err_err), ("stdin write", &o.w_err)] {
            if let Some(e) = e {
                out.push(Problem {
                    ty: "contract",
                    sig: sig(p, "io_error", &[("op", json!(name))]),
                    desc: format!("{name} failed: {e} [{class}]"),
                });
            }
        }
        if p.stdin_piped() && p.take && (!o.w_done || (p.wstyle == "loop" && o.written != p.nin)) {
            out.push(Problem {
                ty: "contract",
                sig: sig(p, "stdin_incomplete", &[]),
                desc: format!("writer finished with {} of {} bytes [{class}]", o.written, p.nin),
            });
        }
    }

    // ---- wait: real status, exactly once, never before the child has exited
    if let Some(w) = &o.wait {
        if !o.wait_after_kill {
            match w {
                Ok((code, signal)) => {
                    if (*code, *signal) != p.expected_status() {
                        out.push(Problem {
                            ty: "contract",
                            sig: sig(p, "status", &[("status", json!(p.status))]),
                            desc: format!(
                                "wait returned code={code:?} signal={signal:?}, the child ended with {} [{class}]",
                                p.status
                            ),
                        });
                    }
                }
                Err(e) => out.push(Problem {
                    ty: "contract",
                    sig: sig(p, "wait_error", &[]),
                    desc: format!("wait failed: {e} [{class}]"),
                }),
            }
            if !o.wait_released {
                out.push(Problem {
                    ty: "contract",
                    sig: sig(p, "wait_before_exit", &[]),
                    desc: format!(
                        "wait returned {w:?} while the child was still blocked on its stdin (not yet released) [{class}]"
                    ),
                });
            }
            if o.wait_reaped == Some(false) {
                out.push(Problem {
                    ty: "contract",
                    sig: sig(p, "not_reaped", &[]),
                    desc: format!("wait returned {w:?} but the child had not been reaped (or was still running) [{class}]"),
                });
            }
        }
    } else if natural {
        out.push(Problem { ty: "contract", sig: sig(p, "wait_missing", &[]), desc: format!("program finished without a wait result [{class}]") });
    }

    if p.kind == "pipeline" && natural && o.wait_first != Some(Ok((Some(0), None))) {
        out.push(Problem {
            ty: "contract",
            sig: sig(p, "status", &[("status", json!("first:c0"))]),
            desc: format!("first process of the pipeline: wait returned {:?}, it ended with c0 [{class}]", o.wait_first),
        });
    }

    // ---- completion
    let pipe_sz = if o.pipe_sz > 0 { o.pipe_sz } else { 65536 };
    let stuck = !natural;
    if stuck && p.must_complete(pipe_sz) {
        let v = r.verdict.clone().unwrap_or(Verdict {
            verified: false,
            cause: "abandoned".into(),
            child: String::new(),
            parent: String::new(),
        });
        out.push(Problem {
            ty: "hang",
            sig: sig(
                p,
                "hang",
                &[("cause", json!(v.cause)), ("verified", json!(v.verified)), ("model", json!(exp_outcome))],
            ),
            desc: format!(
                "program that must complete did not: {} (child {}, runtime thread {}); read {} / {} bytes, wrote {} of {}, wait {:?} [{class}]",
                v.cause,
                v.child,
                v.parent,
                o.out.len(),
                o.err.len(),
                o.written,
                p.nin,
                o.wait
            ),
        });
    }

    // ---- model comparison (drift only when the contract holds)
    if out.is_empty() {
        let real = if stuck { "stuck" } else { "complete" };
        if exp_outcome != "either" && exp_outcome != real {
            out.push(Problem {
                ty: "mismatch",
                sig: sig(p, "outcome", &[("model", json!(exp_outcome)), ("real", json!(real))]),
                desc: format!(
                    "model predicts {exp_outcome}, real run is {real} ({:?}) [{class}]",
                    r.verdict.as_ref().map(|v| v.cause.clone())
                ),
            });
        } else if !stuck && exp_outcome == "complete" {
            let blk = p.block as u64;
            let chk = |name: &str, real: u64| -> Option<Problem> {
                let m = expect.get(name).and_then(|v| v.as_u64())?;
                if case.get("bytes").is_some() {
                    return None;
                }
                if m * blk != real {
                    return Some(Problem {
                        ty: "mismatch",
                        sig: sig(p, "count", &[("field", json!(name))]),
                        desc: format!("model predicts {name}={m} blocks, real {real} bytes [{class}]"),
                    });
                }
                None
            };
            if p.kind != "consumer" {
                out.extend(chk("out", o.out.len() as u64));
            }
            out.extend(chk("err", o.err.len() as u64));
            if p.wstyle == "loop" {
                out.extend(chk("sent", o.written as u64));
            }
            if let Some(ms) = expect.get("status").and_then(|v| v.as_str()) {
                if ms != p.status {
                    out.push(Problem {
                        ty: "mismatch",
                        sig: sig(p, "model_status", &[]),
                        desc: format!("model predicts status {ms}, program says {} [{class}]", p.status),
                    });
                }
            }
        } else if stuck && exp_outcome == "stuck" {
            // the flavour of the deadlock
            if let (Some(mb), Some(v)) = (expect.get("blocked").and_then(|v| v.as_bool()), &r.verdict) {
                let rb = v.cause == "thread_blocked_in_stdin_write";
                if v.verified && mb != rb {
                    out.push(Problem {
                        ty: "mismatch",
                        sig: sig(p, "stuck_flavour", &[]),
                        desc: format!("model: runtime thread blocked = {mb}, real: {} [{class}]", v.cause),
                    });
                }
            }
        }
    }
    out
}

// ---------------------------------------------------------------------------------------------
// main
// ---------------------------------------------------------------------------------------------
fn self_test() -> Result<(), String> {
    // our cksum must agree with the tool the consumer cases use
    let data = counter_vec(0, 70_000, SALT_IN);
    let mut c = std::process::Command::new("cksum")
        .stdin(Stdio::piped())
        .stdout(Stdio::piped())
        .spawn()
        .map_err(|e| format!("cksum: {e}"))?;
    {
        use std::io::Write;
        let mut si = c.stdin.take().unwrap();
        si.write_all(&data).map_err(|e| e.to_string())?;
    }
    let o = c.wait_with_output().map_err(|e| e.to_string())?;
    let want = format!("{} {}\n", posix_cksum(&data), data.len());
    if o.stdout != want.as_bytes() {
        return Err(format!("cksum self test: tool says {:?}, harness computes {want:?}", String::from_utf8_lossy(&o.stdout)));
    }
    Ok(())
}

pub fn main() {
    let args: Vec<String> = std::env::args().collect();
    if args.get(1).map(|s| s == "--child").unwrap_or(false) {
        crate::child::main(&args[2..]);
    }
    hcore::out::silence_panics();
    // children must die of the signals they send themselves even if this process was started with
    // some of them ignored (background job of a non-interactive shell, nohup)
    unsafe {
        for sg in [libc::SIGHUP, libc::SIGINT, libc::SIGQUIT, libc::SIGUSR1, libc::SIGUSR2, libc::SIGTERM] {
            libc::signal(sg, libc::SIG_DFL);
        }
        let mut set: libc::sigset_t = std::mem::zeroed();
        libc::sigemptyset(&mut set);
        libc::sigprocmask(libc::SIG_SETMASK, &set, std::ptr::null_mut());
    }
    let mut rep = Report::new();
    if let Err(e) = self_test() {
        eprintln!("self test failed: {e}");
        std::process::exit(3);
    }
    let mut completed = 0u64;
    let mut stuck_verified = 0u64;
    let mut stuck_unverified = 0u64;
    let mut thread_block = 0u64;
    let mut pidfd_seen = 0u64;
    let mut unexpected_hangs = 0u32;
    let mut skipped = 0u64;
    let mut by_driver = std::collections::BTreeMap::<String, u64>::new();
    let mut by_helper = std::collections::BTreeMap::<String, u64>::new();
    let mut bytes_moved = 0u64;
    let mut pipe_sizes = std::collections::BTreeSet::<usize>::new();
    let mut wall_ms = std::collections::BTreeMap::<String, (u64, u64)>::new();
    for case in hcore::out::cases_from_arg() {
        if unexpected_hangs >= MAX_UNEXPECTED_HANGS {
            skipped += 1;
            continue;
        }
        let p = match parse_prog(&case) {
            Ok(p) => p,
            Err(e) => {
                eprintln!("bad case: {e}");
                std::process::exit(3);
            }
        };
        let t_case = Instant::now();
        let r = run_case(&p);
        let dt = t_case.elapsed().as_millis() as u64;
        let class = match &r.verdict {
            None if !r.abandoned => if p.hold { "complete_hold" } else { "complete" },
            Some(v) if v.verified => "stuck_verified",
            _ => "stuck_other",
        };
        let e = wall_ms.entry(class.to_string()).or_insert((0u64, 0u64));
        e.0 += 1;
        e.1 += dt;
        rep.cases += 1;
        rep.steps += r.obs.ops;
        *by_driver.entry(p.driver.clone()).or_default() += 1;
        *by_helper.entry(p.helper.clone()).or_default() += 1;
        bytes_moved += (r.obs.out.len() + r.obs.err.len() + r.obs.written) as u64;
        if r.obs.pipe_sz > 0 {
            pipe_sizes.insert(r.obs.pipe_sz);
        }
        if r.obs.pidfd_seen {
            pidfd_seen += 1;
        }
        if r.thread_block_seen {
            thread_block += 1;
        }
        match &r.verdict {
            None if !r.abandoned => completed += 1,
            Some(v) if v.verified => stuck_verified += 1,
            _ => stuck_unverified += 1,
        }
        let probs = judge(&case, &p, &r);
        for pr in probs {
            if pr.ty == "hang" && !pr.sig.get("verified").and_then(|v| v.as_bool()).unwrap_or(false) {
                unexpected_hangs += 1;
            }
            rep.problem(pr.ty, pr.sig, pr.desc, &case, 0);
        }
        if r.abandoned {
            unexpected_hangs += 1;
        }
    }
    rep.set("wait_impl", json!(WAIT_IMPL));
    rep.set("completed", json!(completed));
    rep.set("stuck_verified", json!(stuck_verified));
    rep.set("stuck_unverified", json!(stuck_unverified));
    rep.set("thread_block_seen", json!(thread_block));
    rep.set("pidfd_seen", json!(pidfd_seen));
    rep.set("skipped_after_hangs", json!(skipped));
    rep.set("by_driver", json!(by_driver));
    rep.set("by_helper", json!(by_helper));
    rep.set("bytes_moved", json!(bytes_moved));
    rep.set("pipe_sizes", json!(pipe_sizes));
    rep.set("wall_ms_by_class", json!(wall_ms));
    rep.finish();
    // threads of abandoned cases may still sit in the kernel
    std::process::exit(0);
}
