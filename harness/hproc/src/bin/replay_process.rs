//! C20 replay on the default build of compio-process (wait = blocking pool). See hproc::replay.
fn main() {
    hproc::replay::main()
}
