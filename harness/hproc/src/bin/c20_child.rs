//! Small helper child of the C20 replay (echo / consume / produce / exit), see hproc::child.
fn main() {
    let args: Vec<String> = std::env::args().collect();
    hproc::child::main(&args[1..])
}
