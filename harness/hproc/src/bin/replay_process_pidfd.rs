//! C20 replay on compio-process built with feature linux_pidfd (nightly; wait = PollOnce on the
//! pidfd, SharedFd::take, waitid). Same code as replay_process. See hproc::replay.
fn main() {
    hproc::replay::main()
}
