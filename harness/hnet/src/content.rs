//! Distinguishable payload bytes.
//!
//! Stream direction: the writer's send operations occupy consecutive ranges of one "pattern
//! space": operation i owns offsets [base_i, base_i + n_i).  The byte at the first offset of an
//! operation is the marker 0xF0 + i, every other byte is `pat(offset, salt)` (< 0xF0).  A received
//! chunk is decoded back into runs (offset, length) WITHOUT knowing how many bytes the transport
//! accepted from each send: a marker byte starts the run of its operation, any other byte must
//! continue the previous run.  Bytes that do not decode are reported as runs with offset -1.
//!
//! Datagram: byte 0 is the datagram uid (1..=239), byte p > 0 is `pat(uid << 20 | p, salt)`.

pub const MARK: u8 = 0xF0;
pub const FILL: u8 = 0xEE;

#[inline]
pub fn pat(off: u64, salt: u32) -> u8 {
    let x = ((off as u32) ^ salt.wrapping_mul(0x85EB_CA6B)).wrapping_mul(0x9E37_79B1);
    let y = x ^ (x >> 15);
    let y = y.wrapping_mul(0x2C1B_3C6D);
    (((y >> 24) ^ (y >> 11)) & 0xFF) as u8 % MARK
}

/// The send plan of one stream direction: (base, n) per send operation, in program order.
#[derive(Clone, Debug, Default)]
pub struct Plan {
    pub ops: Vec<(u64, u64)>,
    pub salt: u32,
}

impl Plan {
    pub fn total(&self) -> u64 {
        self.ops.last().map(|(b, n)| b + n).unwrap_or(0)
    }

    /// content byte at pattern offset `off`
    pub fn byte(&self, off: u64) -> u8 {
        for (i, (b, n)) in self.ops.iter().enumerate() {
            if *n > 0 && off == *b {
                return MARK + i as u8;
            }
        }
        pat(off, self.salt)
    }

    /// fill the payload of operation `i` (length n_i) into `out`
    pub fn fill(&self, i: usize, out: &mut [u8]) {
        let (b, n) = self.ops[i];
        assert_eq!(out.len() as u64, n);
        for (p, o) in out.iter_mut().enumerate() {
            *o = if p == 0 { MARK + i as u8 } else { pat(b + p as u64, self.salt) };
        }
    }

    fn op_end(&self, off: u64) -> u64 {
        for (b, n) in &self.ops {
            if off >= *b && off < b + n {
                return b + n;
            }
        }
        off
    }
}

/// Decoder state of one stream direction at the receiving side.
#[derive(Clone, Debug)]
pub struct Decoder {
    pub plan: Plan,
    /// pattern offset expected to continue the current run (u64::MAX = none yet)
    pub hint: u64,
    /// set by the recorder when bytes may have been lost since the last chunk (a multishot stream
    /// was dropped): the next chunk is then only located by at least four agreeing bytes
    pub lossy: bool,
}

impl Decoder {
    pub fn new(plan: Plan) -> Self {
        Self { plan, hint: u64::MAX, lossy: false }
    }

    /// Decode `chunk` into runs [(offset, len)]; offset -1 = bytes that are not the continuation of
    /// the previous run and not the start of a send operation (lost / duplicated / misplaced /
    /// foreign bytes).  Contiguous runs are merged.
    pub fn decode(&mut self, chunk: &[u8]) -> Vec<(i64, u64)> {
        let mut runs: Vec<(i64, u64)> = Vec::new();
        let mut j = 0usize;
        let push = |runs: &mut Vec<(i64, u64)>, off: i64, len: u64| {
            if let Some(last) = runs.last_mut() {
                if (off >= 0 && last.0 >= 0 && last.0 as u64 + last.1 == off as u64) || (off < 0 && last.0 < 0) {
                    last.1 += len;
                    return;
                }
            }
            runs.push((off, len));
        };
        while j < chunk.len() {
            let b = chunk[j];
            let start = if b >= MARK {
                let i = (b - MARK) as usize;
                if i < self.plan.ops.len() && self.plan.ops[i].1 > 0 {
                    Some(self.plan.ops[i].0)
                } else {
                    None
                }
            } else if self.hint != u64::MAX && self.hint < self.plan.op_end(self.hint) && pat(self.hint, self.plan.salt) == b {
                Some(self.hint)
            } else {
                None
            };
            // a continuation from the hint is only trusted when enough bytes agree (a single byte agrees
            // by chance once in 240): at least four, or everything up to the end of the chunk / of the
            // operation followed by the marker of the next one
            let start = match start {
                Some(s) if b < MARK => {
                    let end = self.plan.op_end(s);
                    let mut m = 1u64;
                    while j + (m as usize) < chunk.len() && s + m < end && chunk[j + m as usize] == pat(s + m, self.plan.salt) {
                        m += 1;
                    }
                    let at_chunk_end = j + m as usize == chunk.len();
                    let at_op_end = s + m == end && j + (m as usize) < chunk.len() && chunk[j + m as usize] >= MARK;
                    if m >= 4 || (!self.lossy && (at_chunk_end || at_op_end)) { Some(s) } else { None }
                }
                x => x,
            };
            match start {
                Some(s) => {
                    let end = self.plan.op_end(s);
                    let mut m = 1u64;
                    while j + (m as usize) < chunk.len()
                        && s + m < end
                        && chunk[j + m as usize] == pat(s + m, self.plan.salt)
                    {
                        m += 1;
                    }
                    push(&mut runs, s as i64, m);
                    self.hint = s + m;
                    j += m as usize;
                }
                None => {
                    // try to re-synchronise: longest match anywhere in the pattern space (diagnostic
                    // quality only; the run stays marked as out of place by not being contiguous)
                    let mut best: (u64, u64) = (0, 0);
                    let total = self.plan.total();
                    let rest = &chunk[j..];
                    if rest.len() >= 4 {
                        let mut o = 0u64;
                        while o < total {
                            if self.plan.byte(o) == rest[0] {
                                let end = self.plan.op_end(o);
                                let mut m = 1u64;
                                while (m as usize) < rest.len() && o + m < end && rest[m as usize] == pat(o + m, self.plan.salt) {
                                    m += 1;
                                }
                                if m > best.1 {
                                    best = (o, m);
                                }
                            }
                            o += 1;
                        }
                    }
                    if best.1 >= 4 {
                        push(&mut runs, best.0 as i64, best.1);
                        self.hint = best.0 + best.1;
                        j += best.1 as usize;
                    } else {
                        push(&mut runs, -1, 1);
                        j += 1;
                    }
                }
            }
        }
        if runs.iter().any(|(o, l)| *o >= 0 && *l >= 4) {
            self.lossy = false;
        }
        runs
    }
}

/// Fill a datagram payload.
pub fn dgram_fill(uid: u8, salt: u32, out: &mut [u8]) {
    for (p, o) in out.iter_mut().enumerate() {
        *o = if p == 0 { uid } else { pat(((uid as u64) << 20) | p as u64, salt) };
    }
}

/// Decode a received datagram payload: (uid or 0 when empty, all bytes as generated?)
pub fn dgram_decode(data: &[u8], salt: u32) -> (u8, bool) {
    if data.is_empty() {
        return (0, true);
    }
    let uid = data[0];
    let ok = data.iter().enumerate().skip(1).all(|(p, b)| *b == pat(((uid as u64) << 20) | p as u64, salt));
    (uid, ok)
}

#[cfg(test)]
mod tests {
    use super::*;

    #[test]
    fn roundtrip() {
        let plan = Plan { ops: vec![(0, 5), (5, 0), (5, 71680), (71685, 3)], salt: 7 };
        let mut stream = Vec::new();
        for (i, k) in [(0usize, 5usize), (2, 40000), (3, 3)] {
            let mut b = vec![0u8; plan.ops[i].1 as usize];
            plan.fill(i, &mut b);
            stream.extend_from_slice(&b[..k]);
        }
        let mut d = Decoder::new(plan);
        let mut runs = Vec::new();
        for c in stream.chunks(977) {
            runs.extend(d.decode(c));
        }
        let mut merged: Vec<(i64, u64)> = Vec::new();
        for r in runs {
            if let Some(l) = merged.last_mut() {
                if l.0 + l.1 as i64 == r.0 {
                    l.1 += r.1;
                    continue;
                }
            }
            merged.push(r);
        }
        assert_eq!(merged, vec![(0i64, 40005u64), (71685, 3)]);
    }
}
