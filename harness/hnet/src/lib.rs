//! harness package hnet: shared pieces of the C14 socket recorder.
//!
//! * `Log`      - ndjson event log with a per-process sequence number (never wall-clock)
//! * content    - distinguishable payload bytes and their decoder (stream offsets / datagram ids)
pub mod content;
pub mod log;
