//! harness package hnet
