//! C14: run two-peer socket programs (spec/Gen_Socket.tla) on REAL loopback TCP, Unix stream and UDP
//! sockets with both drivers and record the call/return history as ndjson.
//!
//!   record_socket <programs.jsonl> <outdir> [combo ...]      combo = tcp:iour | unix:poll | udp:iour ...
//!
//! One trace file per combo: <outdir>/trace_<tr>_<drv>.ndjson.  stdout: problems (hang / panic /
//! error) and one summary line (hcore::out protocol).  The property's predicates are evaluated on
//! the recorded history by lib/checks/c14.py (contract oracle) and by TLC (spec/Trace_Socket.tla).
//!
//! Every event carries "seq" (per-process sequence number, taken when the event is logged).
use std::{
    cell::RefCell,
    collections::BTreeMap,
    num::NonZero,
    panic::{AssertUnwindSafe, catch_unwind},
    path::PathBuf,
    rc::Rc,
    sync::{
        Arc,
        atomic::{AtomicU64, Ordering},
    },
    time::Duration,
};

use compio_buf::BufResult;
use compio_driver::{DriverType, ProactorBuilder};
use compio_io::{
    AsyncRead, AsyncReadManaged, AsyncReadMulti, AsyncWrite, AsyncWriteZerocopy,
    ancillary::{
        AncillaryBuf, AsyncReadAncillary, AsyncReadAncillaryManaged, AsyncReadAncillaryMulti, AsyncWriteAncillary,
        AsyncWriteAncillaryZerocopy,
    },
};
use compio_net::{TcpListener, TcpStream, UdpSocket, UnixListener, UnixSocket, UnixStream};
use compio_runtime::{JoinError, JoinHandle, RuntimeBuilder, time::timeout};
use futures_util::StreamExt;
use hcore::out::{Report, panic_msg, silence_panics};
use hnet::{
    content::{Decoder, FILL, Plan, dgram_decode, dgram_fill},
    log::Log,
};
use serde::Deserialize;
use serde_json::{Value, json};

pub const POOLBUF: usize = 4096;
pub const POOLCNT: u16 = 16;
/// requested SO_SNDBUF of the stream sockets (the kernel doubles it); far below the 70 KiB
/// payloads so that large sends are accepted partially. The receive buffer is left alone: a
/// receive window below the loopback MSS stalls TCP for seconds (window probes), which is a
/// property of TCP and not of the code under test.
pub const SOCKBUF: i32 = 8192;
pub const CTRL: usize = 64;
const PROGRAM_WATCHDOG: Duration = Duration::from_secs(30);
const STEP_TIMEOUT: Duration = Duration::from_secs(12);
/// a combination in which this many programs did not finish is not continued (every further
/// program would wait for the watchdog again); what was recorded so far is judged
const MAX_HANGS: u64 = 3;
const DRAIN_CAP: usize = 131072;

#[derive(Deserialize, Clone, Debug, Default)]
pub struct Op {
    pub k: String,
    #[serde(default)]
    pub n: u64,
    #[serde(default)]
    pub c: u64,
    #[serde(default)]
    pub sh: String,
    #[serde(default)]
    pub it: u64,
}

fn none() -> String {
    "none".into()
}

#[derive(Deserialize, Clone, Debug, Default)]
pub struct Peer {
    #[serde(default)]
    pub w: Vec<Op>,
    #[serde(default)]
    pub r: Vec<Op>,
    #[serde(default = "none")]
    pub split: String,
    #[serde(default = "none")]
    pub ord: String,
}

#[derive(Deserialize, Clone, Debug)]
pub struct Prog {
    pub id: u64,
    pub t: String,
    #[serde(default)]
    pub acc: Vec<String>,
    pub a: Peer,
    pub b: Peer,
    #[serde(default)]
    pub c: Option<Peer>,
    #[serde(default)]
    pub conn: bool,
}

pub struct Ctx {
    pub log: Rc<Log>,
    pub prog: u64,
    pub tr: &'static str,
    pub drv: &'static str,
    pub dir: PathBuf,
    pub run: u64,
    pub unsupported: RefCell<BTreeMap<String, u64>>,
    pub kinds: RefCell<BTreeMap<String, u64>>,
    pub errors: RefCell<Vec<String>>,
}

impl Ctx {
    pub fn kind(&self, k: &str) {
        *self.kinds.borrow_mut().entry(k.to_string()).or_insert(0) += 1;
    }

    pub fn unsupported(&self, k: &str) {
        *self.unsupported.borrow_mut().entry(k.to_string()).or_insert(0) += 1;
    }

    pub fn err(&self, s: String) {
        self.errors.borrow_mut().push(s);
    }
}

pub fn is_nobufs(e: &std::io::Error) -> bool {
    e.raw_os_error() == Some(libc::ENOBUFS) || e.kind() == std::io::ErrorKind::ResourceBusy
}

pub fn set_sockbuf(fd: std::os::fd::RawFd) {
    let v: libc::c_int = SOCKBUF;
    unsafe {
        libc::setsockopt(fd, libc::SOL_SOCKET, libc::SO_SNDBUF, &v as *const _ as *const _, 4);
    }
}

/// poll(2) with zero timeout: (readable, hung up)
pub fn probe(fd: std::os::fd::RawFd) -> (bool, bool) {
    let mut p = libc::pollfd { fd, events: libc::POLLIN | libc::POLLRDHUP, revents: 0 };
    let r = unsafe { libc::poll(&mut p, 1, 0) };
    if r <= 0 {
        return (false, false);
    }
    (p.revents & libc::POLLIN != 0, p.revents & (libc::POLLRDHUP | libc::POLLHUP | libc::POLLERR) != 0)
}

pub fn io_err(e: &std::io::Error) -> Value {
    json!({"kind": format!("{:?}", e.kind()), "os": e.raw_os_error(), "msg": e.to_string()})
}

// ------------------------------------------------------------------ buffers

pub struct Snap {
    ptr: usize,
    len: usize,
    cap: usize,
    copy: Vec<u8>,
}

pub fn snap(v: &Vec<u8>) -> Snap {
    Snap { ptr: v.as_ptr() as usize, len: v.len(), cap: v.capacity(), copy: v.clone() }
}

/// (same allocation and capacity, length unchanged, content unchanged)
pub fn unchanged(v: &Vec<u8>, s: &Snap) -> (bool, bool, bool) {
    (v.as_ptr() as usize == s.ptr && v.capacity() == s.cap, v.len() == s.len, v[..] == s.copy[..])
}

pub fn extra(sh: &str) -> usize {
    if sh.ends_with('s') || sh == "spare" { 16 } else { 0 }
}

pub fn mk_send(plan: &Plan, i: usize, sh: &str) -> Vec<u8> {
    let n = plan.ops[i].1 as usize;
    let mut v = Vec::with_capacity(n + extra(sh));
    v.resize(n, 0);
    plan.fill(i, &mut v);
    v
}

pub fn split2(n: usize) -> (usize, usize) {
    (n / 2, n - n / 2)
}

pub fn mk_send2(plan: &Plan, i: usize, sh: &str) -> [Vec<u8>; 2] {
    let whole = mk_send(plan, i, "exact");
    let (n1, n2) = split2(whole.len());
    let mut a = Vec::with_capacity(n1 + extra(sh));
    a.extend_from_slice(&whole[..n1]);
    let mut b = Vec::with_capacity(n2 + extra(sh));
    b.extend_from_slice(&whole[n1..]);
    [a, b]
}

/// empty Vec of capacity c (+spare), capacity pre-filled with FILL so that it can be inspected
pub fn mk_recv(c: usize, sh: &str) -> Vec<u8> {
    let cap = c + extra(sh);
    let mut v: Vec<u8> = Vec::with_capacity(cap);
    unsafe { std::ptr::write_bytes(v.as_mut_ptr(), FILL, v.capacity()) };
    v
}

/// raw view of the first `k` bytes of the allocation (bounded by the capacity)
pub fn raw(v: &Vec<u8>, k: usize) -> &[u8] {
    let k = k.min(v.capacity());
    unsafe { std::slice::from_raw_parts(v.as_ptr(), k) }
}

pub fn runs_json(r: &[(i64, u64)]) -> Value {
    Value::Array(r.iter().map(|(o, l)| json!([o, l])).collect())
}

/// runs plus, for short stretches that could not be located in the pattern space on their own
/// (offset -1), the bytes themselves: the check locates them from the following chunk
pub fn runs_fields(r: &[(i64, u64)], data: &[u8]) -> Value {
    let mut amb = Vec::new();
    let mut pos = 0usize;
    for (o, l) in r {
        if *o < 0 && *l <= 64 {
            let hex: String = data[pos..pos + *l as usize].iter().map(|b| format!("{b:02x}")).collect();
            amb.push(json!([pos, hex]));
        }
        pos += *l as usize;
    }
    if amb.is_empty() { json!({"runs": runs_json(r)}) } else { json!({"runs": runs_json(r), "amb": amb}) }
}

pub fn send_fields(op_i: usize, plan: &Plan, op: &Op) -> Value {
    json!({"i": op_i, "base": plan.ops[op_i].0, "n": plan.ops[op_i].1, "sh": op.sh})
}

pub fn merge(mut a: Value, b: Value) -> Value {
    if let (Value::Object(m), Value::Object(n)) = (&mut a, b) {
        for (k, v) in n {
            m.insert(k, v);
        }
    }
    a
}

pub fn join_panic(ctx: &Ctx, what: &str, e: JoinError) {
    match e {
        JoinError::Cancelled => ctx.err(format!("{what}: task cancelled")),
        JoinError::Panicked(p) => ctx.err(format!("PANIC {what}: {}", panic_msg(p))),
    }
}

// ------------------------------------------------------------------ stream transports

mod tcp {
    use super::*;
    pub type S = TcpStream;
    pub type L = TcpListener;
    pub const TR: &str = "tcp";

    pub async fn bind_listener(_ctx: &Ctx) -> std::io::Result<(L, String)> {
        let l = TcpListener::bind("127.0.0.1:0").await?;
        let a = l.local_addr()?.to_string();
        Ok((l, a))
    }

    pub async fn connect_client(_ctx: &Ctx, laddr: &str, _i: usize) -> std::io::Result<(S, String)> {
        let s = TcpStream::connect(laddr).await?;
        let a = s.local_addr()?.to_string();
        Ok((s, a))
    }

    pub fn accepted_addr(a: &std::net::SocketAddr) -> String {
        a.to_string()
    }

    pub fn peer_id(s: &S) -> String {
        s.peer_addr().map(|a| a.to_string()).unwrap_or_else(|e| format!("ERR {e}"))
    }

    include!("../stream_body.rs");
}

mod unix {
    use super::*;
    pub type S = UnixStream;
    pub type L = UnixListener;
    pub const TR: &str = "unix";

    pub async fn bind_listener(ctx: &Ctx) -> std::io::Result<(L, String)> {
        let p = ctx.dir.join(format!("l{}_{}", ctx.run, ctx.prog));
        let l = UnixListener::bind(&p).await?;
        Ok((l, p.to_string_lossy().to_string()))
    }

    pub async fn connect_client(ctx: &Ctx, laddr: &str, i: usize) -> std::io::Result<(S, String)> {
        let p = ctx.dir.join(format!("c{}_{}_{}", ctx.run, ctx.prog, i));
        let sock = UnixSocket::new_stream().await?;
        sock.bind(&p).await?;
        let s = sock.connect(laddr).await?;
        Ok((s, p.to_string_lossy().to_string()))
    }

    pub fn accepted_addr(a: &socket2::SockAddr) -> String {
        a.as_pathname().map(|p| p.to_string_lossy().to_string()).unwrap_or_else(|| format!("{a:?}"))
    }

    pub fn peer_id(s: &S) -> String {
        s.peer_addr().map(|a| accepted_addr(&a)).unwrap_or_else(|e| format!("ERR {e}"))
    }

    include!("../stream_body.rs");
}

mod udp {
    use super::*;
    include!("../dgram_body.rs");
}

// ------------------------------------------------------------------ driver

#[allow(clippy::too_many_arguments)]
fn run_one(tr: &'static str, drv: DriverType, drvname: &'static str, prog: &Prog, log: &Rc<Log>, dir: &PathBuf,
           run: u64, rep: &mut Report, stats: &mut ComboStats, progress: &Arc<AtomicU64>,
           cached: &mut Option<compio_runtime::Runtime>) {
    log.reset_ids();
    log.ev(json!({"e": "reset", "prog": prog.id, "tr": tr, "drv": drvname, "poolbuf": POOLBUF, "poolcnt": POOLCNT,
                  "ctrl": CTRL}));
    let ctx = Rc::new(Ctx {
        log: log.clone(),
        prog: prog.id,
        tr,
        drv: drvname,
        dir: dir.clone(),
        run,
        unsupported: RefCell::new(BTreeMap::new()),
        kinds: RefCell::new(BTreeMap::new()),
        errors: RefCell::new(Vec::new()),
    });
    let ev0 = log.events();
    let case = serde_json::to_value(json!({"prog": prog.id, "tr": tr, "drv": drvname})).unwrap();
    let status: String = {
        let built = match cached.take() {
            Some(rt) => Ok(rt),
            None => {
                let mut pb = ProactorBuilder::new();
                pb.driver_type(drv).buffer_pool_buffer_len(POOLBUF).buffer_pool_size(NonZero::new(POOLCNT).unwrap());
                RuntimeBuilder::new().with_proactor(pb).build()
            }
        };
        match built {
            Err(e) => {
                stats.driver_unavailable = Some(e.to_string());
                "nodriver".into()
            }
            Ok(rt) => {
                if rt.driver_type() != drv {
                    stats.driver_unavailable = Some(format!("asked {:?} got {:?}", drv, rt.driver_type()));
                }
                let c2 = ctx.clone();
                let c2b = ctx.clone();
                let p2 = prog.clone();
                let r = catch_unwind(AssertUnwindSafe(|| {
                    rt.block_on(async move {
                        match timeout(PROGRAM_WATCHDOG, async {
                            match tr {
                                "tcp" => tcp::run(&c2, &p2).await,
                                "unix" => unix::run(&c2, &p2).await,
                                _ => udp::run(&c2, &p2).await,
                            }
                        })
                        .await
                        {
                            Ok(Ok(())) => "ok".to_string(),
                            Ok(Err(e)) => format!("error: {e}"),
                            Err(_) => "hang".to_string(),
                        }
                    })
                }));
                let st = match r {
                    Ok(s) => s,
                    Err(p) => format!("panic: {}", panic_msg(p)),
                };
                if st == "ok" && c2b.errors.borrow().is_empty() {
                    // the runtime is reused by the next program of this combination (one driver
                    // instance serves many programs, as in an application)
                    *cached = Some(rt);
                } else {
                    // dropping the runtime cancels whatever is still pending
                    let _ = catch_unwind(AssertUnwindSafe(move || drop(rt)));
                }
                st
            }
        }
    };
    let mut status = status;
    for e in ctx.errors.borrow().iter() {
        if e.starts_with("PANIC") && status == "ok" {
            status = format!("panic: {e}");
        } else if status == "ok" {
            status = format!("error: {e}");
        }
    }
    log.ev(json!({"e": "done", "prog": prog.id, "status": status}));
    log.flush();
    progress.fetch_add(1, Ordering::Relaxed);
    stats.programs += 1;
    stats.events += log.events() - ev0;
    for (k, v) in ctx.kinds.borrow().iter() {
        *stats.kinds.entry(k.clone()).or_insert(0) += v;
    }
    for (k, v) in ctx.unsupported.borrow().iter() {
        *stats.unsupported.entry(k.clone()).or_insert(0) += v;
    }
    rep.cases += 1;
    if status == "hang" {
        stats.hangs += 1;
        rep.problem("hang", json!({"site": "socket", "tr": tr, "drv": drvname}),
                    format!("program {} did not finish within {:?}", prog.id, PROGRAM_WATCHDOG), &case, 0);
    } else if status.starts_with("panic") {
        rep.problem("panic", json!({"site": "socket", "tr": tr, "drv": drvname}), status.clone(), &case, 0);
    } else if status.starts_with("error") {
        rep.problem("error", json!({"site": "socket", "tr": tr, "drv": drvname}), status.clone(), &case, 0);
    } else if status == "nodriver" {
        rep.problem("nodriver", json!({"site": "socket", "tr": tr, "drv": drvname}), status.clone(), &case, 0);
    }
}

#[derive(Default)]
struct ComboStats {
    programs: u64,
    events: u64,
    kinds: BTreeMap<String, u64>,
    unsupported: BTreeMap<String, u64>,
    driver_unavailable: Option<String>,
    hangs: u64,
    stopped_after: Option<u64>,
}

fn main() {
    silence_panics();
    let args: Vec<String> = std::env::args().collect();
    if args.len() < 3 {
        eprintln!("usage: record_socket <programs.jsonl> <outdir> [tr:drv ...]");
        std::process::exit(2);
    }
    let progs: Vec<Prog> = std::fs::read_to_string(&args[1])
        .expect("read programs")
        .lines()
        .filter(|l| !l.trim().is_empty())
        .map(|l| serde_json::from_str(l).unwrap_or_else(|e| panic!("bad program {l}: {e}")))
        .collect();
    let outdir = PathBuf::from(&args[2]);
    std::fs::create_dir_all(&outdir).unwrap();
    let mut combos: Vec<(String, String)> = Vec::new();
    for a in &args[3..] {
        let (t, d) = a.split_once(':').expect("combo tr:drv");
        combos.push((t.to_string(), d.to_string()));
    }
    if combos.is_empty() {
        for t in ["tcp", "unix", "udp"] {
            for d in ["iour", "poll"] {
                combos.push((t.into(), d.into()));
            }
        }
    }
    // process-level watchdog: the recorder itself must never hang
    let progress = Arc::new(AtomicU64::new(0));
    {
        let p = progress.clone();
        std::thread::spawn(move || {
            let mut last = (0u64, std::time::Instant::now());
            loop {
                std::thread::sleep(Duration::from_secs(2));
                let cur = p.load(Ordering::Relaxed);
                if cur != last.0 {
                    last = (cur, std::time::Instant::now());
                } else if last.1.elapsed() > PROGRAM_WATCHDOG * 3 {
                    println!("{}", json!({"type": "hang", "sig": {"site": "socket", "tr": "process", "drv": "process"},
                        "desc": format!("recorder made no progress for {:?} after {} programs (driver blocked)", last.1.elapsed(), cur),
                        "case": {"after_programs": cur}, "step": 0}));
                    println!("{}", json!({"type": "summary", "cases": cur, "steps": 0, "aborted": true,
                        "problems": [{"type": "hang", "sig": {"site": "socket", "tr": "process", "drv": "process"}, "count": 1}]}));
                    std::process::exit(0);
                }
            }
        });
    }
    let mut rep = Report::new();
    let mut per_combo = serde_json::Map::new();
    let mut seq0 = 0u64;
    let mut run = std::process::id() as u64 * 1000;
    for (t, d) in &combos {
        let tr: &'static str = match t.as_str() {
            "tcp" => "tcp",
            "unix" => "unix",
            "udp" => "udp",
            _ => panic!("transport {t}"),
        };
        let (drv, drvname): (DriverType, &'static str) = match d.as_str() {
            "iour" => (DriverType::IoUring, "iour"),
            "poll" => (DriverType::Poll, "poll"),
            _ => panic!("driver {d}"),
        };
        let path = outdir.join(format!("trace_{tr}_{drvname}.ndjson"));
        let log = Rc::new(Log::create(&path, seq0).expect("create trace"));
        let mut stats = ComboStats::default();
        let mut cached: Option<compio_runtime::Runtime> = None;
        for p in &progs {
            let applicable = (p.t == "stream" && tr != "udp") || (p.t == "dgram" && tr == "udp");
            if !applicable {
                continue;
            }
            run += 1;
            run_one(tr, drv, drvname, p, &log, &outdir, run, &mut rep, &mut stats, &progress, &mut cached);
            if stats.driver_unavailable.is_some() && stats.programs >= 1 && stats.events <= 2 {
                break;
            }
            if stats.hangs >= MAX_HANGS {
                stats.stopped_after = Some(stats.programs);
                break;
            }
        }
        drop(cached);
        log.flush();
        seq0 = log.seq();
        rep.steps += stats.events;
        per_combo.insert(
            format!("{tr}:{drvname}"),
            json!({"programs": stats.programs, "events": stats.events, "kinds": stats.kinds,
                   "unsupported": stats.unsupported, "driver_unavailable": stats.driver_unavailable,
                   "hangs": stats.hangs, "stopped_after": stats.stopped_after,
                   "trace": path.to_string_lossy()}),
        );
    }
    rep.set("combos", Value::Object(per_combo));
    rep.finish();
}
