//! ndjson event log. Every event gets the next value of one per-process sequence number at the
//! moment it is logged (the recorder is single threaded: one compio runtime thread).
use std::{
    cell::{Cell, RefCell},
    fs::File,
    io::{BufWriter, Write},
    path::Path,
};

use serde_json::{Map, Value};

pub const PROGRAM_EVENT_LIMIT: u64 = 20000;

pub struct Log {
    seq: Cell<u64>,
    events: Cell<u64>,
    next_id: Cell<u64>,
    prog_events: Cell<u64>,
    out: RefCell<BufWriter<File>>,
}

impl Log {
    pub fn create(path: &Path, first_seq: u64) -> std::io::Result<Self> {
        Ok(Self {
            seq: Cell::new(first_seq),
            events: Cell::new(0),
            next_id: Cell::new(1),
            prog_events: Cell::new(0),
            out: RefCell::new(BufWriter::with_capacity(1 << 20, File::create(path)?)),
        })
    }

    /// A fresh operation id (call / ret / item events of one operation share it).
    pub fn op_id(&self) -> u64 {
        let i = self.next_id.get();
        self.next_id.set(i + 1);
        i
    }

    pub fn reset_ids(&self) {
        self.next_id.set(1);
        self.prog_events.set(0);
    }

    /// More events in one program than any program can legitimately produce: the loops of the
    /// recorder stop when this is true (a runaway stream must not fill the disk).
    pub fn over(&self) -> bool {
        self.prog_events.get() > PROGRAM_EVENT_LIMIT
    }

    pub fn ev(&self, v: Value) {
        self.prog_events.set(self.prog_events.get() + 1);
        if self.prog_events.get() > PROGRAM_EVENT_LIMIT + 16 {
            return;
        }
        let mut m = match v {
            Value::Object(m) => m,
            _ => Map::new(),
        };
        let s = self.seq.get() + 1;
        self.seq.set(s);
        self.events.set(self.events.get() + 1);
        m.insert("seq".into(), Value::from(s));
        let mut o = self.out.borrow_mut();
        let _ = serde_json::to_writer(&mut *o, &Value::Object(m));
        let _ = o.write_all(b"\n");
        // every event reaches the file at once: a process abort inside the code under test
        // (the supervisor judges what was recorded) must not lose the events that led to it
        let _ = o.flush();
    }

    pub fn events(&self) -> u64 {
        self.events.get()
    }

    pub fn seq(&self) -> u64 {
        self.seq.get()
    }

    pub fn flush(&self) {
        let _ = self.out.borrow_mut().flush();
    }
}
