// Included into `mod tcp` and `mod unix` of record_socket.rs (the two stream transports differ only
// in the items S, L, TR, bind_listener, connect_client, accepted_addr, peer_id).
//
// A stream program: nconn clients connect concurrently, the server accepts them with the kinds
// listed in `acc` (single accept / multishot incoming stream), then on the main connection
// (client 0) both peers run a writer task and a reader task concurrently.

use compio_net::{ReadHalf, WriteHalf};

enum Wr<'a> {
    Plain(&'a S),
    Half(WriteHalf<'a, S>),
}

impl<'a> Wr<'a> {
    fn s(&self) -> &S {
        match self {
            Wr::Plain(s) => s,
            Wr::Half(h) => h,
        }
    }

    async fn write(&mut self, b: Vec<u8>) -> BufResult<usize, Vec<u8>> {
        match self {
            Wr::Plain(s) => {
                let mut r: &S = s;
                r.write(b).await
            }
            Wr::Half(h) => h.write(b).await,
        }
    }

    async fn write_vectored(&mut self, b: [Vec<u8>; 2]) -> BufResult<usize, [Vec<u8>; 2]> {
        match self {
            Wr::Plain(s) => {
                let mut r: &S = s;
                r.write_vectored(b).await
            }
            Wr::Half(h) => h.write_vectored(b).await,
        }
    }

    async fn shutdown(&mut self) -> std::io::Result<()> {
        match self {
            Wr::Plain(s) => {
                let mut r: &S = s;
                r.shutdown().await
            }
            Wr::Half(h) => h.shutdown().await,
        }
    }
}

enum Rd<'a> {
    Plain(&'a S),
    Half(ReadHalf<'a, S>),
}

impl<'a> Rd<'a> {
    fn s(&self) -> &S {
        match self {
            Rd::Plain(s) => s,
            Rd::Half(h) => h,
        }
    }

    async fn read(&mut self, b: Vec<u8>) -> BufResult<usize, Vec<u8>> {
        match self {
            Rd::Plain(s) => {
                let mut r: &S = s;
                r.read(b).await
            }
            Rd::Half(h) => h.read(b).await,
        }
    }

    async fn read_vectored(&mut self, b: [Vec<u8>; 2]) -> BufResult<usize, [Vec<u8>; 2]> {
        match self {
            Rd::Plain(s) => {
                let mut r: &S = s;
                r.read_vectored(b).await
            }
            Rd::Half(h) => h.read_vectored(b).await,
        }
    }
}

/// items taken from one multishot stream at most (then it is dropped and the program goes on)
const MAX_ITEMS: u64 = 48;

fn fd_ok(s: &S) -> bool {
    use std::os::fd::AsRawFd;
    let fd = s.as_raw_fd();
    let mut ty: libc::c_int = 0;
    let mut len = std::mem::size_of::<libc::c_int>() as libc::socklen_t;
    let r = unsafe { libc::getsockopt(fd, libc::SOL_SOCKET, libc::SO_TYPE, &mut ty as *mut _ as *mut _, &mut len) };
    r == 0 && ty == libc::SOCK_STREAM
}

fn plan_of(ops: &[Op], salt: u32) -> Plan {
    let mut v = Vec::new();
    let mut b = 0u64;
    for o in ops {
        v.push((b, o.n));
        b += o.n;
    }
    Plan { ops: v, salt }
}

type Clients = Rc<RefCell<Vec<Option<(std::os::fd::RawFd, String)>>>>;

pub async fn run(ctx: &Rc<Ctx>, p: &Prog) -> Result<(), String> {
    use std::os::fd::AsRawFd;
    let (listener, laddr) = bind_listener(ctx).await.map_err(|e| format!("bind: {e}"))?;
    let kinds: Vec<String> = if p.acc.is_empty() { vec!["single".into()] } else { p.acc.clone() };
    let nconn = kinds.len();
    ctx.log.ev(json!({"e": "listen", "addr": laddr, "nconn": nconn}));
    let table: Clients = Rc::new(RefCell::new(vec![None; nconn]));
    let returned = Rc::new(std::cell::Cell::new(0usize));
    // clients connect concurrently
    let mut ch: Vec<JoinHandle<Option<(S, String)>>> = Vec::new();
    for i in 0..nconn {
        let c2 = ctx.clone();
        let la = laddr.clone();
        let t2 = table.clone();
        let r2 = returned.clone();
        ch.push(compio_runtime::spawn(async move {
            let id = c2.log.op_id();
            c2.kind("connect");
            c2.log.ev(json!({"e": "call", "id": id, "op": "connect", "conn": i}));
            let r = connect_client(&c2, &la, i).await;
            r2.set(r2.get() + 1);
            match r {
                Ok((s, a)) => {
                    t2.borrow_mut()[i] = Some((s.as_raw_fd(), a.clone()));
                    c2.log.ev(json!({"e": "ret", "id": id, "op": "connect", "res": "ok", "conn": i, "addr": a}));
                    Some((s, a))
                }
                Err(e) => {
                    c2.log.ev(json!({"e": "ret", "id": id, "op": "connect", "res": "err", "conn": i, "err": io_err(&e)}));
                    None
                }
            }
        }));
    }
    let accepted = accept_all(ctx, &listener, &kinds, &table, &returned).await;
    let mut clients: Vec<Option<(S, String)>> = Vec::new();
    for (i, h) in ch.into_iter().enumerate() {
        match timeout(STEP_TIMEOUT, h).await {
            Ok(Ok(c)) => clients.push(c),
            Ok(Err(e)) => {
                join_panic(ctx, "connect task", e);
                clients.push(None);
            }
            Err(_) => {
                ctx.err(format!("connect {i} did not return"));
                clients.push(None);
            }
        }
    }
    // what every client sees of its connection while the server still holds everything it was given
    let st: Vec<Value> = clients
        .iter()
        .enumerate()
        .map(|(i, c)| match c {
            Some((s, a)) => json!({"conn": i, "addr": a, "hup": probe(s.as_raw_fd()).1}),
            None => json!({"conn": i, "addr": Value::Null, "hup": false}),
        })
        .collect();
    ctx.log.ev(json!({"e": "clients", "state": st}));
    let main_client = clients.get_mut(0).and_then(|c| c.take());
    let Some((sa, a_addr)) = main_client else {
        return Err("main connection not established".into());
    };
    let mut sb: Option<S> = None;
    let mut others = Vec::new();
    for (s, peer) in accepted {
        if peer == a_addr && sb.is_none() {
            sb = Some(s);
        } else {
            others.push(s);
        }
    }
    let Some(sb) = sb else {
        // the oracle reports the lost connection from the history; nothing to run the data phase on
        ctx.log.ev(json!({"e": "note", "what": "main connection was not yielded by accept"}));
        return Ok(());
    };
    drop(others);
    drop(clients);
    set_sockbuf(sa.as_raw_fd());
    set_sockbuf(sb.as_raw_fd());
    let plan1 = plan_of(&p.a.w, (p.id as u32) * 4 + 1);
    let plan2 = plan_of(&p.b.w, (p.id as u32) * 4 + 2);
    let ha = compio_runtime::spawn(peer_task(ctx.clone(), "a", p.a.clone(), sa, plan1.clone(), plan2.clone(), 1, 2));
    let hb = compio_runtime::spawn(peer_task(ctx.clone(), "b", p.b.clone(), sb, plan2, plan1, 2, 1));
    if let Err(e) = ha.await {
        join_panic(ctx, "peer a", e);
    }
    if let Err(e) = hb.await {
        join_panic(ctx, "peer b", e);
    }
    drop(listener);
    Ok(())
}

/// After an incoming stream was dropped, connections may have been consumed without being
/// yielded.  Do not start an accept that could never complete: wait until the listener is
/// readable, or until every connection that was not yielded is seen hung up by its client.
async fn wait_pending(ctx: &Rc<Ctx>, listener: &L, table: &Clients, returned: &Rc<std::cell::Cell<usize>>,
                      yielded: &[String]) -> bool {
    use std::os::fd::AsRawFd;
    let t0 = std::time::Instant::now();
    loop {
        if probe(listener.as_raw_fd()).0 {
            return true;
        }
        let n = table.borrow().len();
        if returned.get() == n {
            let t = table.borrow();
            let un: Vec<usize> = (0..n).filter(|i| matches!(&t[*i], Some((_, a)) if !yielded.contains(a))).collect();
            let hup: Vec<usize> = un.iter().copied().filter(|i| probe(t[*i].as_ref().unwrap().0).1).collect();
            if un.len() == hup.len() {
                ctx.log.ev(json!({"e": "probe", "pending": false, "unyielded": un, "hup": hup}));
                return false;
            }
        }
        if t0.elapsed() > STEP_TIMEOUT {
            ctx.log.ev(json!({"e": "probe", "pending": false, "timeout": true}));
            return false;
        }
        compio_runtime::time::sleep(Duration::from_millis(2)).await;
    }
}

async fn accept_all(ctx: &Rc<Ctx>, listener: &L, kinds: &[String], table: &Clients,
                    returned: &Rc<std::cell::Cell<usize>>) -> Vec<(S, String)> {
    let mut out: Vec<(S, String)> = Vec::new();
    let mut careful = false;
    let mut j = 0usize;
    'outer: while j < kinds.len() {
        if kinds[j] == "multi" {
            // one incoming stream serves the maximal run of consecutive "multi" entries
            let sid = ctx.log.op_id();
            ctx.kind("incoming");
            ctx.log.ev(json!({"e": "call", "id": sid, "op": "incoming"}));
            let mut inc = listener.incoming();
            let mut ended = false;
            let mut polled = false;
            while j < kinds.len() && kinds[j] == "multi" {
                if careful && !polled {
                    let y: Vec<String> = out.iter().map(|x| x.1.clone()).collect();
                    if !wait_pending(ctx, listener, table, returned, &y).await {
                        drop(inc);
                        ctx.log.ev(json!({"e": "drop", "id": sid, "op": "incoming", "polled": polled}));
                        break 'outer;
                    }
                }
                let id = ctx.log.op_id();
                ctx.log.ev(json!({"e": "call", "id": id, "op": "accept", "kind": "multi", "of": sid}));
                polled = true;
                match timeout(STEP_TIMEOUT, inc.next()).await {
                    Ok(Some(Ok(s))) => {
                        let peer = peer_id(&s);
                        ctx.log.ev(json!({"e": "ret", "id": id, "op": "accept", "kind": "multi", "res": "ok", "addr": peer}));
                        out.push((s, peer));
                    }
                    Ok(Some(Err(e))) => {
                        ctx.log.ev(json!({"e": "ret", "id": id, "op": "accept", "kind": "multi", "res": "err", "err": io_err(&e)}));
                    }
                    Ok(None) => {
                        ctx.log.ev(json!({"e": "ret", "id": id, "op": "accept", "kind": "multi", "res": "end"}));
                        ended = true;
                    }
                    Err(_) => {
                        ctx.log.ev(json!({"e": "ret", "id": id, "op": "accept", "kind": "multi", "res": "timeout"}));
                    }
                }
                j += 1;
                if ended {
                    break;
                }
            }
            drop(inc);
            ctx.log.ev(json!({"e": "drop", "id": sid, "op": "incoming", "polled": polled}));
            careful = careful || polled;
        } else {
            if careful {
                let y: Vec<String> = out.iter().map(|x| x.1.clone()).collect();
                if !wait_pending(ctx, listener, table, returned, &y).await {
                    break 'outer;
                }
            }
            let id = ctx.log.op_id();
            ctx.kind("accept");
            ctx.log.ev(json!({"e": "call", "id": id, "op": "accept", "kind": "single"}));
            match timeout(STEP_TIMEOUT, listener.accept()).await {
                Ok(Ok((s, addr))) => {
                    let reported = accepted_addr(&addr);
                    let peer = peer_id(&s);
                    ctx.log.ev(json!({"e": "ret", "id": id, "op": "accept", "kind": "single", "res": "ok",
                                      "addr": reported, "peer": peer}));
                    out.push((s, reported));
                }
                Ok(Err(e)) => {
                    ctx.log.ev(json!({"e": "ret", "id": id, "op": "accept", "kind": "single", "res": "err", "err": io_err(&e)}));
                }
                Err(_) => {
                    ctx.log.ev(json!({"e": "ret", "id": id, "op": "accept", "kind": "single", "res": "timeout"}));
                }
            }
            j += 1;
        }
    }
    out
}

async fn peer_task(ctx: Rc<Ctx>, name: &'static str, peer: Peer, s: S, wplan: Plan, rplan: Plan, dw: u8, dr: u8) {
    ctx.log.ev(json!({"e": "split", "peer": name, "mode": peer.split, "ord": peer.ord}));
    let owned = peer.split == "owned";
    let borrowed = peer.split == "borrowed";
    let (rs, ws): (Rc<S>, Rc<S>) = if owned {
        let (r, w) = s.into_split();
        (Rc::new(r), Rc::new(w))
    } else {
        let rc = Rc::new(s);
        (rc.clone(), rc)
    };
    let wf = writer(ctx.clone(), name, ws, owned, borrowed, peer.w.clone(), wplan, dw);
    let rf = reader(ctx.clone(), name, rs, owned, borrowed, peer.r.clone(), rplan, dr);
    let res = match peer.ord.as_str() {
        "wr" => {
            let a = compio_runtime::spawn(wf).await;
            let b = compio_runtime::spawn(rf).await;
            [a, b]
        }
        "rw" => {
            let b = compio_runtime::spawn(rf).await;
            let a = compio_runtime::spawn(wf).await;
            [a, b]
        }
        _ => {
            let hw = compio_runtime::spawn(wf);
            let hr = compio_runtime::spawn(rf);
            [hw.await, hr.await]
        }
    };
    for r in res {
        if let Err(e) = r {
            join_panic(&ctx, name, e);
        }
    }
}

#[allow(clippy::too_many_arguments)]
async fn writer(ctx: Rc<Ctx>, name: &'static str, s: Rc<S>, owned: bool, borrowed: bool, ops: Vec<Op>, plan: Plan, d: u8) {
    {
        let mut w = if borrowed {
            let (rh, wh) = s.split();
            drop(rh);
            ctx.log.ev(json!({"e": "drop_half", "peer": name, "half": "r", "borrowed": true, "by": "w"}));
            Wr::Half(wh)
        } else {
            Wr::Plain(&s)
        };
        let log = &ctx.log;
        for (i, op) in ops.iter().enumerate() {
            let id = log.op_id();
            ctx.kind(&format!("s.{}", op.k));
            let head = merge(json!({"e": "call", "id": id, "op": op.k, "peer": name, "task": "w", "dir": d}),
                             send_fields(i, &plan, op));
            let rhead = json!({"e": "ret", "id": id, "op": op.k, "peer": name, "task": "w", "dir": d});
            let mut failed = false;
            match op.k.as_str() {
                "send" | "msg" => {
                    let buf = mk_send(&plan, i, &op.sh);
                    let sn = snap(&buf);
                    log.ev(head);
                    let (res, buf) = if op.k == "send" {
                        let BufResult(res, buf) = w.write(buf).await;
                        (res, buf)
                    } else {
                        let mut r: &S = w.s();
                        let BufResult(res, (buf, _c)) = r.write_with_ancillary(buf, AncillaryBuf::<CTRL>::new()).await;
                        (res, buf)
                    };
                    let (same, lensame, intact) = unchanged(&buf, &sn);
                    match res {
                        Ok(k) => log.ev(merge(rhead, json!({"res": "ok", "k": k, "same": same, "lensame": lensame, "intact": intact}))),
                        Err(e) => {
                            log.ev(merge(rhead, json!({"res": "err", "err": io_err(&e), "same": same, "lensame": lensame, "intact": intact})));
                            failed = true;
                        }
                    }
                }
                "sendv" | "msgv" => {
                    let bufs = mk_send2(&plan, i, &op.sh);
                    let sn = [snap(&bufs[0]), snap(&bufs[1])];
                    log.ev(merge(head, json!({"parts": [bufs[0].len(), bufs[1].len()]})));
                    let (res, bufs) = if op.k == "sendv" {
                        let BufResult(res, bufs) = w.write_vectored(bufs).await;
                        (res, bufs)
                    } else {
                        let mut r: &S = w.s();
                        let BufResult(res, (bufs, _c)) =
                            r.write_vectored_with_ancillary(bufs, AncillaryBuf::<CTRL>::new()).await;
                        (res, bufs)
                    };
                    let u0 = unchanged(&bufs[0], &sn[0]);
                    let u1 = unchanged(&bufs[1], &sn[1]);
                    let f = json!({"same": u0.0 && u1.0, "lensame": u0.1 && u1.1, "intact": u0.2 && u1.2});
                    match res {
                        Ok(k) => log.ev(merge(merge(rhead, f), json!({"res": "ok", "k": k}))),
                        Err(e) => {
                            log.ev(merge(merge(rhead, f), json!({"res": "err", "err": io_err(&e)})));
                            failed = true;
                        }
                    }
                }
                "zc" | "zcmsg" => {
                    let buf = mk_send(&plan, i, &op.sh);
                    let sn = snap(&buf);
                    log.ev(head);
                    let wid = log.op_id();
                    let whead = json!({"id": wid, "op": "zcwait", "of": id, "peer": name, "task": "w", "dir": d});
                    let mut r: &S = w.s();
                    let (res, mut buf) = if op.k == "zc" {
                        let BufResult(res, fut) = r.write_zerocopy(buf).await;
                        log_send_res(log, &rhead, &res);
                        log.ev(merge(json!({"e": "call"}), whead.clone()));
                        (res, fut.await)
                    } else {
                        let BufResult(res, fut) = r.write_zerocopy_with_ancillary(buf, AncillaryBuf::<CTRL>::new()).await;
                        log_send_res(log, &rhead, &res);
                        log.ev(merge(json!({"e": "call"}), whead.clone()));
                        let (b, _c) = fut.await;
                        (res, b)
                    };
                    let (same, lensame, intact) = unchanged(&buf, &sn);
                    log.ev(merge(merge(json!({"e": "ret"}), whead), json!({"res": "ok", "same": same, "lensame": lensame, "intact": intact})));
                    // the buffer is ours again: scribble over it (a premature hand-back would corrupt the stream)
                    for b in buf.iter_mut() {
                        *b = FILL;
                    }
                    failed = hard_err(&ctx, &op.k, &res);
                }
                "zcv" => {
                    let bufs = mk_send2(&plan, i, &op.sh);
                    let sn = [snap(&bufs[0]), snap(&bufs[1])];
                    log.ev(merge(head, json!({"parts": [bufs[0].len(), bufs[1].len()]})));
                    let wid = log.op_id();
                    let whead = json!({"id": wid, "op": "zcwait", "of": id, "peer": name, "task": "w", "dir": d});
                    let mut r: &S = w.s();
                    let BufResult(res, fut) = r.write_zerocopy_vectored(bufs).await;
                    log_send_res(log, &rhead, &res);
                    log.ev(merge(json!({"e": "call"}), whead.clone()));
                    let mut bufs = fut.await;
                    let u0 = unchanged(&bufs[0], &sn[0]);
                    let u1 = unchanged(&bufs[1], &sn[1]);
                    log.ev(merge(merge(json!({"e": "ret"}), whead),
                                 json!({"res": "ok", "same": u0.0 && u1.0, "lensame": u0.1 && u1.1, "intact": u0.2 && u1.2})));
                    for v in bufs.iter_mut() {
                        for b in v.iter_mut() {
                            *b = FILL;
                        }
                    }
                    failed = hard_err(&ctx, &op.k, &res);
                }
                other => {
                    log.ev(merge(head, json!({"skipped": true})));
                    ctx.err(format!("unknown stream send kind {other}"));
                }
            }
            if failed {
                break;
            }
        }
        // half-close
        let id = log.op_id();
        ctx.kind("s.shutdown");
        log.ev(json!({"e": "call", "id": id, "op": "shutdown", "peer": name, "task": "w", "dir": d}));
        match w.shutdown().await {
            Ok(()) => log.ev(json!({"e": "ret", "id": id, "op": "shutdown", "peer": name, "task": "w", "dir": d, "res": "ok"})),
            Err(e) => log.ev(json!({"e": "ret", "id": id, "op": "shutdown", "peer": name, "task": "w", "dir": d, "res": "err", "err": io_err(&e)})),
        }
        log.ev(json!({"e": "fdcheck", "peer": name, "half": "w", "ok": fd_ok(w.s())}));
    }
    let last = Rc::strong_count(&s) == 1;
    drop(s);
    if owned {
        ctx.log.ev(json!({"e": "drop_half", "peer": name, "half": "w", "borrowed": false, "by": "w", "last": last}));
    }
}

fn log_send_res(log: &Log, rhead: &Value, res: &std::io::Result<usize>) {
    match res {
        Ok(k) => log.ev(merge(rhead.clone(), json!({"res": "ok", "k": k}))),
        Err(e) if e.kind() == std::io::ErrorKind::Unsupported => {
            log.ev(merge(rhead.clone(), json!({"res": "unsupported", "err": io_err(e)})))
        }
        Err(e) => log.ev(merge(rhead.clone(), json!({"res": "err", "err": io_err(e)}))),
    }
}

fn hard_err(ctx: &Ctx, kind: &str, res: &std::io::Result<usize>) -> bool {
    match res {
        Ok(_) => false,
        Err(e) if e.kind() == std::io::ErrorKind::Unsupported => {
            ctx.unsupported(&format!("s.{kind}"));
            false
        }
        Err(_) => true,
    }
}

#[allow(clippy::too_many_arguments)]
async fn reader(ctx: Rc<Ctx>, name: &'static str, s: Rc<S>, owned: bool, borrowed: bool, ops: Vec<Op>, plan: Plan, d: u8) {
    {
        let mut r = if borrowed {
            let (rh, wh) = s.split();
            drop(wh);
            ctx.log.ev(json!({"e": "drop_half", "peer": name, "half": "w", "borrowed": true, "by": "r"}));
            Rd::Half(rh)
        } else {
            Rd::Plain(&s)
        };
        let log = &ctx.log;
        let mut dec = Decoder::new(plan);
        let mut eof = false;
        let mut i = 0usize;
        let drain = Op { k: "recv".into(), c: DRAIN_CAP as u64, sh: "exact".into(), ..Default::default() };
        // after a multishot stream was dropped before its end the next bytes are received with a
        // plain receive of moderate capacity, so that the position in the stream is known again
        // before tiny buffers are used (dropping such a stream can lose bytes, see notes/C14.md)
        let resync = Op { k: "recv".into(), c: 64, sh: "exact".into(), ..Default::default() };
        let mut need_resync = false;
        let mut guard = 0u64;
        while !eof {
            let (op, draining) = if need_resync {
                (&resync, true)
            } else if i < ops.len() {
                i += 1;
                (&ops[i - 1], false)
            } else {
                (&drain, true)
            };
            need_resync = false;
            guard += 1;
            if guard > 4096 || log.over() {
                ctx.err("reader exceeded the operation / event limit".into());
                break;
            }
            let id = log.op_id();
            ctx.kind(&format!("r.{}", op.k));
            let c = op.c as usize;
            let head = json!({"e": "call", "id": id, "op": op.k, "peer": name, "task": "r", "dir": d, "c": c, "sh": op.sh,
                              "drain": draining});
            let rhead = json!({"e": "ret", "id": id, "op": op.k, "peer": name, "task": "r", "dir": d});
            let mut failed = false;
            match op.k.as_str() {
                "recv" | "msg" => {
                    let buf = mk_recv(c, &op.sh);
                    let (ptr, cap) = (buf.as_ptr() as usize, buf.capacity());
                    log.ev(merge(head, json!({"caps": [cap]})));
                    let (res, buf, extra) = if op.k == "recv" {
                        let BufResult(res, buf) = r.read(buf).await;
                        (res, buf, json!({}))
                    } else {
                        let mut q: &S = r.s();
                        let BufResult(res, (buf, ctl)) = q.read_with_ancillary(buf, AncillaryBuf::<CTRL>::new()).await;
                        match res {
                            Ok((k, cl, fl)) => (Ok(k), buf, json!({"clen": cl, "flags": fl.bits(), "ctl_len": ctl.len()})),
                            Err(e) => (Err(e), buf, json!({})),
                        }
                    };
                    match res {
                        Ok(k) => {
                            let runs = dec.decode(raw(&buf, k));
                            log.ev(merge(merge(merge(rhead, extra), runs_fields(&runs, raw(&buf, k))), json!({"res": "ok", "k": k,
                                "len": buf.len(), "cap": buf.capacity(), "same": buf.as_ptr() as usize == ptr && buf.capacity() == cap})));
                            eof = k == 0 && cap > 0;
                        }
                        Err(e) => {
                            log.ev(merge(rhead, json!({"res": "err", "err": io_err(&e)})));
                            failed = true;
                        }
                    }
                }
                "recvv" | "msgv" => {
                    let (c1, c2) = split2(c);
                    let bufs = [mk_recv(c1, &op.sh), mk_recv(c2, &op.sh)];
                    let ptrs = [bufs[0].as_ptr() as usize, bufs[1].as_ptr() as usize];
                    let caps = [bufs[0].capacity(), bufs[1].capacity()];
                    log.ev(merge(head, json!({"caps": caps})));
                    let (res, bufs, extra) = if op.k == "recvv" {
                        let BufResult(res, bufs) = r.read_vectored(bufs).await;
                        (res, bufs, json!({}))
                    } else {
                        let mut q: &S = r.s();
                        let BufResult(res, (bufs, ctl)) =
                            q.read_vectored_with_ancillary(bufs, AncillaryBuf::<CTRL>::new()).await;
                        match res {
                            Ok((k, cl, fl)) => (Ok(k), bufs, json!({"clen": cl, "flags": fl.bits(), "ctl_len": ctl.len()})),
                            Err(e) => (Err(e), bufs, json!({})),
                        }
                    };
                    match res {
                        Ok(k) => {
                            let k0 = k.min(caps[0]);
                            let mut data = raw(&bufs[0], k0).to_vec();
                            data.extend_from_slice(raw(&bufs[1], k - k0));
                            let runs = dec.decode(&data);
                            let same = bufs[0].as_ptr() as usize == ptrs[0] && bufs[1].as_ptr() as usize == ptrs[1]
                                && bufs[0].capacity() == caps[0] && bufs[1].capacity() == caps[1];
                            log.ev(merge(merge(merge(rhead, extra), runs_fields(&runs, &data)), json!({"res": "ok", "k": k,
                                "lens": [bufs[0].len(), bufs[1].len()], "len": bufs[0].len() + bufs[1].len(),
                                "cap": caps[0] + caps[1], "same": same})));
                            eof = k == 0 && caps[0] + caps[1] > 0;
                        }
                        Err(e) => {
                            log.ev(merge(rhead, json!({"res": "err", "err": io_err(&e)})));
                            failed = true;
                        }
                    }
                }
                "managed" | "msgmanaged" => {
                    log.ev(head);
                    let mut q: &S = r.s();
                    let res = if op.k == "managed" {
                        q.read_managed(c).await.map(|o| o.map(|b| (b, json!({}))))
                    } else {
                        q.read_managed_with_ancillary(c, AncillaryBuf::<CTRL>::new())
                            .await
                            .map(|o| o.map(|(b, ctl, fl)| (b, json!({"flags": fl.bits(), "ctl_len": ctl.len()}))))
                    };
                    match res {
                        Ok(Some((b, extra))) => {
                            let runs = dec.decode(&b);
                            log.ev(merge(merge(merge(rhead, extra), runs_fields(&runs, &b)), json!({"res": "ok", "k": b.len(), "len": b.len()})));
                            drop(b);
                        }
                        Ok(None) => {
                            log.ev(merge(rhead, json!({"res": "ok", "k": 0, "runs": [], "none": true})));
                            eof = true;
                        }
                        Err(e) => {
                            if e.kind() == std::io::ErrorKind::Unsupported {
                                ctx.unsupported(&format!("r.{}", op.k));
                                log.ev(merge(rhead, json!({"res": "unsupported", "err": io_err(&e)})));
                            } else if is_nobufs(&e) {
                                log.ev(merge(rhead, json!({"res": "nobufs", "err": io_err(&e)})));
                            } else {
                                log.ev(merge(rhead, json!({"res": "err", "err": io_err(&e)})));
                                failed = true;
                            }
                        }
                    }
                }
                "multi" | "msgmulti" => {
                    log.ev(merge(head, json!({"it": op.it})));
                    let mut q: &S = r.s();
                    let mut taken = 0u64;
                    let mut ended = false;
                    let mut emptyitem = false;
                    macro_rules! consume {
                        ($st:expr, $data:expr, $extra:expr) => {{
                            let mut st = std::pin::pin!($st);
                            let mut nobufs = 0u32;
                            while (op.it == 0 || taken < op.it) && !log.over() {
                                match st.next().await {
                                    Some(Ok(item)) => {
                                        let data: &[u8] = $data(&item);
                                        let runs = dec.decode(data);
                                        let ex: Value = $extra(&item);
                                        let empty = data.is_empty();
                                        log.ev(merge(merge(merge(json!({"e": "item", "id": id, "op": op.k, "peer": name, "task": "r", "dir": d}), ex),
                                                           runs_fields(&runs, data)),
                                                     json!({"res": "ok", "k": data.len(), "len": data.len()})));
                                        taken += 1;
                                        drop(item);
                                        if empty || taken >= MAX_ITEMS {
                                            // an item without payload: a stream of ancillary results never ends by
                                            // itself, the end of the byte stream shows as empty items. Stop taking
                                            // items; whether this is the end is decided by the next plain receive.
                                            emptyitem = empty;
                                            break;
                                        }
                                    }
                                    Some(Err(e)) => {
                                        let unsup = e.kind() == std::io::ErrorKind::Unsupported;
                                        let nobuf = is_nobufs(&e);
                                        log.ev(json!({"e": "item", "id": id, "op": op.k, "peer": name, "task": "r", "dir": d,
                                                      "res": if unsup { "unsupported" } else if nobuf { "nobufs" } else { "err" }, "err": io_err(&e)}));
                                        if unsup {
                                            ctx.unsupported(&format!("r.{}", op.k));
                                            break;
                                        }
                                        nobufs += 1;
                                        if !nobuf || nobufs > 64 {
                                            failed = true;
                                            break;
                                        }
                                    }
                                    None => {
                                        log.ev(json!({"e": "end", "id": id, "op": op.k, "peer": name, "task": "r", "dir": d}));
                                        ended = true;
                                        break;
                                    }
                                }
                            }
                        }};
                    }
                    if op.k == "multi" {
                        consume!(q.read_multi(c), |b: &compio_driver::BufferRef| -> &[u8] { unsafe { &*(&b[..] as *const [u8]) } },
                                 |_b: &compio_driver::BufferRef| json!({}));
                    } else {
                        consume!(q.read_multi_with_ancillary(CTRL),
                                 |b: &compio_driver::op::RecvMsgMultiResult| -> &[u8] { unsafe { &*(b.data() as *const [u8]) } },
                                 |b: &compio_driver::op::RecvMsgMultiResult| json!({"flags": b.flags().bits(), "ctl_len": b.ancillary().len()}));
                    }
                    if ended {
                        eof = true;
                    } else {
                        log.ev(json!({"e": "drop", "id": id, "op": op.k, "peer": name, "task": "r", "dir": d, "taken": taken,
                                      "emptyitem": emptyitem}));
                        need_resync = true;
                        dec.lossy = true;
                    }
                }
                other => {
                    log.ev(merge(head, json!({"skipped": true})));
                    ctx.err(format!("unknown stream recv kind {other}"));
                }
            }
            if failed {
                break;
            }
        }
        log.ev(json!({"e": "fdcheck", "peer": name, "half": "r", "ok": fd_ok(r.s())}));
    }
    let last = Rc::strong_count(&s) == 1;
    drop(s);
    if owned {
        ctx.log.ev(json!({"e": "drop_half", "peer": name, "half": "r", "borrowed": false, "by": "r", "last": last}));
    }
}
