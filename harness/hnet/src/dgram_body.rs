// Included into `mod udp` of record_socket.rs.
//
// A datagram program: sockets A and B (and optionally C) bound to 127.0.0.1:0.  A's writer sends
// to B, B's writer sends to A, C's writer sends to B concurrently with A's (two sources, the
// arrival order at B is decided by the kernel).  Readers receive as many datagrams as their peers
// can send (payloads above the UDP maximum are expected to fail with EMSGSIZE).

pub const MAXDG: u64 = 65507;

fn uid_base(peer: &str) -> u8 {
    match peer {
        "a" => 0,
        "b" => 40,
        _ => 80,
    }
}

pub async fn run(ctx: &Rc<Ctx>, p: &Prog) -> Result<(), String> {
    let sa = Rc::new(UdpSocket::bind("127.0.0.1:0").await.map_err(|e| format!("bind a: {e}"))?);
    let sb = Rc::new(UdpSocket::bind("127.0.0.1:0").await.map_err(|e| format!("bind b: {e}"))?);
    let aa = sa.local_addr().map_err(|e| e.to_string())?;
    let ab = sb.local_addr().map_err(|e| e.to_string())?;
    let cpeer = if p.conn { None } else { p.c.clone() };
    let sc = match &cpeer {
        Some(_) => Some(Rc::new(UdpSocket::bind("127.0.0.1:0").await.map_err(|e| format!("bind c: {e}"))?)),
        None => None,
    };
    let ac = sc.as_ref().map(|s| s.local_addr().unwrap());
    if p.conn {
        sa.connect(ab).await.map_err(|e| format!("connect a: {e}"))?;
        sb.connect(aa).await.map_err(|e| format!("connect b: {e}"))?;
    }
    ctx.log.ev(json!({"e": "socks", "a": aa.to_string(), "b": ab.to_string(), "c": ac.map(|a| a.to_string()), "conn": p.conn}));
    let salt = p.id as u32;
    let sendable = |ops: &[Op]| ops.iter().filter(|o| o.n <= MAXDG).count() as u64;
    let exp_a = sendable(&p.b.w);
    let exp_b = sendable(&p.a.w) + cpeer.as_ref().map(|c| sendable(&c.w)).unwrap_or(0);
    let mut hs: Vec<(&'static str, JoinHandle<()>)> = Vec::new();
    let wdone = Rc::new(std::cell::Cell::new(0usize));
    let nw = if cpeer.is_some() { 3 } else { 2 };
    let w = |f| {
        let wd = wdone.clone();
        async move {
            let () = f.await;
            wd.set(wd.get() + 1);
        }
    };
    hs.push(("a.w", compio_runtime::spawn(w(writer(ctx.clone(), "a", sa.clone(), ab, "b", p.a.w.clone(), salt)))));
    hs.push(("b.w", compio_runtime::spawn(w(writer(ctx.clone(), "b", sb.clone(), aa, "a", p.b.w.clone(), salt)))));
    if let (Some(c), Some(sc)) = (&cpeer, &sc) {
        hs.push(("c.w", compio_runtime::spawn(w(writer(ctx.clone(), "c", sc.clone(), ab, "b", c.w.clone(), salt)))));
    }
    hs.push(("a.r", compio_runtime::spawn(reader(ctx.clone(), "a", sa.clone(), p.a.r.clone(), exp_a, salt, wdone.clone(), nw))));
    hs.push(("b.r", compio_runtime::spawn(reader(ctx.clone(), "b", sb.clone(), p.b.r.clone(), exp_b, salt, wdone.clone(), nw))));
    for (n, h) in hs {
        if let Err(e) = h.await {
            join_panic(ctx, n, e);
        }
    }
    Ok(())
}

fn mk_dg(uid: u8, n: usize, sh: &str, salt: u32) -> Vec<u8> {
    let mut v = Vec::with_capacity(n + extra(sh));
    v.resize(n, 0);
    dgram_fill(uid, salt, &mut v);
    v
}

fn mk_dg2(uid: u8, n: usize, sh: &str, salt: u32) -> [Vec<u8>; 2] {
    let whole = mk_dg(uid, n, "exact", salt);
    let (n1, n2) = split2(n);
    let mut a = Vec::with_capacity(n1 + extra(sh));
    a.extend_from_slice(&whole[..n1]);
    let mut b = Vec::with_capacity(n2 + extra(sh));
    b.extend_from_slice(&whole[n1..]);
    [a, b]
}

async fn writer(ctx: Rc<Ctx>, name: &'static str, s: Rc<UdpSocket>, to: std::net::SocketAddr, toname: &'static str,
                ops: Vec<Op>, salt: u32) {
    let log = &ctx.log;
    for (i, op) in ops.iter().enumerate() {
        let id = log.op_id();
        let uid = uid_base(name) + i as u8 + 1;
        let n = op.n as usize;
        ctx.kind(&format!("s.{}", op.k));
        let head = json!({"e": "call", "id": id, "op": op.k, "peer": name, "task": "w", "to": toname, "uid": uid, "n": n, "sh": op.sh});
        let rhead = json!({"e": "ret", "id": id, "op": op.k, "peer": name, "task": "w", "to": toname, "uid": uid});
        let fin = |res: std::io::Result<usize>, f: Value| match res {
            Ok(k) => log.ev(merge(merge(rhead.clone(), f), json!({"res": "ok", "k": k}))),
            Err(e) => log.ev(merge(merge(rhead.clone(), f), json!({"res": "err", "err": io_err(&e)}))),
        };
        let wid = log.op_id();
        let whead = json!({"id": wid, "op": "zcwait", "of": id, "peer": name, "task": "w", "to": toname, "uid": uid});
        match op.k.as_str() {
            "sendto" | "send" | "sendmsg" => {
                let buf = mk_dg(uid, n, &op.sh, salt);
                let sn = snap(&buf);
                log.ev(head);
                let (res, buf) = match op.k.as_str() {
                    "sendto" => {
                        let BufResult(r, b) = s.send_to(buf, to).await;
                        (r, b)
                    }
                    "send" => {
                        let BufResult(r, b) = s.send(buf).await;
                        (r, b)
                    }
                    _ => {
                        let BufResult(r, (b, _c)) = s.send_msg(buf, AncillaryBuf::<CTRL>::new(), to).await;
                        (r, b)
                    }
                };
                let u = unchanged(&buf, &sn);
                fin(res, json!({"same": u.0, "lensame": u.1, "intact": u.2}));
            }
            "sendtov" | "sendv" | "sendmsgv" => {
                let bufs = mk_dg2(uid, n, &op.sh, salt);
                let sn = [snap(&bufs[0]), snap(&bufs[1])];
                log.ev(merge(head, json!({"parts": [bufs[0].len(), bufs[1].len()]})));
                let (res, bufs) = match op.k.as_str() {
                    "sendtov" => {
                        let BufResult(r, b) = s.send_to_vectored(bufs, to).await;
                        (r, b)
                    }
                    "sendv" => {
                        let BufResult(r, b) = s.send_vectored(bufs).await;
                        (r, b)
                    }
                    _ => {
                        let BufResult(r, (b, _c)) = s.send_msg_vectored(bufs, AncillaryBuf::<CTRL>::new(), to).await;
                        (r, b)
                    }
                };
                let u0 = unchanged(&bufs[0], &sn[0]);
                let u1 = unchanged(&bufs[1], &sn[1]);
                fin(res, json!({"same": u0.0 && u1.0, "lensame": u0.1 && u1.1, "intact": u0.2 && u1.2}));
            }
            "zcto" | "zc" | "zcmsgto" => {
                let buf = mk_dg(uid, n, &op.sh, salt);
                let sn = snap(&buf);
                log.ev(head);
                let mut buf = match op.k.as_str() {
                    "zcto" => {
                        let BufResult(r, fut) = s.send_to_zerocopy(buf, to).await;
                        fin(r, json!({}));
                        log.ev(merge(json!({"e": "call"}), whead.clone()));
                        fut.await
                    }
                    "zc" => {
                        let BufResult(r, fut) = s.send_zerocopy(buf).await;
                        fin(r, json!({}));
                        log.ev(merge(json!({"e": "call"}), whead.clone()));
                        fut.await
                    }
                    _ => {
                        let BufResult(r, fut) = s.send_msg_zerocopy(buf, AncillaryBuf::<CTRL>::new(), to).await;
                        fin(r, json!({}));
                        log.ev(merge(json!({"e": "call"}), whead.clone()));
                        fut.await.0
                    }
                };
                let u = unchanged(&buf, &sn);
                log.ev(merge(merge(json!({"e": "ret"}), whead), json!({"res": "ok", "same": u.0, "lensame": u.1, "intact": u.2})));
                for b in buf.iter_mut() {
                    *b = FILL;
                }
            }
            "zctov" | "zcv" => {
                let bufs = mk_dg2(uid, n, &op.sh, salt);
                let sn = [snap(&bufs[0]), snap(&bufs[1])];
                log.ev(merge(head, json!({"parts": [bufs[0].len(), bufs[1].len()]})));
                let mut bufs = if op.k == "zctov" {
                    let BufResult(r, fut) = s.send_to_zerocopy_vectored(bufs, to).await;
                    fin(r, json!({}));
                    log.ev(merge(json!({"e": "call"}), whead.clone()));
                    fut.await
                } else {
                    let BufResult(r, fut) = s.send_zerocopy_vectored(bufs).await;
                    fin(r, json!({}));
                    log.ev(merge(json!({"e": "call"}), whead.clone()));
                    fut.await
                };
                let u0 = unchanged(&bufs[0], &sn[0]);
                let u1 = unchanged(&bufs[1], &sn[1]);
                log.ev(merge(merge(json!({"e": "ret"}), whead),
                             json!({"res": "ok", "same": u0.0 && u1.0, "lensame": u0.1 && u1.1, "intact": u0.2 && u1.2})));
                for v in bufs.iter_mut() {
                    for b in v.iter_mut() {
                        *b = FILL;
                    }
                }
            }
            other => {
                log.ev(merge(head, json!({"skipped": true})));
                ctx.err(format!("unknown dgram send kind {other}"));
            }
        }
    }
}

fn sa_str(a: &Option<socket2::SockAddr>) -> Value {
    match a {
        Some(a) => match a.as_socket() {
            Some(s) => json!(s.to_string()),
            None => json!(format!("{a:?}")),
        },
        None => Value::Null,
    }
}

/// After a multishot receive stream was dropped, datagrams may have been consumed without being
/// yielded: do not start a receive that could never complete.
async fn wait_readable(s: &UdpSocket, wdone: &std::cell::Cell<usize>, nw: usize) -> bool {
    use std::os::fd::AsRawFd;
    let t0 = std::time::Instant::now();
    let mut quiet: Option<std::time::Instant> = None;
    loop {
        if probe(s.as_raw_fd()).0 {
            return true;
        }
        if wdone.get() == nw {
            match quiet {
                None => quiet = Some(std::time::Instant::now()),
                Some(q) if q.elapsed() > Duration::from_millis(150) => return false,
                _ => {}
            }
        }
        if t0.elapsed() > STEP_TIMEOUT {
            return false;
        }
        compio_runtime::time::sleep(Duration::from_millis(2)).await;
    }
}

#[allow(clippy::too_many_arguments)]
async fn reader(ctx: Rc<Ctx>, name: &'static str, s: Rc<UdpSocket>, ops: Vec<Op>, expect: u64, salt: u32,
                wdone: Rc<std::cell::Cell<usize>>, nw: usize) {
    let log = &ctx.log;
    let mut careful = false;
    let fallback = Op { k: "recvfrom".into(), c: DRAIN_CAP as u64, sh: "exact".into(), ..Default::default() };
    let mut got = 0u64;
    let mut i = 0usize;
    while got < expect && !log.over() {
        let op = if ops.is_empty() { &fallback } else { &ops[i % ops.len()] };
        i += 1;
        if careful && !wait_readable(&s, &wdone, nw).await {
            log.ev(json!({"e": "probe", "peer": name, "pending": false, "got": got, "expect": expect}));
            break;
        }
        let id = log.op_id();
        ctx.kind(&format!("r.{}", op.k));
        let c = op.c as usize;
        let head = json!({"e": "call", "id": id, "op": op.k, "peer": name, "task": "r", "c": c, "sh": op.sh});
        let rhead = json!({"e": "ret", "id": id, "op": op.k, "peer": name, "task": "r"});
        let obs = |data: &[u8]| -> Value {
            let (uid, ok) = dgram_decode(data, salt);
            json!({"k": data.len(), "uid": uid, "ok": ok})
        };
        let mut stop = false;
        match op.k.as_str() {
            "recvfrom" | "recv" | "recvmsg" => {
                let buf = mk_recv(c, &op.sh);
                let (ptr, cap) = (buf.as_ptr() as usize, buf.capacity());
                log.ev(merge(head, json!({"caps": [cap]})));
                let fut = async {
                    match op.k.as_str() {
                        "recvfrom" => {
                            let BufResult(r, b) = s.recv_from(buf).await;
                            (r.map(|(k, a)| (k, json!({"src": a.to_string()}))), b)
                        }
                        "recv" => {
                            let BufResult(r, b) = s.recv(buf).await;
                            (r.map(|k| (k, json!({}))), b)
                        }
                        _ => {
                            let BufResult(r, (b, ctl)) = s.recv_msg(buf, AncillaryBuf::<CTRL>::new()).await;
                            (r.map(|(k, cl, a, fl)| (k, json!({"src": a.to_string(), "flags": fl.bits(), "clen": cl, "ctl_len": ctl.len()}))), b)
                        }
                    }
                };
                match timeout(STEP_TIMEOUT, fut).await {
                    Ok((Ok((k, ex)), buf)) => {
                        log.ev(merge(merge(merge(rhead, ex), obs(raw(&buf, k))),
                                     json!({"res": "ok", "k": k, "len": buf.len(), "cap": buf.capacity(),
                                            "same": buf.as_ptr() as usize == ptr && buf.capacity() == cap})));
                        got += 1;
                    }
                    Ok((Err(e), _)) => {
                        log.ev(merge(rhead, json!({"res": "err", "err": io_err(&e)})));
                        stop = true;
                    }
                    Err(_) => {
                        log.ev(merge(rhead, json!({"res": "timeout"})));
                        stop = true;
                    }
                }
            }
            "recvfromv" | "recvv" | "recvmsgv" => {
                let (c1, c2) = split2(c);
                let bufs = [mk_recv(c1, &op.sh), mk_recv(c2, &op.sh)];
                let ptrs = [bufs[0].as_ptr() as usize, bufs[1].as_ptr() as usize];
                let caps = [bufs[0].capacity(), bufs[1].capacity()];
                log.ev(merge(head, json!({"caps": caps})));
                let fut = async {
                    match op.k.as_str() {
                        "recvfromv" => {
                            let BufResult(r, b) = s.recv_from_vectored(bufs).await;
                            (r.map(|(k, a)| (k, json!({"src": a.to_string()}))), b)
                        }
                        "recvv" => {
                            let BufResult(r, b) = s.recv_vectored(bufs).await;
                            (r.map(|k| (k, json!({}))), b)
                        }
                        _ => {
                            let BufResult(r, (b, ctl)) = s.recv_msg_vectored(bufs, AncillaryBuf::<CTRL>::new()).await;
                            (r.map(|(k, cl, a, fl)| (k, json!({"src": a.to_string(), "flags": fl.bits(), "clen": cl, "ctl_len": ctl.len()}))), b)
                        }
                    }
                };
                match timeout(STEP_TIMEOUT, fut).await {
                    Ok((Ok((k, ex)), bufs)) => {
                        let k0 = k.min(caps[0]);
                        let k1 = (k - k0).min(caps[1]);
                        let mut data = raw(&bufs[0], k0).to_vec();
                        data.extend_from_slice(raw(&bufs[1], k1));
                        let same = bufs[0].as_ptr() as usize == ptrs[0] && bufs[1].as_ptr() as usize == ptrs[1]
                            && bufs[0].capacity() == caps[0] && bufs[1].capacity() == caps[1];
                        log.ev(merge(merge(merge(rhead, ex), obs(&data)),
                                     json!({"res": "ok", "k": k, "lens": [bufs[0].len(), bufs[1].len()],
                                            "len": bufs[0].len() + bufs[1].len(), "cap": caps[0] + caps[1], "same": same})));
                        got += 1;
                    }
                    Ok((Err(e), _)) => {
                        log.ev(merge(rhead, json!({"res": "err", "err": io_err(&e)})));
                        stop = true;
                    }
                    Err(_) => {
                        log.ev(merge(rhead, json!({"res": "timeout"})));
                        stop = true;
                    }
                }
            }
            "managed" | "fmanaged" | "mmanaged" => {
                log.ev(head);
                let fut = async {
                    match op.k.as_str() {
                        "managed" => s.recv_managed(c).await.map(|o| o.map(|b| (b, json!({})))),
                        "fmanaged" => s.recv_from_managed(c).await.map(|o| o.map(|(b, a)| (b, json!({"src": a.to_string()})))),
                        _ => s.recv_msg_managed(c, AncillaryBuf::<CTRL>::new()).await.map(|o| {
                            o.map(|(b, ctl, a, fl)| (b, json!({"src": a.to_string(), "flags": fl.bits(), "ctl_len": ctl.len()})))
                        }),
                    }
                };
                match timeout(STEP_TIMEOUT, fut).await {
                    Ok(Ok(Some((b, ex)))) => {
                        log.ev(merge(merge(merge(rhead, ex), obs(&b)), json!({"res": "ok", "len": b.len()})));
                        got += 1;
                    }
                    Ok(Ok(None)) => {
                        log.ev(merge(rhead, json!({"res": "ok", "k": 0, "uid": 0, "ok": true, "none": true})));
                        got += 1;
                    }
                    Ok(Err(e)) => {
                        if e.kind() == std::io::ErrorKind::Unsupported {
                            ctx.unsupported(&format!("r.{}", op.k));
                            log.ev(merge(rhead, json!({"res": "unsupported", "err": io_err(&e)})));
                        } else if is_nobufs(&e) {
                            log.ev(merge(rhead, json!({"res": "nobufs", "err": io_err(&e)})));
                        } else {
                            log.ev(merge(rhead, json!({"res": "err", "err": io_err(&e)})));
                            stop = true;
                        }
                    }
                    Err(_) => {
                        log.ev(merge(rhead, json!({"res": "timeout"})));
                        stop = true;
                    }
                }
            }
            "multi" | "fmulti" | "mmulti" => {
                let want = if op.it == 0 { expect - got } else { op.it.min(expect - got) };
                log.ev(merge(head, json!({"it": want})));
                let mut taken = 0u64;
                let mut ended = false;
                let mut exhausted = false;
                macro_rules! consume {
                    ($st:expr, $data:expr, $extra:expr) => {{
                        let mut st = std::pin::pin!($st);
                        let mut nobufs = 0u32;
                        while taken < want && !log.over() {
                            // after an earlier multishot stream was dropped datagrams may be gone: once every
                            // writer has finished a quiet stream means there is nothing left to wait for
                            let next = if careful {
                                let t0 = std::time::Instant::now();
                                loop {
                                    match timeout(Duration::from_millis(250), st.next()).await {
                                        Ok(x) => break Ok(x),
                                        Err(_) if wdone.get() == nw => {
                                            exhausted = true;
                                            break Err(());
                                        }
                                        Err(_) if t0.elapsed() > STEP_TIMEOUT => break Err(()),
                                        Err(_) => {}
                                    }
                                }
                            } else {
                                timeout(STEP_TIMEOUT, st.next()).await.map_err(|_| ())
                            };
                            if exhausted {
                                log.ev(json!({"e": "probe", "peer": name, "pending": false, "got": got, "expect": expect, "in": op.k}));
                                stop = true;
                                break;
                            }
                            match next {
                                Ok(Some(Ok(item))) => {
                                    let data: &[u8] = $data(&item);
                                    let ex: Value = $extra(&item);
                                    log.ev(merge(merge(merge(json!({"e": "item", "id": id, "op": op.k, "peer": name, "task": "r"}), ex), obs(data)),
                                                 json!({"res": "ok", "len": data.len()})));
                                    taken += 1;
                                    got += 1;
                                    drop(item);
                                }
                                Ok(Some(Err(e))) => {
                                    let unsup = e.kind() == std::io::ErrorKind::Unsupported;
                                    let nobuf = is_nobufs(&e);
                                    log.ev(json!({"e": "item", "id": id, "op": op.k, "peer": name, "task": "r",
                                                  "res": if unsup { "unsupported" } else if nobuf { "nobufs" } else { "err" }, "err": io_err(&e)}));
                                    if unsup {
                                        ctx.unsupported(&format!("r.{}", op.k));
                                        break;
                                    }
                                    nobufs += 1;
                                    if !nobuf || nobufs > 64 {
                                        stop = true;
                                        break;
                                    }
                                }
                                Ok(None) => {
                                    log.ev(json!({"e": "end", "id": id, "op": op.k, "peer": name, "task": "r"}));
                                    ended = true;
                                    break;
                                }
                                Err(_) => {
                                    log.ev(json!({"e": "item", "id": id, "op": op.k, "peer": name, "task": "r", "res": "timeout"}));
                                    stop = true;
                                    break;
                                }
                            }
                        }
                    }};
                }
                match op.k.as_str() {
                    "multi" => consume!(s.recv_multi(c), |b: &compio_driver::BufferRef| -> &[u8] { unsafe { &*(&b[..] as *const [u8]) } },
                                        |_b: &compio_driver::BufferRef| json!({})),
                    "fmulti" => consume!(s.recv_from_multi(),
                                         |b: &compio_driver::op::RecvFromMultiResult| -> &[u8] { unsafe { &*(b.data() as *const [u8]) } },
                                         |b: &compio_driver::op::RecvFromMultiResult| json!({"src": sa_str(&b.addr())})),
                    _ => consume!(s.recv_msg_multi(CTRL),
                                  |b: &compio_driver::op::RecvMsgMultiResult| -> &[u8] { unsafe { &*(b.data() as *const [u8]) } },
                                  |b: &compio_driver::op::RecvMsgMultiResult| json!({"src": sa_str(&b.addr()), "flags": b.flags().bits(), "ctl_len": b.ancillary().len()})),
                }
                if !ended {
                    careful = true;
                    log.ev(json!({"e": "drop", "id": id, "op": op.k, "peer": name, "task": "r", "taken": taken}));
                } else {
                    // a plain multishot stream ends at (and consumes) a zero length datagram
                    got += 1;
                }
            }
            other => {
                log.ev(merge(head, json!({"skipped": true})));
                ctx.err(format!("unknown dgram recv kind {other}"));
                stop = true;
            }
        }
        if stop {
            break;
        }
    }
}
