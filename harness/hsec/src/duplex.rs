//! Scripted in-memory duplex transport (futures-io traits) and a deterministic two-task executor.
//!
//! The transport applies one schedule entry (per-call transfer limit, Pending/Ready) to every
//! poll_read / poll_write / poll_flush / poll_close call of an endpoint, cyclically. In the
//! buffering variant written bytes are held back until poll_flush (or poll_close) succeeds.
//! A scheduled Pending wakes the caller immediately (spurious not-ready); a read on an empty
//! pipe parks the reader until the peer delivers bytes. Nothing depends on wall-clock time:
//! a deadlock is "no task is woken and not both are finished".
use std::{
    cell::RefCell,
    collections::VecDeque,
    future::Future,
    io,
    pin::Pin,
    rc::Rc,
    sync::{
        Arc,
        atomic::{AtomicBool, Ordering},
    },
    task::{Context, Poll, Wake, Waker},
};

use futures_util::{AsyncRead, AsyncWrite};

#[derive(Clone, Copy, Debug, PartialEq, Eq)]
pub struct Entry {
    /// per-call transfer limit in bytes, 0 = unlimited
    pub limit: usize,
    /// this call returns Pending (and wakes the caller at once)
    pub pend: bool,
}

#[derive(Clone, Debug)]
pub struct Sched {
    entries: Vec<Entry>,
    cur: usize,
}

impl Sched {
    /// A schedule that never lets a call through would make the transport itself violate its
    /// contract (a Pending transport must become ready), so one ready entry is appended then.
    pub fn new(mut entries: Vec<Entry>) -> Self {
        if entries.iter().all(|e| e.pend) {
            entries.push(Entry {
                limit: 0,
                pend: false,
            });
        }
        Self { entries, cur: 0 }
    }

    fn next(&mut self) -> Entry {
        let e = self.entries[self.cur % self.entries.len()];
        self.cur += 1;
        e
    }
}

#[derive(Default)]
struct Pipe {
    wire: VecDeque<u8>,
    held: Vec<u8>,
    eof: bool,
    reader: Option<Waker>,
}

impl Pipe {
    /// Makes held bytes visible to the peer; the parked reader is woken only when there is news
    /// (bytes, or the end of the stream).
    fn deliver(&mut self, eof_news: bool) {
        let news = !self.held.is_empty() || eof_news;
        if !self.held.is_empty() {
            self.wire.extend(self.held.drain(..));
        }
        if news && let Some(w) = self.reader.take() {
            w.wake();
        }
    }
}

#[derive(Default, Clone, Copy, Debug)]
pub struct Stats {
    pub calls: u64,
    pub pendings: u64,
    pub partial_writes: u64,
    pub partial_reads: u64,
    pub empty_reads: u64,
    pub flushes: u64,
    pub flushes_with_data: u64,
    pub closes: u64,
}

/// Deliberate transport faults for the negative control of the oracle (never part of a schedule).
#[derive(Clone, Copy, Debug, PartialEq, Eq)]
pub enum Fault {
    None,
    /// poll_flush reports success but the held bytes are thrown away
    SwallowFlush,
    /// the n-th byte written by endpoint 0 is inverted
    Flip(u64),
}

pub struct Shared {
    pub fault: Fault,
    written0: u64,
    pipes: [Pipe; 2],
    sched: [Sched; 2],
    buffering: bool,
    pub stats: Stats,
    call_budget: u64,
}

impl Shared {
    /// bytes written by endpoint `e` that the peer cannot see yet
    pub fn held(&self, e: usize) -> usize {
        self.pipes[e].held.len()
    }

    /// bytes written by endpoint `e`, visible to the peer and not yet read
    pub fn in_flight(&self, e: usize) -> usize {
        self.pipes[e].wire.len()
    }

    pub fn budget_exhausted(&self) -> bool {
        self.stats.calls >= self.call_budget
    }
}

pub struct End {
    sh: Rc<RefCell<Shared>>,
    me: usize,
}

/// Endpoint 0 writes pipe 0 and reads pipe 1; endpoint 1 the other way round.
pub fn duplex(
    sched0: Sched,
    sched1: Sched,
    buffering: bool,
    call_budget: u64,
) -> (End, End, Rc<RefCell<Shared>>) {
    let sh = Rc::new(RefCell::new(Shared {
        fault: Fault::None,
        written0: 0,
        pipes: [Pipe::default(), Pipe::default()],
        sched: [sched0, sched1],
        buffering,
        stats: Stats::default(),
        call_budget,
    }));
    (
        End {
            sh: sh.clone(),
            me: 0,
        },
        End {
            sh: sh.clone(),
            me: 1,
        },
        sh,
    )
}

impl End {
    /// Common prologue: account the call, take the next schedule entry, apply Pending.
    fn enter(&self, sh: &mut Shared, cx: &mut Context<'_>) -> Result<Option<Entry>, io::Error> {
        sh.stats.calls += 1;
        if sh.stats.calls > sh.call_budget {
            // keeps a spinning layer from hanging the harness; reported as hang by the caller
            return Err(io::Error::other("verif: transport call budget exhausted"));
        }
        let e = sh.sched[self.me].next();
        if e.pend {
            sh.stats.pendings += 1;
            cx.waker().wake_by_ref();
            return Ok(None);
        }
        Ok(Some(e))
    }
}

/// Dropping an endpoint is what dropping a socket is: the peer sees the end of the stream.
/// Bytes the transport still holds back are not delivered (nobody flushed them).
impl Drop for End {
    fn drop(&mut self) {
        if let Ok(mut sh) = self.sh.try_borrow_mut() {
            let p = &mut sh.pipes[self.me];
            if !p.eof {
                p.eof = true;
                if let Some(w) = p.reader.take() {
                    w.wake();
                }
            }
        }
    }
}

impl AsyncRead for End {
    fn poll_read(
        self: Pin<&mut Self>,
        cx: &mut Context<'_>,
        buf: &mut [u8],
    ) -> Poll<io::Result<usize>> {
        let mut g = self.sh.borrow_mut();
        let sh = &mut *g;
        let e = match self.enter(sh, cx) {
            Err(e) => return Poll::Ready(Err(e)),
            Ok(None) => return Poll::Pending,
            Ok(Some(e)) => e,
        };
        let p = &mut sh.pipes[1 - self.me];
        if buf.is_empty() {
            return Poll::Ready(Ok(0));
        }
        if p.wire.is_empty() {
            if p.eof {
                return Poll::Ready(Ok(0));
            }
            sh.stats.empty_reads += 1;
            p.reader = Some(cx.waker().clone());
            return Poll::Pending;
        }
        let mut n = buf.len().min(p.wire.len());
        if e.limit != 0 && e.limit < n {
            n = e.limit;
            sh.stats.partial_reads += 1;
        }
        for b in buf.iter_mut().take(n) {
            *b = p.wire.pop_front().unwrap();
        }
        Poll::Ready(Ok(n))
    }
}

impl AsyncWrite for End {
    fn poll_write(
        self: Pin<&mut Self>,
        cx: &mut Context<'_>,
        buf: &[u8],
    ) -> Poll<io::Result<usize>> {
        let mut g = self.sh.borrow_mut();
        let sh = &mut *g;
        let e = match self.enter(sh, cx) {
            Err(e) => return Poll::Ready(Err(e)),
            Ok(None) => return Poll::Pending,
            Ok(Some(e)) => e,
        };
        let buffering = sh.buffering;
        let p = &mut sh.pipes[self.me];
        if p.eof {
            return Poll::Ready(Err(io::Error::from(io::ErrorKind::BrokenPipe)));
        }
        let mut n = buf.len();
        if e.limit != 0 && e.limit < n {
            n = e.limit;
            sh.stats.partial_writes += 1;
        }
        p.held.extend_from_slice(&buf[..n]);
        if self.me == 0 {
            if let Fault::Flip(at) = sh.fault
                && sh.written0 <= at
                && at < sh.written0 + n as u64
            {
                let i = p.held.len() - n + (at - sh.written0) as usize;
                p.held[i] ^= 0xff;
            }
            sh.written0 += n as u64;
        }
        if !buffering {
            p.deliver(false);
        }
        Poll::Ready(Ok(n))
    }

    fn poll_flush(self: Pin<&mut Self>, cx: &mut Context<'_>) -> Poll<io::Result<()>> {
        let mut g = self.sh.borrow_mut();
        let sh = &mut *g;
        match self.enter(sh, cx) {
            Err(e) => return Poll::Ready(Err(e)),
            Ok(None) => return Poll::Pending,
            Ok(Some(_)) => {}
        };
        sh.stats.flushes += 1;
        let p = &mut sh.pipes[self.me];
        if !p.held.is_empty() {
            sh.stats.flushes_with_data += 1;
        }
        if sh.fault == Fault::SwallowFlush {
            p.held.clear();
        }
        p.deliver(false);
        Poll::Ready(Ok(()))
    }

    fn poll_close(self: Pin<&mut Self>, cx: &mut Context<'_>) -> Poll<io::Result<()>> {
        let mut g = self.sh.borrow_mut();
        let sh = &mut *g;
        match self.enter(sh, cx) {
            Err(e) => return Poll::Ready(Err(e)),
            Ok(None) => return Poll::Pending,
            Ok(Some(_)) => {}
        };
        sh.stats.closes += 1;
        let p = &mut sh.pipes[self.me];
        let news = !p.eof;
        p.eof = true;
        p.deliver(news);
        Poll::Ready(Ok(()))
    }
}

// ---------------------------------------------------------------------------------------------
// deterministic executor for two tasks
// ---------------------------------------------------------------------------------------------

struct Flag(AtomicBool);

impl Wake for Flag {
    fn wake(self: Arc<Self>) {
        self.0.store(true, Ordering::SeqCst);
    }

    fn wake_by_ref(self: &Arc<Self>) {
        self.0.store(true, Ordering::SeqCst);
    }
}

#[derive(Debug, Clone, Copy, PartialEq, Eq)]
pub enum RunEnd {
    /// both tasks finished
    Done,
    /// a task is unfinished and nobody holds a wake-up for it
    Deadlock,
    /// the poll budget ran out (spinning)
    Budget,
}

pub type Task<'a> = Pin<Box<dyn Future<Output = ()> + 'a>>;

/// Polls the two tasks round-robin, starting with `first`, a task only when it was woken.
/// `order` optionally gives the order of the first polls (TLC-chosen interleaving prefix).
pub fn run2(tasks: [Task<'_>; 2], first: usize, poll_budget: u64) -> (RunEnd, u64, [bool; 2]) {
    let mut tasks = tasks.map(Some);
    let flags = [
        Arc::new(Flag(AtomicBool::new(true))),
        Arc::new(Flag(AtomicBool::new(true))),
    ];
    let wakers = [Waker::from(flags[0].clone()), Waker::from(flags[1].clone())];
    let mut polls = 0u64;
    let mut next = first;
    loop {
        let done = [tasks[0].is_none(), tasks[1].is_none()];
        if done[0] && done[1] {
            return (RunEnd::Done, polls, done);
        }
        let mut pick = None;
        for k in 0..2 {
            let i = (next + k) % 2;
            if tasks[i].is_some() && flags[i].0.load(Ordering::SeqCst) {
                pick = Some(i);
                break;
            }
        }
        let Some(i) = pick else {
            return (RunEnd::Deadlock, polls, done);
        };
        if polls >= poll_budget {
            return (RunEnd::Budget, polls, done);
        }
        polls += 1;
        next = 1 - i;
        flags[i].0.store(false, Ordering::SeqCst);
        let mut cx = Context::from_waker(&wakers[i]);
        if tasks[i].as_mut().unwrap().as_mut().poll(&mut cx).is_ready() {
            tasks[i] = None;
        }
    }
}
