//! Test certificate generated at run time (rcgen, ECDSA P-256 through ring; nothing on disk) and
//! the connector/acceptor pairs of both compio-tls back-ends built from it.
use std::sync::Arc;

use compio_tls::{TlsAcceptor, TlsConnector};

pub struct TestCert {
    pub cert_pem: String,
    pub key_pem: String,
    pub cert_der: Vec<u8>,
    pub key_der: Vec<u8>,
}

pub fn generate() -> TestCert {
    let rcgen::CertifiedKey { cert, signing_key } =
        rcgen::generate_simple_self_signed(vec!["localhost".to_string()])
            .expect("rcgen self-signed certificate");
    TestCert {
        cert_pem: cert.pem(),
        key_pem: signing_key.serialize_pem(),
        cert_der: cert.der().to_vec(),
        key_der: signing_key.serialize_der(),
    }
}

#[derive(Clone, Copy, Debug, PartialEq, Eq)]
pub enum Backend {
    /// native-tls (OpenSSL), TLS 1.3
    Native13,
    /// native-tls (OpenSSL) capped at TLS 1.2 (server sends the last handshake flight)
    Native12,
    /// rustls + ring through futures-rustls
    Rustls,
}

impl Backend {
    pub fn name(self) -> &'static str {
        match self {
            Backend::Native13 => "native13",
            Backend::Native12 => "native12",
            Backend::Rustls => "rustls",
        }
    }

    pub fn parse(s: &str) -> Option<Self> {
        Some(match s {
            "native13" => Backend::Native13,
            "native12" => Backend::Native12,
            "rustls" => Backend::Rustls,
            _ => return None,
        })
    }

    pub const ALL: [Backend; 3] = [Backend::Native13, Backend::Native12, Backend::Rustls];
}

pub fn pair(c: &TestCert, b: Backend) -> (TlsConnector, TlsAcceptor) {
    match b {
        Backend::Native13 | Backend::Native12 => {
            let id = native_tls::Identity::from_pkcs8(c.cert_pem.as_bytes(), c.key_pem.as_bytes())
                .expect("native-tls identity");
            let mut ab = native_tls::TlsAcceptor::builder(id);
            let mut cb = native_tls::TlsConnector::builder();
            cb.add_root_certificate(
                native_tls::Certificate::from_pem(c.cert_pem.as_bytes()).expect("native-tls cert"),
            );
            if b == Backend::Native12 {
                ab.max_protocol_version(Some(native_tls::Protocol::Tlsv12));
                cb.max_protocol_version(Some(native_tls::Protocol::Tlsv12));
            }
            (
                TlsConnector::from(cb.build().expect("native-tls connector")),
                TlsAcceptor::from(ab.build().expect("native-tls acceptor")),
            )
        }
        Backend::Rustls => {
            use rustls::pki_types::{CertificateDer, PrivateKeyDer, PrivatePkcs8KeyDer};
            let cert = CertificateDer::from(c.cert_der.clone());
            let key = PrivateKeyDer::Pkcs8(PrivatePkcs8KeyDer::from(c.key_der.clone()));
            let server = rustls::ServerConfig::builder()
                .with_no_client_auth()
                .with_single_cert(vec![cert.clone()], key)
                .expect("rustls server config");
            let mut store = rustls::RootCertStore::empty();
            store.add(cert).expect("rustls root");
            let client = rustls::ClientConfig::builder()
                .with_root_certificates(store)
                .with_no_client_auth();
            (
                TlsConnector::from(Arc::new(client)),
                TlsAcceptor::from(Arc::new(server)),
            )
        }
    }
}
