//! A byte-forwarding proxy between two Unix socket pairs, driven by a transport schedule.
//!
//! compio-ws only accepts descriptor-backed streams, so the in-memory duplex cannot be used
//! there. Instead:   client end <-> [pa  proxy  pb] <-> server end,   all four sockets with the
//! smallest SO_SNDBUF / SO_RCVBUF the kernel grants. Per direction the proxy takes one schedule
//! entry per step: Pending = do not read in this step (the sender's socket buffer fills up:
//! partial writes and EAGAIN on the real socket), otherwise read at most `limit` bytes and
//! forward them; bytes it could not forward yet are written before anything else is read.
use std::{
    io,
    os::fd::{AsRawFd, RawFd},
    sync::{
        Arc,
        atomic::{AtomicBool, AtomicU64, Ordering},
    },
    thread::JoinHandle,
};

use socket2::{Domain, Socket, Type};

use crate::duplex::Entry;

#[derive(Default, Debug, Clone, Copy)]
pub struct ProxyStats {
    pub forwarded: [u64; 2],
    pub steps: u64,
    pub skipped: u64,
    pub limited_reads: u64,
    pub blocked_writes: u64,
}

pub struct Proxy {
    /// total bytes forwarded so far (both directions), readable while the proxy runs
    pub moved: Arc<AtomicU64>,
    stop: Arc<AtomicBool>,
    handle: Option<JoinHandle<ProxyStats>>,
}

fn tiny_buffers(s: &Socket) {
    let _ = s.set_send_buffer_size(1);
    let _ = s.set_recv_buffer_size(1);
}

/// `grace`: the first bytes of each direction that are forwarded without limit or delay.
/// `cut_after`: deliberate fault for the negative control (shut everything down after n bytes).
/// Returns (client end, server end, proxy). `sched[0]` drives client->server, `sched[1]` the
/// other direction; both are applied cyclically.
pub fn chain(
    sched: [Vec<Entry>; 2],
    cut_after: Option<u64>,
    grace: u64,
) -> io::Result<(Socket, Socket, Proxy)> {
    let (c, pa) = Socket::pair(Domain::UNIX, Type::STREAM, None)?;
    let (pb, s) = Socket::pair(Domain::UNIX, Type::STREAM, None)?;
    for x in [&c, &pa, &pb, &s] {
        tiny_buffers(x);
    }
    pa.set_nonblocking(true)?;
    pb.set_nonblocking(true)?;
    let stop = Arc::new(AtomicBool::new(false));
    let stop2 = stop.clone();
    let moved = Arc::new(AtomicU64::new(0));
    let moved2 = moved.clone();
    let handle = std::thread::Builder::new()
        .name("verif-proxy".into())
        .spawn(move || run(pa, pb, sched, stop2, cut_after, grace, moved2))?;
    Ok((
        c,
        s,
        Proxy {
            moved,
            stop,
            handle: Some(handle),
        },
    ))
}

impl Proxy {
    pub fn finish(mut self) -> ProxyStats {
        self.stop.store(true, Ordering::SeqCst);
        self.handle
            .take()
            .and_then(|h| h.join().ok())
            .unwrap_or_default()
    }
}

impl Drop for Proxy {
    fn drop(&mut self) {
        self.stop.store(true, Ordering::SeqCst);
        if let Some(h) = self.handle.take() {
            let _ = h.join();
        }
    }
}

struct Dir {
    src: RawFd,
    dst: RawFd,
    pending: Vec<u8>,
    off: usize,
    closed: bool,
    sched: Vec<Entry>,
    cur: usize,
}

fn would_block(e: &io::Error) -> bool {
    matches!(
        e.kind(),
        io::ErrorKind::WouldBlock | io::ErrorKind::Interrupted
    )
}

fn sys_read(fd: RawFd, buf: &mut [u8]) -> io::Result<usize> {
    let n = unsafe { libc::read(fd, buf.as_mut_ptr().cast(), buf.len()) };
    if n < 0 {
        Err(io::Error::last_os_error())
    } else {
        Ok(n as usize)
    }
}

fn sys_write(fd: RawFd, buf: &[u8]) -> io::Result<usize> {
    let n = unsafe { libc::send(fd, buf.as_ptr().cast(), buf.len(), libc::MSG_NOSIGNAL) };
    if n < 0 {
        Err(io::Error::last_os_error())
    } else {
        Ok(n as usize)
    }
}

fn run(
    pa: Socket,
    pb: Socket,
    sched: [Vec<Entry>; 2],
    stop: Arc<AtomicBool>,
    cut_after: Option<u64>,
    grace: u64,
    moved: Arc<AtomicU64>,
) -> ProxyStats {
    let [s0, s1] = sched;
    let fix = |mut v: Vec<Entry>| {
        if v.iter().all(|e| e.pend) {
            v.push(Entry {
                limit: 0,
                pend: false,
            });
        }
        v
    };
    let mut dirs = [
        Dir {
            src: pa.as_raw_fd(),
            dst: pb.as_raw_fd(),
            pending: vec![],
            off: 0,
            closed: false,
            sched: fix(s0),
            cur: 0,
        },
        Dir {
            src: pb.as_raw_fd(),
            dst: pa.as_raw_fd(),
            pending: vec![],
            off: 0,
            closed: false,
            sched: fix(s1),
            cur: 0,
        },
    ];
    let mut st = ProxyStats::default();
    let mut buf = vec![0u8; 4096];
    while !stop.load(Ordering::SeqCst) {
        // negative control of the oracle: cut the connection in the middle
        if let Some(n) = cut_after
            && st.forwarded[0] + st.forwarded[1] >= n
        {
            unsafe {
                libc::shutdown(pa.as_raw_fd(), libc::SHUT_RDWR);
                libc::shutdown(pb.as_raw_fd(), libc::SHUT_RDWR);
            }
            break;
        }
        moved.store(st.forwarded[0] + st.forwarded[1], Ordering::Relaxed);
        let mut progress = false;
        for (di, d) in dirs.iter_mut().enumerate() {
            if d.closed {
                continue;
            }
            st.steps += 1;
            if d.off < d.pending.len() {
                match sys_write(d.dst, &d.pending[d.off..]) {
                    Ok(n) => {
                        d.off += n;
                        st.forwarded[di] += n as u64;
                        progress = true;
                    }
                    Err(e) if would_block(&e) => st.blocked_writes += 1,
                    Err(_) => d.closed = true,
                }
                continue;
            }
            let mut e = d.sched[d.cur % d.sched.len()];
            d.cur += 1;
            if st.forwarded[di] < grace {
                // the first `grace` bytes of a direction pass unthrottled
                e = Entry {
                    limit: 0,
                    pend: false,
                };
            }
            if e.pend {
                st.skipped += 1;
                continue;
            }
            let lim = if e.limit == 0 {
                buf.len()
            } else {
                e.limit.min(buf.len())
            };
            match sys_read(d.src, &mut buf[..lim]) {
                Ok(0) => {
                    unsafe { libc::shutdown(d.dst, libc::SHUT_WR) };
                    d.closed = true;
                    progress = true;
                }
                Ok(n) => {
                    if e.limit != 0 && n == lim {
                        st.limited_reads += 1;
                    }
                    d.pending.clear();
                    d.pending.extend_from_slice(&buf[..n]);
                    d.off = 0;
                    progress = true;
                    match sys_write(d.dst, &d.pending) {
                        Ok(w) => {
                            d.off = w;
                            st.forwarded[di] += w as u64;
                        }
                        Err(e) if would_block(&e) => st.blocked_writes += 1,
                        Err(_) => d.closed = true,
                    }
                }
                Err(e) if would_block(&e) => {}
                Err(_) => d.closed = true,
            }
        }
        if dirs.iter().all(|d| d.closed) {
            break;
        }
        if !progress {
            let mut fds = [
                libc::pollfd {
                    fd: dirs[0].src,
                    events: 0,
                    revents: 0,
                },
                libc::pollfd {
                    fd: dirs[1].src,
                    events: 0,
                    revents: 0,
                },
            ];
            // dirs[0]: src = pa, dst = pb; dirs[1]: src = pb, dst = pa
            for (i, d) in dirs.iter().enumerate() {
                if d.closed {
                    continue;
                }
                if d.off < d.pending.len() {
                    fds[1 - i].events |= libc::POLLOUT;
                } else {
                    fds[i].events |= libc::POLLIN;
                }
            }
            unsafe { libc::poll(fds.as_mut_ptr(), 2, 1) };
        }
    }
    st
}
