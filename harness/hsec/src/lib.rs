//! harness package hsec
