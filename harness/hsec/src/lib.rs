//! harness package hsec (C15): scripted in-memory duplex transport, a deterministic two-task
//! executor, run-time test certificates and a socket proxy for the descriptor-backed layers.
pub mod certs;
pub mod duplex;
pub mod proxy;
pub mod watchdog;
