//! Wall-clock watchdog of last resort. The code under test may spin or block inside one call
//! (only conceivable on a mutated tree); the harness must still terminate and say which case it
//! was. Deadlines are generous (tens of seconds per case), ordering never depends on the clock.
use std::{
    sync::{Arc, Mutex},
    thread,
    time::{Duration, Instant},
};

use hcore::out::Report;
use serde_json::Value;

struct Armed {
    deadline: Instant,
    sig: Value,
    desc: String,
    case: Value,
}

#[derive(Clone)]
pub struct Watchdog {
    report: Arc<Mutex<Option<Report>>>,
    armed: Arc<Mutex<Option<Armed>>>,
}

impl Watchdog {
    pub fn start(report: Report) -> Self {
        let w = Watchdog {
            report: Arc::new(Mutex::new(Some(report))),
            armed: Arc::new(Mutex::new(None)),
        };
        let w2 = w.clone();
        thread::spawn(move || {
            loop {
                thread::sleep(Duration::from_millis(200));
                let mut a = w2.armed.lock().unwrap();
                if let Some(x) = a.as_ref()
                    && Instant::now() >= x.deadline
                {
                    let x = a.take().unwrap();
                    if let Some(mut r) = w2.report.lock().unwrap().take() {
                        r.problem("hang", x.sig, x.desc, &x.case, 0);
                        r.set("aborted_by_watchdog", Value::Bool(true));
                        r.finish();
                    }
                    std::process::exit(0);
                }
            }
        });
        w
    }

    pub fn arm(&self, secs: u64, sig: Value, desc: String, case: &Value) {
        *self.armed.lock().unwrap() = Some(Armed {
            deadline: Instant::now() + Duration::from_secs(secs),
            sig,
            desc,
            case: case.clone(),
        });
    }

    pub fn disarm(&self) {
        *self.armed.lock().unwrap() = None;
    }

    pub fn with<R>(&self, f: impl FnOnce(&mut Report) -> R) -> R {
        let mut g = self.report.lock().unwrap();
        f(g.as_mut().expect("report already finished"))
    }

    pub fn finish(self) {
        self.disarm();
        if let Some(r) = self.report.lock().unwrap().take() {
            r.finish();
        }
    }
}
