//! C15: replay SecureLayer transport schedules (spec/Gen_SecureLayer.tla) on the real compio-tls
//! connector / acceptor / stream over the scripted in-memory duplex.
//!
//! usage: replay_tls <cases.jsonl> [backend,backend,..]
//! case:  {"buffering":bool, "payload":0|1|2, "init":"c"|"s", "first":"c"|"s",
//!         "sched":{"c":[{"l":0|1|2,"p":bool}..], "s":[..]}, "model":{..informational..}}
//!
//! Program (the pinned echo test generalised): both roles handshake; the initiator writes the
//! payload, flushes, reads to end of stream and closes; the responder reads exactly the payload,
//! echoes it, flushes, closes and reads the end of stream.
//!
//! Contract oracle (independent of the model): both tasks finish (no deadlock = nobody woken and
//! unfinished, no spin = poll budget), no call fails, both plaintext directions are equal to what
//! was written, both sides observe a clean end of stream, nothing is left unflushed.
use std::{cell::RefCell, panic::AssertUnwindSafe, rc::Rc};

use compio_tls::{TlsAcceptor, TlsConnector};
use futures_util::{AsyncReadExt, AsyncWriteExt};
use hcore::out::{Report, cases_from_arg, panic_msg, silence_panics};
use hsec::{
    certs::{self, Backend},
    duplex::{self, End, Entry, RunEnd, Sched, Task},
    watchdog::Watchdog,
};
use serde_json::{Value, json};

#[derive(Default, Debug)]
struct Obs {
    stage: &'static str,
    err: Option<(String, String)>, // (stage, error)
    received: Vec<u8>,
    eof: bool,
    done: bool,
}

fn payload(class: u64) -> Vec<u8> {
    let n = match class {
        0 => 0,
        1 => 1,
        _ => 17 * 1024, // more than one TLS record
    };
    (0..n).map(|i| (i * 7 + i / 251) as u8).collect()
}

fn sched(v: &Value) -> Sched {
    Sched::new(
        v.as_array()
            .map(|a| {
                a.iter()
                    .map(|e| Entry {
                        limit: e["l"].as_u64().unwrap_or(0) as usize,
                        pend: e["p"].as_bool().unwrap_or(false),
                    })
                    .collect()
            })
            .unwrap_or_default(),
    )
}

macro_rules! step {
    ($obs:expr, $stage:expr, $e:expr) => {{
        $obs.borrow_mut().stage = $stage;
        match $e {
            Ok(v) => v,
            Err(e) => {
                $obs.borrow_mut().err = Some(($stage.to_string(), format!("{:?}: {}", e.kind(), e)));
                return;
            }
        }
    }};
}

async fn body(
    stream: std::io::Result<compio_tls::TlsStream<End>>,
    initiator: bool,
    data: Vec<u8>,
    obs: Rc<RefCell<Obs>>,
) {
    let mut s = step!(obs, "handshake", stream);
    if initiator {
        step!(obs, "write", s.write_all(&data).await);
        step!(obs, "flush", s.flush().await);
        let mut res = vec![];
        step!(obs, "read", s.read_to_end(&mut res).await);
        obs.borrow_mut().received = res;
        obs.borrow_mut().eof = true;
        step!(obs, "close", s.close().await);
    } else {
        let mut res = vec![0u8; data.len()];
        step!(obs, "read", s.read_exact(&mut res).await);
        obs.borrow_mut().received = res.clone();
        step!(obs, "write", s.write_all(&res).await);
        step!(obs, "flush", s.flush().await);
        step!(obs, "close", s.close().await);
        let mut one = [0u8; 1];
        let n = step!(obs, "read_eof", s.read(&mut one).await);
        obs.borrow_mut().eof = n == 0;
        if n != 0 {
            obs.borrow_mut().err = Some(("read_eof".into(), "data after the echo".into()));
            return;
        }
    }
    let mut o = obs.borrow_mut();
    o.stage = "done";
    o.done = true;
}

struct Outcome {
    end: RunEnd,
    polls: u64,
    obs: [Obs; 2],
    stats: duplex::Stats,
    held: [usize; 2],
    budget: bool,
}

fn run_case(case: &Value, conn: &TlsConnector, acc: &TlsAcceptor) -> Outcome {
    let buffering = case["buffering"].as_bool().unwrap_or(false);
    let data = payload(case["payload"].as_u64().unwrap_or(0));
    let init_c = case["init"].as_str().unwrap_or("c") == "c";
    let first = if case["first"].as_str().unwrap_or("c") == "c" { 0 } else { 1 };
    let (ec, es, sh) = duplex::duplex(
        sched(&case["sched"]["c"]),
        sched(&case["sched"]["s"]),
        buffering,
        20_000_000,
    );
    sh.borrow_mut().fault = match case["fault"]["kind"].as_str() {
        Some("swallow_flush") => duplex::Fault::SwallowFlush,
        Some("flip") => duplex::Fault::Flip(case["fault"]["at"].as_u64().unwrap_or(0)),
        _ => duplex::Fault::None,
    };
    let oc = Rc::new(RefCell::new(Obs::default()));
    let os = Rc::new(RefCell::new(Obs::default()));
    let (end, polls, _done) = {
        let (oc2, os2, d1, d2) = (oc.clone(), os.clone(), data.clone(), data.clone());
        let tc: Task<'_> = Box::pin(async move {
            oc2.borrow_mut().stage = "handshake";
            let s = conn.connect("localhost", ec).await;
            body(s, init_c, d1, oc2).await
        });
        let ts: Task<'_> = Box::pin(async move {
            os2.borrow_mut().stage = "handshake";
            let s = acc.accept(es).await;
            body(s, !init_c, d2, os2).await
        });
        duplex::run2([tc, ts], first, 20_000_000)
    };
    let shb = sh.borrow();
    Outcome {
        end,
        polls,
        obs: [oc.take(), os.take()],
        stats: shb.stats,
        held: [shb.held(0), shb.held(1)],
        budget: shb.budget_exhausted(),
    }
}

fn main() {
    silence_panics();
    let cert = certs::generate();
    let backends: Vec<Backend> = match std::env::args().nth(2) {
        Some(s) => s.split(',').filter_map(Backend::parse).collect(),
        None => Backend::ALL.to_vec(),
    };
    let pairs: Vec<(Backend, TlsConnector, TlsAcceptor)> = backends
        .iter()
        .map(|b| {
            let (c, a) = certs::pair(&cert, *b);
            (*b, c, a)
        })
        .collect();
    let wd = Watchdog::start(Report::new());
    let mut agg: std::collections::BTreeMap<String, [u64; 8]> = Default::default();
    let mut per_backend: std::collections::BTreeMap<String, u64> = Default::default();
    let mut clean: std::collections::BTreeMap<String, u64> = Default::default();
    for case in cases_from_arg() {
        for (b, conn, acc) in &pairs {
            let base = json!({"site": "tls", "backend": b.name(),
                "buffering": case["buffering"], "payload": case["payload"], "init": case["init"]});
            let mut hs = base.clone();
            hs["kind"] = json!("watchdog");
            wd.arm(120, hs, "no progress for 120 s inside one poll of the layer".into(), &case);
            let r = std::panic::catch_unwind(AssertUnwindSafe(|| run_case(&case, conn, acc)));
            wd.disarm();
            wd.with(|rep| {
                rep.cases += 1;
                *per_backend.entry(b.name().into()).or_default() += 1;
                let o = match r {
                    Ok(o) => o,
                    Err(e) => {
                        let mut sig = base.clone();
                        sig["kind"] = json!("panic");
                        rep.problem("panic", sig, panic_msg(e), &case, 0);
                        return;
                    }
                };
                rep.steps += o.polls;
                let a = agg.entry(b.name().into()).or_default();
                a[0] += o.stats.calls;
                a[1] += o.stats.pendings;
                a[2] += o.stats.partial_writes;
                a[3] += o.stats.partial_reads;
                a[4] += o.stats.empty_reads;
                a[5] += o.stats.flushes_with_data;
                a[6] += o.stats.closes;
                a[7] += o.polls;
                let data = payload(case["payload"].as_u64().unwrap_or(0));
                let stages = json!({"c": o.obs[0].stage, "s": o.obs[1].stage});
                let mut real_ok = true;
                // what sits unflushed in the transport, judged from the real observation: bytes
                // held for a role that already returned from close() are its close alert, bytes
                // held while that role still handshakes are a handshake flight
                let mut lost = "none";
                let mut holder = "";
                let mut peer_stage = "";
                for i in 0..2 {
                    if o.held[i] > 0 {
                        peer_stage = o.obs[1 - i].stage;
                        lost = match o.obs[i].stage {
                            "read_eof" | "done" => "close_alert",
                            "handshake" => "handshake_flight",
                            _ => "data",
                        };
                        holder = ["c", "s"][i];
                    }
                }
                // 1. termination
                if o.end != RunEnd::Done || o.budget {
                    real_ok = false;
                    let mut sig = base.clone();
                    sig["kind"] = json!(if o.end == RunEnd::Deadlock && !o.budget { "deadlock" } else { "spin" });
                    sig["stage"] = stages.clone();
                    sig["lost"] = json!(lost);
                    sig["holder"] = json!(holder);
                    sig["peer_stage"] = json!(peer_stage);
                    rep.problem(
                        "hang",
                        sig,
                        format!(
                            "layer did not terminate ({:?}) after {} polls / {} transport calls; \
                             stages {}; unflushed bytes held by the transport c={} s={}; errors c={:?} s={:?}",
                            o.end, o.polls, o.stats.calls, stages, o.held[0], o.held[1],
                            o.obs[0].err, o.obs[1].err
                        ),
                        &case,
                        o.polls as usize,
                    );
                } else {
                    // 2. no call failed, 3. data equal in order exactly once, 4. clean end of stream
                    for (i, role) in ["c", "s"].iter().enumerate() {
                        let ob = &o.obs[i];
                        if let Some((stage, e)) = &ob.err {
                            real_ok = false;
                            let mut sig = base.clone();
                            sig["kind"] = json!("error");
                            sig["role"] = json!(role);
                            sig["stage"] = json!(stage);
                            sig["lost"] = json!(lost);
                            sig["holder"] = json!(holder);
                    sig["peer_stage"] = json!(peer_stage);
                            rep.problem(
                                "contract",
                                sig,
                                format!("{role} failed in {stage}: {e}; unflushed bytes held by the transport c={} s={}",
                                    o.held[0], o.held[1]),
                                &case,
                                0,
                            );
                            continue;
                        }
                        if ob.received != data {
                            real_ok = false;
                            let mut sig = base.clone();
                            sig["kind"] = json!("data");
                            sig["role"] = json!(role);
                            rep.problem(
                                "contract",
                                sig,
                                format!("{role} read {} bytes, expected the {} written (first difference at {:?})",
                                    ob.received.len(), data.len(),
                                    ob.received.iter().zip(data.iter()).position(|(a, b)| a != b)),
                                &case,
                                0,
                            );
                        }
                        // 5. close() / flush() reported success: nothing may be left in the transport
                        if o.held[i] > 0 {
                            real_ok = false;
                            let mut sig = base.clone();
                            sig["kind"] = json!("unflushed");
                            sig["lost"] = json!(lost);
                            sig["holder"] = json!(role);
                            sig["peer_stage"] = json!(o.obs[1 - i].stage);
                            rep.problem(
                                "contract",
                                sig,
                                format!("{role} finished (close() returned Ok) but {} bytes it wrote were never flushed \
                                         to the peer and are dropped with the stream", o.held[i]),
                                &case,
                                0,
                            );
                        }
                        if !ob.eof || !ob.done {
                            real_ok = false;
                            let mut sig = base.clone();
                            sig["kind"] = json!("eof");
                            sig["role"] = json!(role);
                            rep.problem("contract", sig, format!("{role} saw no clean end of stream"), &case, 0);
                        }
                    }
                }
                if real_ok {
                    *clean.entry(b.name().into()).or_default() += 1;
                }
            });
        }
    }
    let aggj: serde_json::Map<String, Value> = agg
        .iter()
        .map(|(k, a)| {
            (
                k.clone(),
                json!({"transport_calls": a[0], "pendings": a[1], "partial_writes": a[2], "partial_reads": a[3],
                       "reads_on_empty": a[4], "flushes_releasing_data": a[5], "transport_closes": a[6], "polls": a[7]}),
            )
        })
        .collect();
    wd.with(|rep| {
        rep.set("transport", Value::Object(aggj));
        rep.set("cases_per_backend", json!(per_backend));
        rep.set("cases_completed_cleanly", json!(clean));
    });
    wd.finish();
}
