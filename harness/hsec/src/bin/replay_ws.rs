//! C15: replay SecureLayer transport schedules on the real compio-ws WebSocketStream (client_async /
//! accept_async, send / read / close) over descriptor-backed streams: plain PollFd<Socket>, and
//! compio-tls TlsStream<PollFd<Socket>> with the native-tls and the rustls backend. The schedule
//! is applied by the proxy of hsec::proxy between two Unix socket pairs with minimal buffers.
//!
//! usage: replay_ws <cases.jsonl> [stack,stack,..]      stacks: plain native rustls
//!
//! Program: both sides handshake (TLS first where the stack has it). The active side (case.init)
//! sends one binary message of the payload class and reads the echo; sends a Ping and waits for
//! the Pong; sends Close and waits for the Close reply. The passive side reads and echoes the
//! message, then reads ONE item (the Ping) and does not touch the stream again until the active
//! side has its Pong; reads ONE more item (the Close) and again stays away from the stream.
//! So the Pong / Close replies only reach the peer if the layer flushed them (protocol flush, then
//! transport flush) before it yielded the item, which is what compio-ws promises.
//!
//! Contract oracle: every stage completes within a generous wall-clock bound on both roles
//! (else hang), the echoed message is equal to the one sent, the Pong carries the Ping payload,
//! the Close reply arrives.
use std::{cell::RefCell, panic::AssertUnwindSafe, rc::Rc, time::Duration};

use compio_runtime::fd::PollFd;
use compio_tls::{TlsAcceptor, TlsConnector};
use compio_ws::{
    WebSocketStream, accept_async, client_async,
    tungstenite::Message,
};
use hcore::out::{Report, cases_from_arg, panic_msg, silence_panics};
use hsec::{
    certs::{self, Backend},
    duplex::Entry,
    proxy::{self, ProxyStats},
    watchdog::Watchdog,
};
use serde_json::{Value, json};
use socket2::Socket;

/// A case hangs when the scenario is unfinished and the proxy has not moved a byte for
/// STALL_BOUND (the layer waits for something that will never come), or after CASE_BOUND in any
/// case. Both are far above what a loaded machine needs for a 17 KiB echo in 1-byte steps.
const STALL_BOUND: Duration = Duration::from_secs(15);
const CASE_BOUND: Duration = Duration::from_secs(240);
/// after this many hangs the remaining cases are skipped (a broken layer hangs on most of them)
const MAX_HANGS: u64 = 3;
const PING: &[u8] = b"verif-ping";

#[derive(Clone, Copy, PartialEq, Eq, Debug)]
enum Stack {
    Plain,
    Native,
    Rustls,
}

impl Stack {
    fn name(self) -> &'static str {
        match self {
            Stack::Plain => "plain",
            Stack::Native => "native",
            Stack::Rustls => "rustls",
        }
    }

    fn parse(s: &str) -> Option<Self> {
        Some(match s {
            "plain" => Stack::Plain,
            "native" => Stack::Native,
            "rustls" => Stack::Rustls,
            _ => return None,
        })
    }
}

#[derive(Default, Debug)]
struct Obs {
    stage: &'static str,
    err: Option<(String, String)>,
    err_seq: u64,
    echo_ok: Option<bool>,
    done: bool,
}

#[derive(Default)]
struct Flags {
    pong_seen: bool,
    close_seen: bool,
    abort: bool,
}

thread_local! {
    /// order in which the roles failed (the second failure is usually a consequence of the first)
    static ERR_SEQ: std::cell::Cell<u64> = const { std::cell::Cell::new(0) };
}

fn next_err_seq() -> u64 {
    ERR_SEQ.with(|c| {
        c.set(c.get() + 1);
        c.get()
    })
}

fn payload(class: u64) -> Vec<u8> {
    let n = match class {
        0 => 0,
        1 => 1,
        _ => 17 * 1024,
    };
    (0..n).map(|i| (i * 13 + i / 255) as u8).collect()
}

fn sched(v: &Value) -> Vec<Entry> {
    v.as_array()
        .map(|a| {
            a.iter()
                .map(|e| Entry {
                    limit: e["l"].as_u64().unwrap_or(0) as usize,
                    pend: e["p"].as_bool().unwrap_or(false),
                })
                .collect()
        })
        .unwrap_or_default()
}

macro_rules! step {
    ($obs:expr, $stage:expr, $e:expr) => {{
        $obs.borrow_mut().stage = $stage;
        match $e {
            Ok(v) => v,
            Err(e) => {
                let mut o = $obs.borrow_mut();
                o.err = Some(($stage.to_string(), format!("{e}")));
                o.err_seq = next_err_seq();
                return;
            }
        }
    }};
}

async fn wait_flag(flags: &Rc<RefCell<Flags>>, f: impl Fn(&Flags) -> bool) -> bool {
    loop {
        {
            let g = flags.borrow();
            if f(&g) {
                return true;
            }
            if g.abort {
                return false;
            }
        }
        compio_runtime::time::sleep(Duration::from_millis(1)).await;
    }
}

async fn program(
    mut ws: WebSocketStream<Socket>,
    active: bool,
    eager: bool,
    data: Vec<u8>,
    obs: Rc<RefCell<Obs>>,
    flags: Rc<RefCell<Flags>>,
) {
    if eager && active {
        // variant "eager close": message and Close are sent back to back, so the passive side
        // answers the Close while its own echo may still congest its socket
        step!(obs, "send", ws.send(Message::Binary(data.clone().into())).await);
        step!(obs, "send_close", ws.close(None).await);
        let echo = step!(obs, "read_echo", ws.read().await);
        let ok = matches!(&echo, Message::Binary(b) if b.as_ref() == data.as_slice());
        obs.borrow_mut().echo_ok = Some(ok);
        if !ok {
            return;
        }
        let m = step!(obs, "read_close", ws.read().await);
        if !m.is_close() {
            let mut o = obs.borrow_mut();
            o.err = Some(("read_close".into(), format!("unexpected message {m:?}")));
            o.err_seq = next_err_seq();
            return;
        }
        flags.borrow_mut().close_seen = true;
    } else if eager {
        let m = step!(obs, "read_msg", ws.read().await);
        let ok = matches!(&m, Message::Binary(b) if b.as_ref() == data.as_slice());
        obs.borrow_mut().echo_ok = Some(ok);
        step!(obs, "send_echo", ws.send(m).await);
        let m = step!(obs, "read_close", ws.read().await);
        if !m.is_close() {
            let mut o = obs.borrow_mut();
            o.err = Some(("read_close".into(), format!("unexpected message {m:?}")));
            o.err_seq = next_err_seq();
            return;
        }
        obs.borrow_mut().stage = "idle_after_close";
        if !wait_flag(&flags, |f| f.close_seen).await {
            return;
        }
    } else if active {
        step!(obs, "send", ws.send(Message::Binary(data.clone().into())).await);
        let echo = step!(obs, "read_echo", ws.read().await);
        let ok = matches!(&echo, Message::Binary(b) if b.as_ref() == data.as_slice());
        obs.borrow_mut().echo_ok = Some(ok);
        if !ok {
            return;
        }
        step!(obs, "send_ping", ws.send(Message::Ping(PING.to_vec().into())).await);
        loop {
            let m = step!(obs, "read_pong", ws.read().await);
            match m {
                Message::Pong(p) if p.as_ref() == PING => break,
                other => {
                    let mut o = obs.borrow_mut();
                    o.err = Some(("read_pong".into(), format!("unexpected message {other:?}")));
                    o.err_seq = next_err_seq();
                    return;
                }
            }
        }
        flags.borrow_mut().pong_seen = true;
        step!(obs, "send_close", ws.close(None).await);
        let m = step!(obs, "read_close", ws.read().await);
        if !m.is_close() {
            let mut o = obs.borrow_mut();
            o.err = Some(("read_close".into(), format!("unexpected message {m:?}")));
            o.err_seq = next_err_seq();
            return;
        }
        flags.borrow_mut().close_seen = true;
    } else {
        let m = step!(obs, "read_msg", ws.read().await);
        let ok = matches!(&m, Message::Binary(b) if b.as_ref() == data.as_slice());
        obs.borrow_mut().echo_ok = Some(ok);
        step!(obs, "send_echo", ws.send(m).await);
        let m = step!(obs, "read_ping", ws.read().await);
        if !matches!(&m, Message::Ping(p) if p.as_ref() == PING) {
            let mut o = obs.borrow_mut();
            o.err = Some(("read_ping".into(), format!("unexpected message {m:?}")));
            o.err_seq = next_err_seq();
            return;
        }
        // stay away from the stream: the Pong must already be on its way
        obs.borrow_mut().stage = "idle_after_ping";
        if !wait_flag(&flags, |f| f.pong_seen).await {
            return;
        }
        let m = step!(obs, "read_close", ws.read().await);
        if !m.is_close() {
            let mut o = obs.borrow_mut();
            o.err = Some(("read_close".into(), format!("unexpected message {m:?}")));
            o.err_seq = next_err_seq();
            return;
        }
        obs.borrow_mut().stage = "idle_after_close";
        if !wait_flag(&flags, |f| f.close_seen).await {
            return;
        }
    }
    let mut o = obs.borrow_mut();
    o.stage = "done";
    o.done = true;
    drop(o);
    // keep the stream open until the peer is finished as well
    wait_flag(&flags, |_| false).await;
    drop(ws);
}

async fn endpoint(
    sock: Socket,
    client: bool,
    stack: Stack,
    tls: Option<(TlsConnector, TlsAcceptor)>,
    active: bool,
    eager: bool,
    data: Vec<u8>,
    obs: Rc<RefCell<Obs>>,
    flags: Rc<RefCell<Flags>>,
) {
    obs.borrow_mut().stage = "setup";
    let fd = match PollFd::new(sock) {
        Ok(fd) => fd,
        Err(e) => {
            let mut o = obs.borrow_mut();
            o.err = Some(("setup".into(), e.to_string()));
            o.err_seq = next_err_seq();
            return;
        }
    };
    let ws: WebSocketStream<Socket> = match (stack, client) {
        (Stack::Plain, true) => {
            step!(obs, "ws_handshake", client_async("ws://localhost/", fd).await).0
        }
        (Stack::Plain, false) => step!(obs, "ws_handshake", accept_async(fd).await),
        (_, true) => {
            let (conn, _) = tls.unwrap();
            let s = step!(obs, "tls_handshake", conn.connect("localhost", fd).await);
            step!(obs, "ws_handshake", client_async("ws://localhost/", s).await).0
        }
        (_, false) => {
            let (_, acc) = tls.unwrap();
            let s = step!(obs, "tls_handshake", acc.accept(fd).await);
            step!(obs, "ws_handshake", accept_async(s).await)
        }
    };
    program(ws, active, eager, data, obs, flags).await
}

struct Outcome {
    timed_out: bool,
    obs: [Obs; 2],
    proxy: ProxyStats,
}

fn run_case(case: &Value, stack: Stack, cert: &certs::TestCert, grace: u64) -> Result<Outcome, String> {
    let data = payload(case["payload"].as_u64().unwrap_or(0));
    let active_c = case["init"].as_str().unwrap_or("c") == "c";
    // the scenario variant is chosen by the schedule's "first" field (a TLC choice as well)
    let eager = case["first"].as_str().unwrap_or("c") != "c";
    let cut = match case["fault"]["kind"].as_str() {
        Some("cut") => Some(case["fault"]["at"].as_u64().unwrap_or(0)),
        _ => None,
    };
    let (csock, ssock, px) = proxy::chain([sched(&case["sched"]["c"]), sched(&case["sched"]["s"])], cut, grace)
        .map_err(|e| format!("socket pair: {e}"))?;
    let tls = match stack {
        Stack::Plain => None,
        Stack::Native => Some(certs::pair(cert, Backend::Native13)),
        Stack::Rustls => Some(certs::pair(cert, Backend::Rustls)),
    };
    let rt = compio_runtime::Runtime::new().map_err(|e| format!("runtime: {e}"))?;
    let oc = Rc::new(RefCell::new(Obs::default()));
    let os = Rc::new(RefCell::new(Obs::default()));
    let flags = Rc::new(RefCell::new(Flags::default()));
    let timed_out = rt.block_on(async {
        let hc = compio_runtime::spawn(endpoint(
            csock,
            true,
            stack,
            tls.clone(),
            active_c,
            eager,
            data.clone(),
            oc.clone(),
            flags.clone(),
        ));
        let hs = compio_runtime::spawn(endpoint(
            ssock,
            false,
            stack,
            tls.clone(),
            !active_c,
            eager,
            data.clone(),
            os.clone(),
            flags.clone(),
        ));
        // wait until both programs are done or one failed, within the bound
        let deadline = std::time::Instant::now() + CASE_BOUND;
        let mut timed_out = false;
        let mut last_moved = (px.moved.load(std::sync::atomic::Ordering::Relaxed), std::time::Instant::now());
        loop {
            let (c, s) = (oc.borrow(), os.borrow());
            if (c.done && s.done) || c.err.is_some() || s.err.is_some() {
                break;
            }
            if c.echo_ok == Some(false) || s.echo_ok == Some(false) {
                break;
            }
            drop((c, s));
            let now = std::time::Instant::now();
            let m = px.moved.load(std::sync::atomic::Ordering::Relaxed);
            if m != last_moved.0 {
                last_moved = (m, now);
            }
            if now >= deadline || now.duration_since(last_moved.1) >= STALL_BOUND {
                timed_out = true;
                break;
            }
            compio_runtime::time::sleep(Duration::from_millis(1)).await;
        }
        flags.borrow_mut().abort = true;
        drop(hc);
        drop(hs);
        timed_out
    });
    drop(rt);
    let proxy = px.finish();
    Ok(Outcome {
        timed_out,
        obs: [oc.take(), os.take()],
        proxy,
    })
}

fn main() {
    silence_panics();
    let cert = certs::generate();
    let stacks: Vec<Stack> = match std::env::args().nth(2) {
        Some(s) => s.split(',').filter_map(Stack::parse).collect(),
        None => vec![Stack::Plain, Stack::Native, Stack::Rustls],
    };
    let wd = Watchdog::start(Report::new());
    let mut per_stack: std::collections::BTreeMap<String, u64> = Default::default();
    let mut agg = [0u64; 5];
    let mut reruns = 0u64;
    let mut hangs = 0u64;
    let mut skipped = 0u64;
    for case in cases_from_arg() {
        for stack in &stacks {
            if hangs >= MAX_HANGS {
                skipped += 1;
                continue;
            }
            let base = json!({"site": "ws", "stack": stack.name(), "payload": case["payload"], "init": case["init"],
                "variant": if case["first"].as_str().unwrap_or("c") != "c" { "eager_close" } else { "ping_close" }});
            let mut hs = base.clone();
            hs["kind"] = json!("watchdog");
            wd.arm(
                CASE_BOUND.as_secs() + 60,
                hs,
                "the runtime did not come back (spinning inside a poll)".into(),
                &case,
            );
            let mut r = std::panic::catch_unwind(AssertUnwindSafe(|| run_case(&case, *stack, &cert, 0)));
            // tungstenite refuses an upgrade request / response that arrives in many tiny reads
            // (handshake/machine.rs AttackCheck). That is reported, and the case is run once more
            // with the HTTP exchange passing unthrottled so that the rest of the layer is exercised.
            let mut attack: Option<Outcome> = None;
            if let Ok(Ok(o)) = &r
                && o.obs.iter().any(|ob| matches!(&ob.err, Some((st, e)) if st == "ws_handshake" && e.contains("Attack attempt")))
            {
                let again = std::panic::catch_unwind(AssertUnwindSafe(|| run_case(&case, *stack, &cert, 1024)));
                if let Ok(Ok(first)) = std::mem::replace(&mut r, again) {
                    attack = Some(first);
                }
            }
            wd.disarm();
            wd.with(|rep| {
                rep.cases += 1;
                *per_stack.entry(stack.name().into()).or_default() += 1;
                if let Some(first) = &attack {
                    rep.cases += 1;
                    reruns += 1;
                    let role = if first.obs[0].err_seq != 0
                        && (first.obs[1].err_seq == 0 || first.obs[0].err_seq < first.obs[1].err_seq) { 0 } else { 1 };
                    let mut sig = base.clone();
                    sig["kind"] = json!("error");
                    sig["role"] = json!(["c", "s"][role]);
                    sig["stage"] = json!("ws_handshake");
                    sig["err"] = json!("attack_attempt");
                    rep.problem(
                        "contract",
                        sig,
                        format!("{} failed in ws_handshake: {}", ["c", "s"][role],
                            first.obs[role].err.as_ref().map(|e| e.1.clone()).unwrap_or_default()),
                        &case,
                        0,
                    );
                }
                let o = match r {
                    Ok(Ok(o)) => o,
                    Ok(Err(e)) => panic!("harness set-up failed: {e}"),
                    Err(e) => {
                        let mut sig = base.clone();
                        sig["kind"] = json!("panic");
                        rep.problem("panic", sig, panic_msg(e), &case, 0);
                        return;
                    }
                };
                rep.steps += o.proxy.steps;
                agg[0] += o.proxy.forwarded[0] + o.proxy.forwarded[1];
                agg[1] += o.proxy.skipped;
                agg[2] += o.proxy.limited_reads;
                agg[3] += o.proxy.blocked_writes;
                agg[4] += o.proxy.steps;
                let stages = json!({"c": o.obs[0].stage, "s": o.obs[1].stage});
                if o.timed_out {
                    hangs += 1;
                    let mut sig = base.clone();
                    sig["kind"] = json!("timeout");
                    sig["stage"] = stages.clone();
                    rep.problem(
                        "hang",
                        sig,
                        format!(
                            "scenario unfinished and no byte moved for {} s (or {} s in total); stages {stages}; \
                             proxy forwarded {:?} bytes in {} steps",
                            STALL_BOUND.as_secs(), CASE_BOUND.as_secs(), o.proxy.forwarded, o.proxy.steps
                        ),
                        &case,
                        0,
                    );
                    return;
                }
                // the role that failed first carries the report; what the peer sees afterwards
                // (reset, broken pipe) is a consequence
                let first = (0..2)
                    .filter(|i| o.obs[*i].err_seq != 0)
                    .min_by_key(|i| o.obs[*i].err_seq);
                for (i, role) in ["c", "s"].iter().enumerate() {
                    let ob = &o.obs[i];
                    if let Some((stage, e)) = &ob.err {
                        if first != Some(i) {
                            continue;
                        }
                        let mut sig = base.clone();
                        sig["kind"] = json!("error");
                        sig["role"] = json!(role);
                        sig["stage"] = json!(stage);
                        sig["err"] = json!(if e.contains("Attack attempt") { "attack_attempt" } else { "other" });
                        rep.problem("contract", sig, format!("{role} failed in {stage}: {e}"), &case, 0);
                    } else if ob.echo_ok == Some(false) {
                        let mut sig = base.clone();
                        sig["kind"] = json!("data");
                        sig["role"] = json!(role);
                        rep.problem("contract", sig, format!("{role}: message differs from the one sent"), &case, 0);
                    }
                }
            });
        }
    }
    wd.with(|rep| {
        rep.set("cases_per_stack", json!(per_stack));
        rep.set("cases_skipped_after_hangs", json!(skipped));
        rep.set("reruns_with_unthrottled_http_upgrade", json!(reruns));
        rep.set(
            "proxy",
            json!({"bytes_forwarded": agg[0], "steps_not_reading": agg[1], "reads_cut_by_limit": agg[2],
                   "writes_blocked_by_full_socket": agg[3], "steps": agg[4]}),
        );
    });
    wd.finish();
}
