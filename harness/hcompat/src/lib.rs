//! harness package hcompat (C12): a scripted inner compio stream and counting wakers.
//!
//! The inner stream answers every call with the next outcome of a schedule that the replay loads
//! before each step:
//!   k > 0  Ok(min(k, what was offered))   short transfer
//!   0      Ok(0)                           read: end of file, write: zero-length write
//!   -1     Err(other)
//!   -2     Poll::Pending; the waker is kept, `complete` wakes it, the next poll of the same future
//!          takes the next outcome
//! Bytes delivered by `read` are numbered 1, 2, 3, ... (`byte_val`), so the order and multiplicity of
//! everything that comes out of an adapter can be judged without knowing the schedule.
use std::{
    cell::RefCell,
    collections::VecDeque,
    future::poll_fn,
    io,
    rc::Rc,
    sync::{
        Arc,
        atomic::{AtomicUsize, Ordering},
    },
    task::{Context, Poll, Wake, Waker},
};

use compio_buf::{BufResult, IoBuf, IoBufMut, SetLenExt};
use compio_io::{AsyncRead, AsyncWrite};

pub const EOF: i64 = 0;
pub const ERR: i64 = -1;
pub const PEND: i64 = -2;

/// value of the i-th byte (1-based) of a numbered stream
pub fn byte_val(i: usize) -> u8 {
    ((i - 1) % 250 + 1) as u8
}

#[derive(Clone, Copy, PartialEq, Eq, Debug)]
pub enum Dir {
    Read,
    Write,
}

#[derive(Default)]
pub struct DirState {
    pub pending: bool,
    pub ready: bool,
    pub waker: Option<Waker>,
}

#[derive(Default)]
pub struct Script {
    pub outcomes: VecDeque<i64>,
    /// outcomes taken during the current step
    pub consumed: Vec<i64>,
    /// room offered at each data call of the current step (read: writable bytes, write: bytes offered)
    pub spaces: Vec<usize>,
    /// end-of-case mode: reads answer EOF, writes take everything, shutdown succeeds
    pub drain: bool,
    /// blocking-style replays: every other data call first answers Pending once (not part of the schedule)
    pub inject_pend: bool,
    inject_ctr: usize,
    pub delivered: Vec<u8>,
    pub received: Vec<u8>,
    pub rd: DirState,
    pub wr: DirState,
    /// calls that found the schedule empty (answered with Err)
    pub underflow: usize,
    pub read_calls: usize,
    pub write_calls: usize,
    pub flush_calls: usize,
    pub shutdown_calls: usize,
    pub shutdown_ok: usize,
    pub eof_given: bool,
    pub err_given: usize,
    pub zero_given: usize,
    /// negative control of the oracle: misreport one byte (one phantom byte "delivered", the first
    /// received byte not recorded)
    pub sabotage: bool,
    /// polls of inner futures in total (budget against endless loops in the code under test)
    pub polls: usize,
}

pub const POLL_BUDGET: usize = 100_000;

impl Script {
    fn st(&mut self, dir: Dir) -> &mut DirState {
        match dir {
            Dir::Read => &mut self.rd,
            Dir::Write => &mut self.wr,
        }
    }

    /// One poll of an inner operation. `data`: a read/write (as opposed to shutdown).
    fn poll_op(&mut self, dir: Dir, cx: &mut Context<'_>, data: bool) -> Poll<i64> {
        self.polls += 1;
        if self.polls > POLL_BUDGET {
            panic!("harness: inner poll budget exceeded (endless loop in the adapter?)");
        }
        let drain = self.drain;
        let inject = self.inject_pend && data && !drain;
        if self.st(dir).pending {
            if !self.st(dir).ready {
                self.st(dir).waker = Some(cx.waker().clone());
                return Poll::Pending;
            }
            let st = self.st(dir);
            st.pending = false;
            st.ready = false;
            st.waker = None;
        } else if inject {
            self.inject_ctr += 1;
            if self.inject_ctr % 2 == 1 {
                let st = self.st(dir);
                st.pending = true;
                st.ready = false;
                st.waker = Some(cx.waker().clone());
                return Poll::Pending;
            }
        }
        let o = if drain {
            match (dir, data) {
                (Dir::Read, _) => EOF,
                (Dir::Write, true) => i64::MAX,
                (Dir::Write, false) => 1,
            }
        } else {
            match self.outcomes.pop_front() {
                Some(o) => {
                    self.consumed.push(o);
                    o
                }
                None => {
                    self.underflow += 1;
                    ERR
                }
            }
        };
        if o == PEND {
            let st = self.st(dir);
            st.pending = true;
            st.ready = false;
            st.waker = Some(cx.waker().clone());
            return Poll::Pending;
        }
        Poll::Ready(o)
    }

    pub fn is_pending(&self, dir: Dir) -> bool {
        let st = match dir {
            Dir::Read => &self.rd,
            Dir::Write => &self.wr,
        };
        st.pending && !st.ready
    }

    pub fn holds_waker(&self, dir: Dir) -> bool {
        let st = match dir {
            Dir::Read => &self.rd,
            Dir::Write => &self.wr,
        };
        st.pending && !st.ready && st.waker.is_some()
    }

    pub fn begin_step(&mut self, os: &[i64]) {
        self.outcomes = os.iter().copied().collect();
        self.consumed.clear();
        self.spaces.clear();
    }
}

pub type Shared = Rc<RefCell<Script>>;

/// The pending inner operation becomes ready: wake whoever polled it last. Returns whether an
/// operation was pending (and had a waker).
pub fn complete(sh: &Shared, dir: Dir) -> (bool, bool) {
    let (was_pending, w) = {
        let mut s = sh.borrow_mut();
        let st = s.st(dir);
        if st.pending && !st.ready {
            st.ready = true;
            (true, st.waker.take())
        } else {
            (false, None)
        }
    };
    let had = w.is_some();
    if let Some(w) = w {
        w.wake();
    }
    (was_pending, had)
}

#[derive(Clone)]
pub struct ScriptStream(pub Shared);

impl ScriptStream {
    pub fn new() -> (Self, Shared) {
        let sh: Shared = Rc::new(RefCell::new(Script::default()));
        sh.borrow_mut().sabotage = std::env::var("VERIF_C12_SABOTAGE").is_ok();
        (Self(sh.clone()), sh)
    }
}

impl AsyncRead for ScriptStream {
    async fn read<B: IoBufMut>(&mut self, mut buf: B) -> BufResult<usize, B> {
        let room = buf.as_uninit().len();
        {
            let mut s = self.0.borrow_mut();
            s.read_calls += 1;
            s.spaces.push(room);
        }
        let sh = self.0.clone();
        let o = poll_fn(|cx| sh.borrow_mut().poll_op(Dir::Read, cx, true)).await;
        if o == ERR {
            self.0.borrow_mut().err_given += 1;
            return BufResult(Err(io::Error::other("scripted error")), buf);
        }
        let d = (o.max(0) as u64).min(room as u64) as usize;
        let mut s = self.0.borrow_mut();
        if o == EOF {
            s.eof_given = true;
        }
        if s.sabotage && d > 0 && s.delivered.is_empty() {
            s.delivered.push(byte_val(1));
        }
        {
            let un = buf.as_uninit();
            for slot in un.iter_mut().take(d) {
                let v = byte_val(s.delivered.len() + 1);
                slot.write(v);
                s.delivered.push(v);
            }
        }
        // as compio's own readers do (slice_to_buf): record the bytes written at the front
        unsafe { buf.advance_to(d) };
        BufResult(Ok(d), buf)
    }
}

impl AsyncWrite for ScriptStream {
    async fn write<T: IoBuf>(&mut self, buf: T) -> BufResult<usize, T> {
        let len = buf.as_init().len();
        {
            let mut s = self.0.borrow_mut();
            s.write_calls += 1;
            s.spaces.push(len);
        }
        let sh = self.0.clone();
        let o = poll_fn(|cx| sh.borrow_mut().poll_op(Dir::Write, cx, true)).await;
        if o == ERR {
            self.0.borrow_mut().err_given += 1;
            return BufResult(Err(io::Error::other("scripted error")), buf);
        }
        let d = (o.max(0) as u64).min(len as u64) as usize;
        let mut s = self.0.borrow_mut();
        if d == 0 {
            s.zero_given += 1;
        }
        let skip = if s.sabotage && d > 0 && s.received.is_empty() && s.write_calls == 1 { 1 } else { 0 };
        s.received.extend_from_slice(&buf.as_init()[skip..d]);
        BufResult(Ok(d), buf)
    }

    async fn flush(&mut self) -> io::Result<()> {
        self.0.borrow_mut().flush_calls += 1;
        Ok(())
    }

    async fn shutdown(&mut self) -> io::Result<()> {
        self.0.borrow_mut().shutdown_calls += 1;
        let sh = self.0.clone();
        let o = poll_fn(|cx| sh.borrow_mut().poll_op(Dir::Write, cx, false)).await;
        if o == ERR {
            self.0.borrow_mut().err_given += 1;
            return Err(io::Error::other("scripted error"));
        }
        self.0.borrow_mut().shutdown_ok += 1;
        Ok(())
    }
}

/// A waker that counts how often it was woken.
#[derive(Default)]
pub struct CountWaker(pub AtomicUsize);

impl CountWaker {
    pub fn count(&self) -> usize {
        self.0.load(Ordering::SeqCst)
    }
}

impl Wake for CountWaker {
    fn wake(self: Arc<Self>) {
        self.0.fetch_add(1, Ordering::SeqCst);
    }

    fn wake_by_ref(self: &Arc<Self>) {
        self.0.fetch_add(1, Ordering::SeqCst);
    }
}

pub fn count_waker() -> (Arc<CountWaker>, Waker) {
    let c = Arc::new(CountWaker::default());
    (c.clone(), Waker::from(c))
}
