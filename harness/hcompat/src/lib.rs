//! harness package hcompat
