//! C12: replay CompatStream behaviours (spec/Gen_CompatStream.tla) on the real compio-io compat adapters:
//! `SyncStream` (blocking-style: read/write answer WouldBlock, the caller awaits fill_read_buf /
//! flush_write_buf) and `AsyncStream` (futures-io style poll_* with one counting waker per entry point),
//! both over the scripted inner stream of `hcompat`.
//!
//! After every step
//!  * the property's own contract is evaluated on the real observation, independently of the model
//!    (`contract`): bytes handed out are the next delivered bytes, the inner stream received a prefix of
//!    the accepted bytes, limits, error causes, wake-ups; at the end of a case everything still buffered
//!    is drained and must complete the sequences exactly (nothing lost, nothing twice);
//!  * the observation is compared with the model's prediction (`mismatch` = drift).
//! Panics of the code under test are caught and reported; an inner poll budget and a watchdog thread
//! bound endless loops.
use std::{
    collections::{BTreeMap, BTreeSet},
    future::Future,
    io,
    mem::MaybeUninit,
    pin::{Pin, pin},
    sync::{
        Arc, Mutex,
        atomic::{AtomicBool, AtomicU64, Ordering},
    },
    task::{Context, Poll, Waker},
    time::Duration,
};

use compio_io::compat::{AsyncStream, SyncStream};
use futures_util::{AsyncBufRead as FBufRead, AsyncRead as FRead, AsyncWrite as FWrite};
use hcompat::{CountWaker, Dir, ScriptStream, Shared, byte_val, complete, count_waker};
use hcore::out::{Report, cases_from_arg, panic_msg, silence_panics};
use serde_json::{Value, json};

fn kind(e: &io::Error) -> &'static str {
    match e.kind() {
        io::ErrorKind::WouldBlock => "wb",
        io::ErrorKind::OutOfMemory => "oom",
        io::ErrorKind::WriteZero => "zero",
        _ => "err",
    }
}

#[derive(Default, Debug)]
struct Obs {
    k: String,
    n: usize,
    d: Vec<u8>,
    wake: BTreeSet<String>,
    eof: Option<bool>,
    hpw: Option<bool>,
}

struct Ctx<'a> {
    case: &'a Value,
    mode: String,
    side: String,
    base: usize,
    max: usize,
    variant: usize,
    rep: &'a mut Report,
    /// action of the step being executed (for panic reports)
    cur: Arc<Mutex<(usize, String)>>,
}

impl Ctx<'_> {
    fn contract(&mut self, clause: &str, extra: Value, desc: String, step: usize) {
        let mut sig = json!({"site": "compat", "mode": self.mode, "side": self.side, "clause": clause});
        if let Value::Object(m) = extra {
            for (k, v) in m {
                sig[k] = v;
            }
        }
        let d = format!(
            "{} {} half (base {}, max {}, variant {}), step {}: {}",
            self.mode, self.side, self.base, self.max, self.variant, step, desc
        );
        self.rep.problem("contract", sig, d, self.case, step);
    }

    fn mismatch(&mut self, what: &str, desc: String, step: usize) {
        let sig = json!({"site": "compat", "mode": self.mode, "side": self.side, "field": what});
        let d = format!(
            "{} {} half (base {}, max {}, variant {}), step {}: {}",
            self.mode, self.side, self.base, self.max, self.variant, step, desc
        );
        self.rep.problem("mismatch", sig, d, self.case, step);
    }
}

fn ints(v: &Value) -> Vec<i64> {
    v.as_array().map(|a| a.iter().map(|x| x.as_i64().unwrap()).collect()).unwrap_or_default()
}

fn strs(v: &Value) -> BTreeSet<String> {
    v.as_array()
        .map(|a| a.iter().map(|x| x.as_str().unwrap().to_string()).collect())
        .unwrap_or_default()
}

fn is_prefix(a: &[u8], b: &[u8]) -> bool {
    a.len() <= b.len() && &b[..a.len()] == a
}

/// Compare one observation with the model's prediction; returns false on drift.
fn compare(ctx: &mut Ctx, i: usize, a: &str, x: &Value, obs: &Obs, sh: &Shared, out: usize, acc: usize, parked: &BTreeSet<String>) -> bool {
    let s = sh.borrow();
    let mut diffs: Vec<String> = vec![];
    let xk = x["k"].as_str().unwrap();
    if xk != obs.k {
        diffs.push(format!("result kind: model {xk}, real {}", obs.k));
    }
    if x["n"].as_u64().unwrap() as usize != obs.n {
        diffs.push(format!("count: model {}, real {}", x["n"], obs.n));
    }
    let xd: Vec<u8> = ints(&x["d"]).iter().map(|&v| byte_val(v as usize)).collect();
    if xd != obs.d {
        diffs.push(format!("bytes: model {:?}, real {:?}", xd, obs.d));
    }
    let xos = ints(&x["os"]);
    if xos != s.consumed || !s.outcomes.is_empty() || s.underflow > 0 {
        diffs.push(format!(
            "inner calls: model consumed outcomes {:?}, real consumed {:?} (left {:?}, calls beyond the schedule {})",
            xos, s.consumed, s.outcomes, s.underflow
        ));
    }
    let xsp: Vec<usize> = ints(&x["sp"]).iter().map(|&v| v as usize).collect();
    if xsp != s.spaces {
        diffs.push(format!("room offered to the inner stream: model {:?}, real {:?}", xsp, s.spaces));
    }
    if strs(&x["wake"]) != obs.wake {
        diffs.push(format!("woken entry points: model {:?}, real {:?}", strs(&x["wake"]), obs.wake));
    }
    if &strs(&x["pk"]) != parked {
        diffs.push(format!("parked entry points: model {:?}, real {:?}", strs(&x["pk"]), parked));
    }
    if ctx.side == "r" {
        if x["src"].as_u64().unwrap() as usize != s.delivered.len() {
            diffs.push(format!("delivered: model {}, real {}", x["src"], s.delivered.len()));
        }
        if x["out"].as_u64().unwrap() as usize != out {
            diffs.push(format!("handed out: model {}, real {}", x["out"], out));
        }
        if let Some(e) = obs.eof {
            if x["eof"].as_bool().unwrap() != e {
                diffs.push(format!("eof flag: model {}, real {}", x["eof"], e));
            }
        }
    } else {
        if x["acc"].as_u64().unwrap() as usize != acc {
            diffs.push(format!("accepted: model {}, real {}", x["acc"], acc));
        }
        if x["sink"].as_u64().unwrap() as usize != s.received.len() {
            diffs.push(format!("received by inner: model {}, real {}", x["sink"], s.received.len()));
        }
        if x["shut"].as_u64().unwrap() as usize != s.shutdown_ok {
            diffs.push(format!("shutdowns: model {}, real {}", x["shut"], s.shutdown_ok));
        }
        if let Some(h) = obs.hpw {
            if x["hpw"].as_bool().unwrap() != h {
                diffs.push(format!("has_pending_write: model {}, real {}", x["hpw"], h));
            }
        }
    }
    drop(s);
    if diffs.is_empty() {
        true
    } else {
        ctx.mismatch(a, format!("{a}: {}", diffs.join("; ")), i);
        false
    }
}

/// Await a future of the blocking-style adapter: poll; on Pending let the inner operation complete
/// (which must wake the waker we polled with) and poll again.
fn drive<F: Future>(fut: F, sh: &Shared) -> F::Output {
    let mut fut = pin!(fut);
    let (cw, waker) = count_waker();
    let mut cx = Context::from_waker(&waker);
    for _ in 0..10_000 {
        match fut.as_mut().poll(&mut cx) {
            Poll::Ready(v) => return v,
            Poll::Pending => {
                let before = cw.count();
                let dir = if sh.borrow().is_pending(Dir::Read) { Dir::Read } else { Dir::Write };
                let (was, _) = complete(sh, dir);
                if !was {
                    panic!("harness: future is Pending but no inner operation is pending");
                }
                if cw.count() == before {
                    panic!("lost wake-up: inner operation completed but the awaiting task was not woken");
                }
            }
        }
    }
    panic!("harness: future did not complete within 10000 polls");
}

// ------------------------------------------------------------------------------------------------
// read half: what both adapters must satisfy
// ------------------------------------------------------------------------------------------------
struct RTrack {
    out: Vec<u8>,
    /// remainder of the last view fill_buf returned (what the caller may consume)
    view: Vec<u8>,
}

impl RTrack {
    /// `bytes` were handed to the caller (read) or shown (fill_buf, `shown`); `asked` = the caller asked for > 0 bytes
    fn check_out(&mut self, ctx: &mut Ctx, sh: &Shared, i: usize, a: &str, bytes: &[u8], shown: bool, asked: bool) {
        let s = sh.borrow();
        let mut seq = self.out.clone();
        seq.extend_from_slice(bytes);
        if !is_prefix(&seq, &s.delivered) {
            ctx.contract(
                "fifo_out",
                json!({"action": a}),
                format!(
                    "{a} produced {:?} after {:?} had been handed out, but the inner stream delivered {:?}",
                    bytes, self.out, s.delivered
                ),
                i,
            );
        }
        if bytes.is_empty() && asked && !(s.eof_given && self.out.len() == s.delivered.len()) {
            ctx.contract(
                "premature_eof",
                json!({"action": a}),
                format!(
                    "{a} reports end of file (eof given by inner: {}) with {} of {} delivered bytes handed out",
                    s.eof_given,
                    self.out.len(),
                    s.delivered.len()
                ),
                i,
            );
        }
        if !shown {
            self.out.extend_from_slice(bytes);
        }
    }
}

fn run_sync_read(ctx: &mut Ctx, steps: &[Value]) {
    let (ss, sh) = ScriptStream::new();
    sh.borrow_mut().inject_pend = true;
    let mut s = SyncStream::with_limits(ctx.base, ctx.max, ss);
    let mut t = RTrack { out: vec![], view: vec![] };
    let none = BTreeSet::new();
    let mut drift = false;
    for (i, st) in steps.iter().enumerate() {
        ctx.rep.steps += 1;
        let a = st["a"].as_str().unwrap();
        let n = st["n"].as_u64().unwrap() as usize;
        let x = &st["x"];
        *ctx.cur.lock().unwrap() = (i, a.to_string());
        sh.borrow_mut().begin_step(&ints(&x["os"]));
        let pre_buffered = sh.borrow().delivered.len() - t.out.len();
        let pre_delivered = sh.borrow().delivered.len();
        let pre_calls = sh.borrow().read_calls;
        let pre_err = sh.borrow().err_given;
        let mut obs = Obs::default();
        match a {
            "read" => {
                let mut buf = vec![0u8; n];
                let r = if ctx.variant == 0 {
                    io::Read::read(&mut s, &mut buf)
                } else {
                    let mut ub = vec![MaybeUninit::<u8>::uninit(); n];
                    s.read_buf_uninit(&mut ub).inspect(|&m| {
                        for j in 0..m {
                            buf[j] = unsafe { ub[j].assume_init() };
                        }
                    })
                };
                t.view.clear();
                match r {
                    Ok(m) => {
                        obs.k = "ok".into();
                        obs.n = m;
                        obs.d = buf[..m.min(n)].to_vec();
                        if m > n {
                            ctx.contract("fifo_out", json!({"action": a}), format!("read of {n} bytes returned {m}"), i);
                        }
                        t.check_out(ctx, &sh, i, a, &obs.d.clone(), false, n > 0);
                    }
                    Err(e) => {
                        obs.k = kind(&e).into();
                        if obs.k == "wb" {
                            if pre_buffered > 0 || sh.borrow().eof_given {
                                ctx.contract(
                                    "stall",
                                    json!({"action": a}),
                                    format!("read answers WouldBlock although {pre_buffered} delivered bytes are unread (eof given: {})", sh.borrow().eof_given),
                                    i,
                                );
                            }
                        } else {
                            ctx.contract("unexpected_error", json!({"action": a}), format!("read failed: {e}"), i);
                        }
                    }
                }
            }
            "fill_buf" => match io::BufRead::fill_buf(&mut s) {
                Ok(v) => {
                    obs.k = "ok".into();
                    obs.n = v.len();
                    obs.d = v.to_vec();
                    t.view = v.to_vec();
                    t.check_out(ctx, &sh, i, a, &obs.d.clone(), true, true);
                }
                Err(e) => {
                    obs.k = kind(&e).into();
                    t.view.clear();
                    if obs.k == "wb" {
                        if pre_buffered > 0 || sh.borrow().eof_given {
                            ctx.contract("stall", json!({"action": a}), format!("fill_buf answers WouldBlock although {pre_buffered} delivered bytes are unread"), i);
                        }
                    } else {
                        ctx.contract("unexpected_error", json!({"action": a}), format!("fill_buf failed: {e}"), i);
                    }
                }
            },
            "consume" => {
                if t.view.len() < n {
                    ctx.mismatch(a, format!("model consumes {n} bytes but the caller was shown only {}", t.view.len()), i);
                    drift = true;
                    break;
                }
                io::BufRead::consume(&mut s, n);
                obs.k = "ok".into();
                obs.n = n;
                obs.d = t.view[..n].to_vec();
                t.out.extend_from_slice(&t.view[..n]);
                t.view.drain(..n);
            }
            "fill_read_buf" => {
                t.view.clear();
                let r = drive(s.fill_read_buf(), &sh);
                let sb = sh.borrow();
                let called = sb.read_calls > pre_calls;
                let grew = sb.delivered.len() - pre_delivered;
                let erred = sb.err_given > pre_err;
                let eofg = sb.eof_given;
                drop(sb);
                if pre_buffered >= ctx.max && called {
                    ctx.contract(
                        "limit_unreported",
                        json!({"action": a}),
                        format!("fill_read_buf with {pre_buffered} unread bytes buffered (limit {}) asked the inner stream for more instead of reporting the limit", ctx.max),
                        i,
                    );
                }
                match r {
                    Ok(m) => {
                        obs.k = "ok".into();
                        obs.n = m;
                        if m != grew {
                            ctx.contract("fill_count", json!({"action": a}), format!("fill_read_buf returned {m} but the inner stream delivered {grew} bytes"), i);
                        }
                        if m == 0 && !eofg {
                            ctx.contract("premature_eof", json!({"action": a}), "fill_read_buf returned 0 although the inner stream never reported end of file".into(), i);
                        }
                    }
                    Err(e) => {
                        obs.k = kind(&e).into();
                        let ok = match obs.k.as_str() {
                            "oom" => pre_buffered >= ctx.max && !called,
                            "err" => erred,
                            _ => false,
                        };
                        if !ok {
                            ctx.contract(
                                "unexpected_error",
                                json!({"action": a}),
                                format!("fill_read_buf failed with `{e}` ({pre_buffered} unread bytes buffered, limit {}, inner stream asked: {called}, inner error: {erred})", ctx.max),
                                i,
                            );
                        }
                    }
                }
            }
            _ => panic!("harness: unknown sync read action {a}"),
        }
        // limits: unread bytes buffered never exceed max_buffer_size
        let buffered = sh.borrow().delivered.len() - t.out.len();
        if buffered > ctx.max && buffered > pre_buffered {
            ctx.contract(
                "limit_overshoot",
                json!({"action": a, "pre_below_limit": pre_buffered < ctx.max, "within_base": buffered < ctx.max + ctx.base,
                       "deviation_predicted": x["dev"].as_bool().unwrap_or(false)}),
                format!(
                    "{buffered} unread bytes are buffered after {a}, max_buffer_size is {} ({pre_buffered} were buffered before the call)",
                    ctx.max
                ),
                i,
            );
        }
        obs.eof = Some(s.is_eof());
        if !compare(ctx, i, a, x, &obs, &sh, t.out.len(), 0, &none) {
            drift = true;
            break;
        }
    }
    let _ = drift;
    // nothing lost: what is still buffered completes the delivered sequence exactly
    *ctx.cur.lock().unwrap() = (steps.len(), "into_parts".to_string());
    let (_, rest) = s.into_parts();
    let mut all = t.out.clone();
    all.extend_from_slice(&rest);
    let delivered = sh.borrow().delivered.clone();
    if all != delivered {
        ctx.contract(
            "loss",
            json!({"action": "into_parts"}),
            format!("handed out {:?} + still buffered {:?} differs from what the inner stream delivered {:?}", t.out, rest, delivered),
            steps.len(),
        );
    }
}

// ------------------------------------------------------------------------------------------------
// write half
// ------------------------------------------------------------------------------------------------
struct WTrack {
    acc: Vec<u8>,
}

impl WTrack {
    fn next_bytes(&self, n: usize) -> Vec<u8> {
        (0..n).map(|j| byte_val(self.acc.len() + 1 + j)).collect()
    }

    fn after_write(&mut self, ctx: &mut Ctx, sh: &Shared, i: usize, a: &str, offered: &[u8], m: usize) {
        if m > offered.len() {
            ctx.contract("accept_count", json!({"action": a}), format!("{a} of {} bytes reports {m} accepted", offered.len()), i);
        }
        self.acc.extend_from_slice(&offered[..m.min(offered.len())]);
        let buffered = self.acc.len() - sh.borrow().received.len().min(self.acc.len());
        if m < offered.len() && buffered != ctx.max {
            ctx.contract(
                "partial_accept",
                json!({"action": a}),
                format!("{a} accepted {m} of {} bytes although only {buffered} bytes are buffered (limit {})", offered.len(), ctx.max),
                i,
            );
        }
    }

    /// after every step
    fn invariant(&self, ctx: &mut Ctx, sh: &Shared, i: usize, a: &str) {
        let s = sh.borrow();
        if !is_prefix(&s.received, &self.acc) {
            ctx.contract(
                "fifo_in",
                json!({"action": a}),
                format!("the inner stream received {:?}, the adapter accepted {:?}", s.received, self.acc),
                i,
            );
        } else if self.acc.len() - s.received.len() > ctx.max {
            ctx.contract(
                "write_limit",
                json!({"action": a}),
                format!("{} unsent bytes are buffered, max_buffer_size is {}", self.acc.len() - s.received.len(), ctx.max),
                i,
            );
        }
    }

    fn flushed(&self, ctx: &mut Ctx, sh: &Shared, i: usize, a: &str) {
        let s = sh.borrow();
        if s.received != self.acc {
            ctx.contract(
                "flush_incomplete",
                json!({"action": a}),
                format!("{a} succeeded but the inner stream has {:?} of the accepted {:?}", s.received, self.acc),
                i,
            );
        }
    }
}

fn run_sync_write(ctx: &mut Ctx, steps: &[Value]) {
    let (ss, sh) = ScriptStream::new();
    sh.borrow_mut().inject_pend = true;
    let mut s = SyncStream::with_limits(ctx.base, ctx.max, ss);
    let mut t = WTrack { acc: vec![] };
    let none = BTreeSet::new();
    for (i, st) in steps.iter().enumerate() {
        ctx.rep.steps += 1;
        let a = st["a"].as_str().unwrap();
        let n = st["n"].as_u64().unwrap() as usize;
        let x = &st["x"];
        *ctx.cur.lock().unwrap() = (i, a.to_string());
        sh.borrow_mut().begin_step(&ints(&x["os"]));
        let pre_recv = sh.borrow().received.len();
        let pre_err = sh.borrow().err_given;
        let pre_zero = sh.borrow().zero_given;
        let pre_calls = sh.borrow().write_calls + sh.borrow().flush_calls;
        let mut obs = Obs::default();
        match a {
            "write" => {
                let bytes = t.next_bytes(n);
                match io::Write::write(&mut s, &bytes) {
                    Ok(m) => {
                        obs.k = "ok".into();
                        obs.n = m;
                        t.after_write(ctx, &sh, i, a, &bytes, m);
                    }
                    Err(e) => {
                        obs.k = kind(&e).into();
                        if obs.k != "wb" {
                            ctx.contract("unexpected_error", json!({"action": a}), format!("write failed: {e}"), i);
                        }
                    }
                }
            }
            "flush" => {
                match io::Write::flush(&mut s) {
                    Ok(()) => obs.k = "ok".into(),
                    Err(e) => {
                        obs.k = kind(&e).into();
                        ctx.contract("unexpected_error", json!({"action": a}), format!("Write::flush failed: {e}"), i);
                    }
                }
                if sh.borrow().write_calls + sh.borrow().flush_calls != pre_calls {
                    ctx.mismatch(a, "Write::flush touched the inner stream".into(), i);
                }
            }
            "flush_write_buf" => match drive(s.flush_write_buf(), &sh) {
                Ok(f) => {
                    obs.k = "ok".into();
                    obs.n = f;
                    t.flushed(ctx, &sh, i, a);
                    let got = sh.borrow().received.len() - pre_recv;
                    if f != got {
                        ctx.contract("flush_count", json!({"action": a}), format!("flush_write_buf returned {f} but the inner stream received {got} bytes"), i);
                    }
                }
                Err(e) => {
                    obs.k = kind(&e).into();
                    let ok = match obs.k.as_str() {
                        "err" => sh.borrow().err_given > pre_err,
                        "zero" => sh.borrow().zero_given > pre_zero,
                        _ => false,
                    };
                    if !ok {
                        ctx.contract("unexpected_error", json!({"action": a}), format!("flush_write_buf failed with `{e}` without a matching inner failure"), i);
                    }
                }
            },
            _ => panic!("harness: unknown sync write action {a}"),
        }
        t.invariant(ctx, &sh, i, a);
        obs.hpw = Some(s.has_pending_write());
        if !compare(ctx, i, a, x, &obs, &sh, 0, t.acc.len(), &none) {
            break;
        }
    }
    // a retry (against a stream that now takes everything) must send exactly the unsent bytes
    *ctx.cur.lock().unwrap() = (steps.len(), "drain".to_string());
    sh.borrow_mut().drain = true;
    let mut ok = false;
    for _ in 0..3 {
        if drive(s.flush_write_buf(), &sh).is_ok() {
            ok = true;
            break;
        }
    }
    let sb = sh.borrow();
    if !ok || sb.received != t.acc {
        ctx.contract(
            "loss",
            json!({"action": "drain"}),
            format!("after a final flush (succeeded: {ok}) the inner stream has {:?}, accepted were {:?}", sb.received, t.acc),
            steps.len(),
        );
    }
}

// ------------------------------------------------------------------------------------------------
// poll-style adapter
// ------------------------------------------------------------------------------------------------
struct Wakers {
    w: BTreeMap<&'static str, (Arc<CountWaker>, Waker)>,
    /// entry points whose last poll returned Pending, with the wake count at that time
    parked: BTreeMap<String, usize>,
}

impl Wakers {
    fn new(names: [&'static str; 3]) -> Self {
        let mut w = BTreeMap::new();
        for n in names {
            w.insert(n, count_waker());
        }
        Self { w, parked: BTreeMap::new() }
    }

    fn waker(&self, e: &str) -> Waker {
        self.w[e].1.clone()
    }

    fn counts(&self) -> BTreeMap<&'static str, usize> {
        self.w.iter().map(|(k, v)| (*k, v.0.count())).collect()
    }

    fn parked_set(&self) -> BTreeSet<String> {
        // an entry point that was woken in the meantime is no longer parked
        self.parked.iter().filter(|(e, c)| self.w[e.as_str()].0.count() == **c).map(|(e, _)| e.clone()).collect()
    }

    fn polled(&mut self, ctx: &mut Ctx, sh: &Shared, dir: Dir, i: usize, a: &str, e: &'static str, pending: bool) {
        if pending {
            self.parked.insert(e.to_string(), self.w[e].0.count());
            if !sh.borrow().holds_waker(dir) {
                ctx.contract(
                    "lost_wake",
                    json!({"action": a, "entry": e, "when": "pending"}),
                    format!("{a} returned Pending but no inner operation is in flight holding a waker: nobody will wake the task"),
                    i,
                );
            }
        } else {
            self.parked.remove(e);
        }
    }

    /// the inner operation completes; returns the set of woken entry points
    fn complete(&mut self, ctx: &mut Ctx, sh: &Shared, dir: Dir, i: usize) -> (bool, BTreeSet<String>) {
        let parked = self.parked_set();
        let before = self.counts();
        let (was, _) = complete(sh, dir);
        let after = self.counts();
        let woken: BTreeSet<String> = after.iter().filter(|(k, v)| **v > before[*k]).map(|(k, _)| k.to_string()).collect();
        for e in &parked {
            if !woken.contains(e) {
                ctx.contract(
                    "lost_wake",
                    json!({"action": "complete", "entry": e, "when": "complete"}),
                    format!("the in-flight operation completed; the task waiting in `{e}` was not woken (woken: {:?}, waiting: {:?})", woken, parked),
                    i,
                );
            }
        }
        self.parked.retain(|e, _| !woken.contains(e));
        (was, woken)
    }
}

type AStream = AsyncStream<(ScriptStream, ScriptStream)>;

fn run_async_read(ctx: &mut Ctx, steps: &[Value]) {
    let (ss, sh) = ScriptStream::new();
    let mut s: Pin<Box<AStream>> = Box::pin(AsyncStream::with_limits(ctx.base, ctx.max, (ss.clone(), ss)));
    let mut t = RTrack { out: vec![], view: vec![] };
    let mut wk = Wakers::new(["read", "uninit", "fill"]);
    for (i, st) in steps.iter().enumerate() {
        ctx.rep.steps += 1;
        let a = st["a"].as_str().unwrap();
        let n = st["n"].as_u64().unwrap() as usize;
        let x = &st["x"];
        *ctx.cur.lock().unwrap() = (i, a.to_string());
        sh.borrow_mut().begin_step(&ints(&x["os"]));
        let pre_err = sh.borrow().err_given;
        let pre_buffered = sh.borrow().delivered.len() - t.out.len();
        let mut obs = Obs::default();
        match a {
            "pread" | "puninit" => {
                let e: &'static str = if a == "pread" { "read" } else { "uninit" };
                let waker = wk.waker(e);
                let mut cx = Context::from_waker(&waker);
                let mut buf = vec![0u8; n];
                let r = if a == "pread" {
                    FRead::poll_read(s.as_mut(), &mut cx, &mut buf)
                } else {
                    let mut ub = vec![MaybeUninit::<u8>::uninit(); n];
                    s.as_mut().poll_read_uninit(&mut cx, &mut ub).map_ok(|m| {
                        for j in 0..m.min(n) {
                            buf[j] = unsafe { ub[j].assume_init() };
                        }
                        m
                    })
                };
                t.view.clear();
                match r {
                    Poll::Pending => {
                        obs.k = "pending".into();
                        wk.polled(ctx, &sh, Dir::Read, i, a, e, true);
                    }
                    Poll::Ready(Ok(m)) => {
                        wk.polled(ctx, &sh, Dir::Read, i, a, e, false);
                        obs.k = "ok".into();
                        obs.n = m;
                        obs.d = buf[..m.min(n)].to_vec();
                        if m > n {
                            ctx.contract("fifo_out", json!({"action": a}), format!("read of {n} bytes returned {m}"), i);
                        }
                        t.check_out(ctx, &sh, i, a, &obs.d.clone(), false, n > 0);
                    }
                    Poll::Ready(Err(err)) => {
                        wk.polled(ctx, &sh, Dir::Read, i, a, e, false);
                        obs.k = kind(&err).into();
                        if !(obs.k == "err" && sh.borrow().err_given > pre_err) {
                            ctx.contract("unexpected_error", json!({"action": a}), format!("{a} failed with `{err}` without a matching inner failure"), i);
                        }
                    }
                }
            }
            "pfill" => {
                let waker = wk.waker("fill");
                let mut cx = Context::from_waker(&waker);
                let r = FBufRead::poll_fill_buf(s.as_mut(), &mut cx).map_ok(|v| v.to_vec());
                match r {
                    Poll::Pending => {
                        obs.k = "pending".into();
                        t.view.clear();
                        wk.polled(ctx, &sh, Dir::Read, i, a, "fill", true);
                    }
                    Poll::Ready(Ok(v)) => {
                        wk.polled(ctx, &sh, Dir::Read, i, a, "fill", false);
                        obs.k = "ok".into();
                        obs.n = v.len();
                        obs.d = v.clone();
                        t.view = v;
                        t.check_out(ctx, &sh, i, a, &obs.d.clone(), true, true);
                    }
                    Poll::Ready(Err(err)) => {
                        wk.polled(ctx, &sh, Dir::Read, i, a, "fill", false);
                        t.view.clear();
                        obs.k = kind(&err).into();
                        if !(obs.k == "err" && sh.borrow().err_given > pre_err) {
                            ctx.contract("unexpected_error", json!({"action": a}), format!("{a} failed with `{err}` without a matching inner failure"), i);
                        }
                    }
                }
            }
            "consume" => {
                if t.view.len() < n {
                    ctx.mismatch(a, format!("model consumes {n} bytes but the caller was shown only {}", t.view.len()), i);
                    break;
                }
                FBufRead::consume(s.as_mut(), n);
                obs.k = "ok".into();
                obs.n = n;
                obs.d = t.view[..n].to_vec();
                t.out.extend_from_slice(&t.view[..n]);
                t.view.drain(..n);
            }
            "complete" => {
                let (was, woken) = wk.complete(ctx, &sh, Dir::Read, i);
                if !was {
                    ctx.mismatch(a, "model has a read in flight, the real inner stream has none pending".into(), i);
                    break;
                }
                obs.k = "wake".into();
                obs.wake = woken;
            }
            _ => panic!("harness: unknown async read action {a}"),
        }
        let buffered = sh.borrow().delivered.len() - t.out.len();
        if buffered > ctx.max && buffered > pre_buffered {
            ctx.contract(
                "limit_overshoot",
                json!({"action": a, "pre_below_limit": pre_buffered < ctx.max, "within_base": buffered < ctx.max + ctx.base,
                       "deviation_predicted": x["dev"].as_bool().unwrap_or(false)}),
                format!("{buffered} unread bytes are buffered after {a}, max_buffer_size is {} ({pre_buffered} were buffered before the call)", ctx.max),
                i,
            );
        }
        let parked = wk.parked_set();
        if !compare(ctx, i, a, x, &obs, &sh, t.out.len(), 0, &parked) {
            break;
        }
    }
    // drain: whatever is in flight completes, the inner stream then reports end of file; everything
    // delivered must come out exactly once
    *ctx.cur.lock().unwrap() = (steps.len(), "drain".to_string());
    let nsteps = steps.len();
    if sh.borrow().is_pending(Dir::Read) {
        wk.complete(ctx, &sh, Dir::Read, nsteps);
    }
    sh.borrow_mut().drain = true;
    let waker = wk.waker("read");
    let mut cx = Context::from_waker(&waker);
    let mut done = false;
    for _ in 0..64 {
        let mut buf = [0u8; 64];
        match FRead::poll_read(s.as_mut(), &mut cx, &mut buf) {
            Poll::Ready(Ok(0)) => {
                done = true;
                break;
            }
            Poll::Ready(Ok(m)) => t.out.extend_from_slice(&buf[..m]),
            Poll::Ready(Err(_)) => {}
            Poll::Pending => {
                complete(&sh, Dir::Read);
            }
        }
    }
    let delivered = sh.borrow().delivered.clone();
    if !done || t.out != delivered {
        ctx.contract(
            "loss",
            json!({"action": "drain"}),
            format!("reading to the end (reached: {done}) produced {:?}, the inner stream delivered {:?}", t.out, delivered),
            nsteps,
        );
    }
}

fn run_async_write(ctx: &mut Ctx, steps: &[Value]) {
    let (ss, sh) = ScriptStream::new();
    let mut s: Pin<Box<AStream>> = Box::pin(AsyncStream::with_limits(ctx.base, ctx.max, (ss.clone(), ss)));
    let mut t = WTrack { acc: vec![] };
    let mut wk = Wakers::new(["write", "flush", "close"]);
    for (i, st) in steps.iter().enumerate() {
        ctx.rep.steps += 1;
        let a = st["a"].as_str().unwrap();
        let n = st["n"].as_u64().unwrap() as usize;
        let x = &st["x"];
        *ctx.cur.lock().unwrap() = (i, a.to_string());
        sh.borrow_mut().begin_step(&ints(&x["os"]));
        let pre_err = sh.borrow().err_given;
        let pre_zero = sh.borrow().zero_given;
        let mut obs = Obs::default();
        let e: &'static str = match a {
            "pwrite" => "write",
            "pflush" => "flush",
            "pclose" => "close",
            _ => "",
        };
        match a {
            "pwrite" | "pflush" | "pclose" => {
                let waker = wk.waker(e);
                let mut cx = Context::from_waker(&waker);
                let bytes = t.next_bytes(n);
                let r: Poll<io::Result<usize>> = match a {
                    "pwrite" => FWrite::poll_write(s.as_mut(), &mut cx, &bytes),
                    "pflush" => FWrite::poll_flush(s.as_mut(), &mut cx).map_ok(|_| 0),
                    _ => FWrite::poll_close(s.as_mut(), &mut cx).map_ok(|_| 0),
                };
                match r {
                    Poll::Pending => {
                        obs.k = "pending".into();
                        wk.polled(ctx, &sh, Dir::Write, i, a, e, true);
                    }
                    Poll::Ready(Ok(m)) => {
                        wk.polled(ctx, &sh, Dir::Write, i, a, e, false);
                        obs.k = "ok".into();
                        obs.n = m;
                        match a {
                            "pwrite" => t.after_write(ctx, &sh, i, a, &bytes, m),
                            "pflush" => t.flushed(ctx, &sh, i, a),
                            _ => {
                                t.flushed(ctx, &sh, i, a);
                                if sh.borrow().shutdown_ok == 0 {
                                    ctx.contract("close_without_shutdown", json!({"action": a}), "poll_close succeeded but the inner stream was never shut down".into(), i);
                                }
                            }
                        }
                    }
                    Poll::Ready(Err(err)) => {
                        wk.polled(ctx, &sh, Dir::Write, i, a, e, false);
                        obs.k = kind(&err).into();
                        let ok = match obs.k.as_str() {
                            "err" => sh.borrow().err_given > pre_err,
                            "zero" => sh.borrow().zero_given > pre_zero,
                            _ => false,
                        };
                        if !ok {
                            ctx.contract("unexpected_error", json!({"action": a}), format!("{a} failed with `{err}` without a matching inner failure"), i);
                        }
                    }
                }
            }
            "complete" => {
                let (was, woken) = wk.complete(ctx, &sh, Dir::Write, i);
                if !was {
                    ctx.mismatch(a, "model has a write-side operation in flight, the real inner stream has none pending".into(), i);
                    break;
                }
                obs.k = "wake".into();
                obs.wake = woken;
            }
            _ => panic!("harness: unknown async write action {a}"),
        }
        t.invariant(ctx, &sh, i, a);
        let parked = wk.parked_set();
        if !compare(ctx, i, a, x, &obs, &sh, 0, t.acc.len(), &parked) {
            break;
        }
    }
    *ctx.cur.lock().unwrap() = (steps.len(), "drain".to_string());
    let nsteps = steps.len();
    if sh.borrow().is_pending(Dir::Write) {
        wk.complete(ctx, &sh, Dir::Write, nsteps);
    }
    sh.borrow_mut().drain = true;
    let waker = wk.waker("flush");
    let mut cx = Context::from_waker(&waker);
    let mut done = false;
    for _ in 0..16 {
        match FWrite::poll_flush(s.as_mut(), &mut cx) {
            Poll::Ready(Ok(())) => {
                done = true;
                break;
            }
            Poll::Ready(Err(_)) => {}
            Poll::Pending => {
                complete(&sh, Dir::Write);
            }
        }
    }
    let sb = sh.borrow();
    if !done || sb.received != t.acc {
        ctx.contract(
            "loss",
            json!({"action": "drain"}),
            format!("after a final flush (succeeded: {done}) the inner stream has {:?}, accepted were {:?}", sb.received, t.acc),
            nsteps,
        );
    }
}

fn run_case(case: &Value, variant: usize, rep: &mut Report, cur: Arc<Mutex<(usize, String)>>) {
    let mode = case["mode"].as_str().unwrap().to_string();
    let side = case["side"].as_str().unwrap().to_string();
    let steps = case["steps"].as_array().unwrap().clone();
    let mut ctx = Ctx {
        case,
        mode: mode.clone(),
        side: side.clone(),
        base: case["base"].as_u64().unwrap() as usize,
        max: case["max"].as_u64().unwrap() as usize,
        variant,
        rep,
        cur,
    };
    match (mode.as_str(), side.as_str()) {
        ("sync", "r") => run_sync_read(&mut ctx, &steps),
        ("sync", "w") => run_sync_write(&mut ctx, &steps),
        ("async", "r") => run_async_read(&mut ctx, &steps),
        ("async", "w") => run_async_write(&mut ctx, &steps),
        _ => panic!("harness: unknown mode/side"),
    }
}

fn worker(progress: Arc<AtomicU64>, current: Arc<Mutex<Option<Value>>>, done: Arc<AtomicBool>) {
    let mut rep = Report::new();
    let mut per = BTreeMap::<String, u64>::new();
    // statistics of the behaviour set (the check requires every action and result kind to occur)
    let mut last_steps = BTreeMap::<String, u64>::new();
    let mut kinds = BTreeMap::<String, u64>::new();
    let mut max_len = 0usize;
    let mut longest = Value::Null;
    for case in cases_from_arg() {
        if let Some(st) = case["steps"].as_array() {
            if let Some(l) = st.last() {
                *last_steps.entry(format!("{}:{}", case["mode"].as_str().unwrap_or(""), l["a"].as_str().unwrap_or(""))).or_insert(0) += 1;
                *kinds.entry(l["x"]["k"].as_str().unwrap_or("").to_string()).or_insert(0) += 1;
            }
            if st.len() > max_len {
                max_len = st.len();
                longest = case.clone();
            }
        }
        *current.lock().unwrap() = Some(case.clone());
        let is_sync_read = case["mode"] == "sync"
            && case["side"] == "r"
            && case["steps"].as_array().unwrap().iter().any(|s| s["a"] == "read");
        // the blocking-style read exists twice: Read::read and read_buf_uninit
        for variant in 0..(if is_sync_read { 2 } else { 1 }) {
            let cur = Arc::new(Mutex::new((0usize, String::new())));
            let r = std::panic::catch_unwind(std::panic::AssertUnwindSafe(|| run_case(&case, variant, &mut rep, cur.clone())));
            if let Err(e) = r {
                let (step, action) = cur.lock().unwrap().clone();
                let msg = panic_msg(e);
                let ty = if msg.starts_with("harness: inner poll budget") { "hang" } else { "panic" };
                rep.problem(
                    ty,
                    json!({"site": "compat", "mode": case["mode"], "side": case["side"], "clause": ty, "action": action}),
                    format!("{} {} half (base {}, max {}), step {step} ({action}): {msg}", case["mode"], case["side"], case["base"], case["max"]),
                    &case,
                    step,
                );
            }
        }
        rep.cases += 1;
        *per.entry(format!("{}-{}", case["mode"].as_str().unwrap(), case["side"].as_str().unwrap())).or_insert(0) += 1;
        progress.fetch_add(1, Ordering::SeqCst);
    }
    rep.set("per_kind", json!(per));
    rep.set("last_steps", json!(last_steps));
    rep.set("kinds", json!(kinds));
    rep.set("max_len", json!(max_len));
    rep.set("longest", longest);
    done.store(true, Ordering::SeqCst);
    rep.finish();
}

fn main() {
    if std::env::var("VERIF_SHOW_PANICS").is_err() {
        silence_panics();
    }
    let progress = Arc::new(AtomicU64::new(0));
    let current: Arc<Mutex<Option<Value>>> = Arc::new(Mutex::new(None));
    let done = Arc::new(AtomicBool::new(false));
    let (p2, c2, d2) = (progress.clone(), current.clone(), done.clone());
    let h = std::thread::Builder::new()
        .stack_size(64 << 20)
        .spawn(move || worker(p2, c2, d2))
        .unwrap();
    // watchdog: a case that makes no progress for 60 s is an endless loop in the code under test
    let mut last = 0u64;
    let mut idle = 0u32;
    loop {
        if h.is_finished() {
            break;
        }
        std::thread::sleep(Duration::from_millis(200));
        let p = progress.load(Ordering::SeqCst);
        if p != last {
            last = p;
            idle = 0;
        } else {
            idle += 1;
        }
        if idle > 300 && !done.load(Ordering::SeqCst) {
            let case = current.lock().unwrap().clone().unwrap_or(Value::Null);
            let sig = json!({"site": "compat", "mode": case["mode"], "side": case["side"], "clause": "hang", "action": "watchdog"});
            println!(
                "{}",
                json!({"type": "hang", "sig": sig, "desc": "no progress for 60 s inside one behaviour: endless loop in the adapter", "case": case, "step": 0})
            );
            println!(
                "{}",
                json!({"type": "summary", "cases": p, "steps": 0, "partial": true, "problems": [{"type": "hang", "sig": sig, "count": 1}]})
            );
            std::process::exit(0);
        }
    }
    if h.join().is_err() {
        eprintln!("worker thread panicked");
        std::process::exit(3);
    }
}
