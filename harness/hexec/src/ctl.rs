//! Schedule controller: real threads park at the `exec.*` hook points of compio-executor until the
//! controller grants them a turn, so that "release thread T once" = "T performs exactly one action
//! of spec/TaskRemote.tla" (each hook sits immediately before an atomic access).
//!
//! Containment: a thread that is about to touch freed memory (the task allocation after
//! `exec.task.dealloc`, the Shared block after `exec.free_shared`) is never released again
//! ("quarantined"): the violation is established by the order of the recorded events, the
//! use-after-free itself never happens in the harness process.
use std::{
    collections::HashMap,
    sync::{Condvar, Mutex, MutexGuard, OnceLock},
    thread::ThreadId,
    time::{Duration, Instant},
};

use crate::hooks;

#[derive(Clone, Debug, PartialEq)]
pub struct Point {
    pub site: &'static str,
    pub a: u64,
    pub b: u64,
    pub task: usize,
}

#[derive(Clone, Debug, PartialEq)]
pub enum Where {
    Running,
    Parked(Point),
    Idle,
    Quarantined(Point),
}

struct Inner {
    epoch: u64,
    roles: HashMap<ThreadId, (u64, usize)>,
    st: Vec<Where>,
    grant: Vec<bool>,
    active: bool,
    /// teardown family: every `exec.remote.*` site of a non-home thread is a scheduling point (also those the
    /// model does not know, e.g. `exec.remote.done`), so the real code's own site order is what gets explored
    all_remote_points: bool,
}

static CTL: OnceLock<(Mutex<Inner>, Condvar)> = OnceLock::new();

fn ctl() -> &'static (Mutex<Inner>, Condvar) {
    CTL.get_or_init(|| {
        (
            Mutex::new(Inner {
                epoch: 0,
                roles: HashMap::new(),
                st: vec![],
                grant: vec![],
                active: false,
                all_remote_points: false,
            }),
            Condvar::new(),
        )
    })
}

fn lock() -> MutexGuard<'static, Inner> {
    ctl().0.lock().unwrap_or_else(|e| e.into_inner())
}

/// Hook sites that are scheduling points (the program counters of TaskRemote.tla). Every other
/// site only announces thread-private work and is passed through (but still recorded).
pub fn is_point(site: &str) -> bool {
    matches!(
        site,
        "exec.drain.load"
            | "exec.drain.popped"
            | "exec.drain.sub"
            | "exec.state.unschedule"
            | "exec.state.finish_running"
            | "exec.task.wake_joiner"
            | "exec.state.set_dropped"
            | "exec.task.null_shared"
            | "exec.task.drop_waker"
            | "exec.state.load"
            | "exec.state.dec"
            | "exec.clear"
            | "exec.free_shared"
            | "exec.state.start_scheduling"
            | "exec.state.finish_scheduling"
            | "exec.remote.load_shared"
            | "exec.remote.reserve"
            | "exec.remote.push"
            | "exec.remote.push_retry"
            | "exec.remote.unreserve"
            | "exec.remote.wake_driver"
            | "exec.state.set_has_result"
            | "exec.state.start_setting_waker"
            | "exec.state.finish_setting_waker"
            | "exec.remote.write_waker"
            | "exec.state.set_cancelled"
            | "exec.remote.enter"
            | "exec.remote.leave"
            | "exec.remote.drop_stale_waker"
            | "exec.task.wait_scheduling"
            | "exec.task.wait_spin"
    )
}

fn park_forever(mut g: MutexGuard<'static, Inner>) -> ! {
    loop {
        g = ctl().1.wait(g).unwrap_or_else(|e| e.into_inner());
    }
}

fn sink(site: &'static str, a: u64, b: u64) {
    let me = std::thread::current().id();
    let (epoch, role, all_remote) = {
        let g = lock();
        match g.roles.get(&me) {
            None => {
                drop(g);
                hooks::account(site, a, b, true);
                return;
            }
            Some(&(e, r)) => {
                if e != g.epoch {
                    // a thread left over from an earlier schedule: never let it run again
                    park_forever(g);
                }
                if !g.active {
                    drop(g);
                    hooks::account(site, a, b, true);
                    return;
                }
                (e, r, g.all_remote_points)
            }
        }
    };
    let point = is_point(site) || (all_remote && role != 0 && site.starts_with("exec.remote."));
    let (task, bad) = hooks::account(site, a, b, !point);
    let p = Point {
        site,
        a,
        b,
        task,
    };
    let mut g = lock();
    if g.epoch != epoch {
        park_forever(g);
    }
    if bad {
        g.st[role] = Where::Quarantined(p);
        ctl().1.notify_all();
        park_forever(g);
    }
    if !point {
        return;
    }
    g.st[role] = Where::Parked(p.clone());
    ctl().1.notify_all();
    loop {
        if g.epoch != epoch {
            park_forever(g);
        }
        if g.grant[role] {
            g.grant[role] = false;
            break;
        }
        g = ctl().1.wait(g).unwrap_or_else(|e| e.into_inner());
    }
    drop(g);
    // the world may have changed while we were parked (Shared freed, task deallocated)
    let (_, bad) = hooks::account(site, a, b, false);
    if bad {
        let mut g = lock();
        g.st[role] = Where::Quarantined(p);
        ctl().1.notify_all();
        park_forever(g);
    }
    hooks::log_performed(site, a, b, task);
}

pub fn install() {
    compio_log::verif::set_sink(Some(sink));
}

/// Start a new schedule with `n` roles; threads of earlier schedules can never run again.
pub fn reset(n: usize) {
    let mut g = lock();
    g.epoch += 1;
    g.st = vec![Where::Idle; n];
    g.grant = vec![false; n];
    g.active = false;
    g.all_remote_points = false;
    ctl().1.notify_all();
}

/// Called by a worker thread once, before it waits for its first command.
pub fn register(role: usize) {
    let mut g = lock();
    let e = g.epoch;
    g.roles.insert(std::thread::current().id(), (e, role));
}

/// Forget threads of finished schedules (they have exited).
pub fn forget(ids: &[ThreadId]) {
    let mut g = lock();
    for i in ids {
        g.roles.remove(i);
    }
}

pub fn set_all_remote_points(on: bool) {
    lock().all_remote_points = on;
}

pub fn set_active(on: bool) {
    lock().active = on;
}

/// Controller side: the role is about to receive a command.
pub fn mark_running(role: usize) {
    lock().st[role] = Where::Running;
}

/// Worker side: the command has returned.
pub fn mark_idle(role: usize) {
    let me = std::thread::current().id();
    let mut g = lock();
    match g.roles.get(&me) {
        Some(&(e, _)) if e == g.epoch => {}
        _ => park_forever(g),
    }
    g.st[role] = Where::Idle;
    ctl().1.notify_all();
}

pub fn whereis(role: usize) -> Where {
    lock().st[role].clone()
}

/// Release a parked role for one action.
pub fn grant(role: usize) -> bool {
    let mut g = lock();
    if !matches!(g.st[role], Where::Parked(_)) {
        return false;
    }
    g.st[role] = Where::Running;
    g.grant[role] = true;
    ctl().1.notify_all();
    true
}

/// Wait until the role is parked at a point, idle or quarantined (None: watchdog expired).
pub fn wait_settled(role: usize, ms: u64) -> Option<Where> {
    let t0 = Instant::now();
    let mut g = lock();
    loop {
        if g.st[role] != Where::Running {
            return Some(g.st[role].clone());
        }
        let left = Duration::from_millis(ms).checked_sub(t0.elapsed())?;
        let (ng, _) = ctl().1.wait_timeout(g, left.min(Duration::from_millis(200))).unwrap_or_else(|e| e.into_inner());
        g = ng;
    }
}
