//! harness package hexec: C04 task / join-handle lifecycle replays
pub mod ctl;
pub mod hooks;
pub mod instr;
