//! harness package hexec
