//! C04 (single-threaded part): replay Gen_Task programs on the real compio_executor::Executor
//! (or, with --runtime, on a compio_runtime::Runtime) with instrumented futures and outputs.
//!
//! After every command the real counters are compared with the model's projection (mismatch =
//! spec drift) and, independently, the property's predicates are evaluated on the real counters
//! (contract). For a tick the ORDER of polls is compared, not only the counts.
use std::{
    collections::BTreeMap,
    future::Future,
    panic::{AssertUnwindSafe, catch_unwind},
    pin::Pin,
    sync::{Arc, atomic::Ordering::SeqCst},
    task::{Context, Poll, Waker},
};

use compio_executor::{Executor, ExecutorConfig, JoinError, JoinHandle};
use hcore::out::{Report, cases_from_arg, panic_msg, silence_panics};
use hexec::{
    hooks,
    instr::{DriverWaker, InstrFuture, Out, Outcome, Payload, World, join_waker, lock},
};
use serde_json::{Value, json};

enum Exe {
    Bare(Option<Executor>),
    Rt(Option<compio_runtime::Runtime>),
}

struct ClearMarker;

impl Exe {
    fn alive(&self) -> bool {
        match self {
            Exe::Bare(e) => e.is_some(),
            Exe::Rt(r) => r.is_some(),
        }
    }

    fn spawn(&self, f: InstrFuture) -> JoinHandle<Out> {
        match self {
            Exe::Bare(e) => e.as_ref().unwrap().spawn(f),
            Exe::Rt(r) => r.as_ref().unwrap().spawn(f),
        }
    }

    fn tick(&self) -> bool {
        match self {
            Exe::Bare(e) => e.as_ref().unwrap().tick(),
            Exe::Rt(r) => r.as_ref().unwrap().run(),
        }
    }

    fn has_task(&self) -> Option<bool> {
        match self {
            Exe::Bare(Some(e)) => Some(e.has_task()),
            Exe::Bare(None) => Some(false),
            Exe::Rt(_) => None,
        }
    }

    /// Executor::clear; at runtime level: block_on of a panicking main future (block_on_at
    /// catches the unwind, clears the executor, resumes the unwind).
    fn clear(&self) -> Result<(), String> {
        match self {
            Exe::Bare(e) => {
                e.as_ref().unwrap().clear();
                Ok(())
            }
            Exe::Rt(r) => {
                let rt = r.as_ref().unwrap();
                let res = catch_unwind(AssertUnwindSafe(|| {
                    rt.block_on(async {
                        std::panic::panic_any(ClearMarker);
                    })
                }));
                match res {
                    Err(p) if p.is::<ClearMarker>() => Ok(()),
                    Err(p) => Err(format!("block_on resumed a different panic: {}", panic_msg(p))),
                    Ok(()) => Err("block_on returned although the main future panicked".into()),
                }
            }
        }
    }

    fn drop_it(&mut self) {
        match self {
            Exe::Bare(e) => drop(e.take()),
            Exe::Rt(r) => drop(r.take()),
        }
    }
}

/// Harness-side bookkeeping for the contract oracle (independent of the model).
#[derive(Default)]
struct Oracle {
    spawned: Vec<bool>,
    frozen: Vec<Option<u32>>,
    detached: Vec<bool>,
    cleared: Vec<bool>,
    registered: Vec<bool>,
    must_wake: Vec<bool>,
    rtaken: Vec<u32>,
    joinres: Vec<&'static str>,
    hd: Vec<&'static str>,
    runnable: BTreeMap<usize, u32>,
}

fn ceil_div(a: usize, b: usize) -> u32 {
    a.div_ceil(b) as u32
}

struct Case<'a> {
    nt: usize,
    mi: usize,
    world: Arc<World>,
    exe: Exe,
    handles: Vec<Option<JoinHandle<Out>>>,
    pending_cancel: Vec<Option<Pin<Box<dyn Future<Output = Option<Out>>>>>>,
    jw: BTreeMap<(usize, usize), hexec::instr::Joiner>,
    or: Oracle,
    home: std::thread::ThreadId,
    #[allow(dead_code)]
    case: &'a Value,
    #[allow(dead_code)]
    runtime: bool,
}

impl<'a> Case<'a> {
    fn new(case: &'a Value, runtime: bool) -> Self {
        let nt = case["nt"].as_u64().unwrap() as usize;
        let mi = case["mi"].as_u64().unwrap() as usize;
        let world = World::new(nt);
        hexec::instr::set_current(&world);
        hooks::reset();
        let exe = if runtime {
            let rt = compio_runtime::Runtime::builder()
                .event_interval(mi as _)
                .build()
                .expect("runtime");
            Exe::Rt(Some(rt))
        } else {
            Exe::Bare(Some(Executor::with_config(ExecutorConfig {
                sync_queue_size: 4,
                local_queue_size: 2,
                max_interval: mi as u32,
                waker: Some(Waker::from(Arc::new(DriverWaker(world.clone())))),
            })))
        };
        let mut or = Oracle::default();
        or.spawned = vec![false; nt + 1];
        or.frozen = vec![None; nt + 1];
        or.detached = vec![false; nt + 1];
        or.cleared = vec![false; nt + 1];
        or.registered = vec![false; nt + 1];
        or.must_wake = vec![false; nt + 1];
        or.rtaken = vec![0; nt + 1];
        or.joinres = vec!["none"; nt + 1];
        or.hd = vec!["none"; nt + 1];
        Case {
            nt,
            mi,
            world,
            exe,
            handles: (0..=nt).map(|_| None).collect(),
            pending_cancel: (0..=nt).map(|_| None).collect(),
            jw: BTreeMap::new(),
            or,
            home: std::thread::current().id(),
            case,
            runtime,
        }
    }

    fn joiner(&mut self, t: usize, j: usize) -> Waker {
        let w = self.world.clone();
        self.jw.entry((t, j)).or_insert_with(|| join_waker(t, &w)).waker.clone()
    }

    fn finished(&self, t: usize) -> bool {
        lock(&self.world.t(t).produced).is_some()
    }

    fn make_runnable(&mut self, t: usize) {
        if !self.or.runnable.contains_key(&t) {
            let r = self.or.runnable.len() + 1;
            self.or.runnable.insert(t, ceil_div(r, self.mi));
        }
    }

    /// what the JoinHandle (or cancel()) delivered
    fn delivered(&mut self, t: usize, res: Result<Out, JoinError>) {
        self.or.hd[t] = "done";
        match res {
            Ok(out) => {
                out.disarm();
                self.or.rtaken[t] += 1;
                self.or.joinres[t] = if out.id == t { "ok" } else { "ok-of-other-task" };
            }
            Err(JoinError::Panicked(p)) => match p.downcast::<Payload>() {
                Ok(pl) => {
                    pl.0.disarm();
                    self.or.rtaken[t] += 1;
                    self.or.joinres[t] = if pl.0.id == t { "panic" } else { "panic-of-other-task" };
                }
                Err(_) => self.or.joinres[t] = "foreign-panic",
            },
            Err(JoinError::Cancelled) => self.or.joinres[t] = "cancelled",
        }
    }
}

impl<'a> Case<'a> {
    /// Execute one command of the program on the real executor.
    fn do_step(&mut self, st: &Value) -> Result<Value, String> {
        let a = st["a"].as_str().unwrap();
        let t = st["t"].as_u64().unwrap() as usize;
        let j = st["j"].as_u64().unwrap() as usize;
        let mut extra = json!({});
        match a {
            "spawn" => {
                hooks::hs().cur_spawn = t;
                let h = self.exe.spawn(InstrFuture::new(t, &self.world));
                self.handles[t] = Some(h);
                self.or.spawned[t] = true;
                self.or.hd[t] = "held";
                self.make_runnable(t);
            }
            "wake" => {
                let w = lock(&self.world.t(t).wakers).first().cloned().ok_or("no stashed waker")?;
                w.wake_by_ref();
                let alive = self.exe.alive()
                    && !self.or.cleared[t]
                    && !self.finished(t)
                    && self.world.t(t).fdrops.load(SeqCst) == 0;
                if alive {
                    self.make_runnable(t);
                }
            }
            "wclone" => {
                let w = lock(&self.world.t(t).wakers).first().cloned().ok_or("no stashed waker")?;
                lock(&self.world.t(t).wakers).push(w);
            }
            "wdrop" => {
                let w = lock(&self.world.t(t).wakers).pop().ok_or("no stashed waker")?;
                drop(w);
            }
            "poll" => {
                let waker = self.joiner(t, j);
                let mut cx = Context::from_waker(&waker);
                let h = self.handles[t].as_mut().ok_or("no handle")?;
                match Pin::new(h).poll(&mut cx) {
                    Poll::Ready(res) => {
                        self.handles[t] = None;
                        self.delivered(t, res);
                    }
                    Poll::Pending => {
                        if !self.finished(t) {
                            self.or.registered[t] = true;
                        }
                    }
                }
            }
            "cancel" => {
                let h = self.handles[t].take().ok_or("no handle")?;
                let before = self.world.t(t).rdrops.load(SeqCst);
                let produced = *lock(&self.world.t(t).produced);
                if self.or.frozen[t].is_none() {
                    self.or.frozen[t] = Some(self.world.t(t).polls.load(SeqCst));
                }
                let mut fut: Pin<Box<dyn Future<Output = Option<Out>>>> = Box::pin(h.cancel());
                let waker = self.joiner(t, 1);
                let mut cx = Context::from_waker(&waker);
                match fut.as_mut().poll(&mut cx) {
                    Poll::Ready(Some(out)) => self.delivered(t, Ok(out)),
                    Poll::Ready(None) => {
                        self.or.hd[t] = "done";
                        let after = self.world.t(t).rdrops.load(SeqCst);
                        if after == before + 1 && produced == Some("panic") {
                            // the handle took the panic payload and cancel().ok() discarded it:
                            // it did reach the join handle, it was not "dropped because nobody took it"
                            self.world.t(t).rdrops.fetch_sub(1, SeqCst);
                            lock(&self.world.t(t).rdrop_threads).pop();
                            self.or.rtaken[t] += 1;
                            self.or.joinres[t] = "panic";
                        } else {
                            self.or.joinres[t] = "cancelled";
                        }
                    }
                    Poll::Pending => {
                        self.pending_cancel[t] = Some(fut);
                        extra = json!({"cancel_pending": true});
                    }
                }
                if self.world.t(t).fdrops.load(SeqCst) == 0 && self.exe.alive() && !self.or.cleared[t] {
                    self.make_runnable(t);
                }
            }
            "detach" => {
                let h = self.handles[t].take().ok_or("no handle")?;
                h.detach();
                self.or.detached[t] = true;
                self.or.hd[t] = "detached";
            }
            "hdrop" => {
                let h = self.handles[t].take().ok_or("no handle")?;
                if self.or.frozen[t].is_none() {
                    self.or.frozen[t] = Some(self.world.t(t).polls.load(SeqCst));
                }
                drop(h);
                self.or.hd[t] = "dropped";
                if self.world.t(t).fdrops.load(SeqCst) == 0 && self.exe.alive() && !self.or.cleared[t] {
                    self.make_runnable(t);
                }
            }
            "tick" => {
                let script: Vec<(usize, Outcome)> = st["polls"]
                    .as_array()
                    .unwrap()
                    .iter()
                    .map(|p| (p[0].as_u64().unwrap() as usize, Outcome::parse(p[1].as_str().unwrap())))
                    .collect();
                *lock(&self.world.script) = script.into_iter().collect();
                lock(&self.world.order).clear();
                let before: Vec<u32> = (0..=self.nt).map(|t| self.world.t(t).fdrops.load(SeqCst)).collect();
                let ret = self.exe.tick();
                let order = lock(&self.world.order).clone();
                let too_many = order.len() > self.mi;
                let left = lock(&self.world.script).len();
                lock(&self.world.script).clear();
                // starvation oracle: which runnable tasks were processed by this tick
                let mut processed: Vec<usize> = order.iter().map(|o| o.0).collect();
                for t in 1..=self.nt {
                    if self.world.t(t).fdrops.load(SeqCst) > before[t] {
                        processed.push(t);
                    }
                }
                for t in &processed {
                    self.or.runnable.remove(t);
                }
                let mut starved = vec![];
                for (t, rem) in self.or.runnable.iter_mut() {
                    *rem = rem.saturating_sub(1);
                    if *rem == 0 {
                        starved.push(*t);
                    }
                }
                for t in &starved {
                    self.or.runnable.remove(t);
                }
                let mut last: BTreeMap<usize, &str> = BTreeMap::new();
                for o in &order {
                    last.insert(o.0, o.1);
                    if matches!(o.1, "ready" | "panic") && self.or.registered[o.0] {
                        self.or.must_wake[o.0] = true;
                    }
                    if matches!(o.1, "ready" | "panic") && self.or.frozen[o.0].is_none() {
                        self.or.frozen[o.0] = Some(self.world.t(o.0).polls.load(SeqCst));
                    }
                }
                for o in &order {
                    if last.get(&o.0) == Some(&"selfwake") && self.world.t(o.0).fdrops.load(SeqCst) == 0 {
                        self.make_runnable(o.0);
                    }
                }
                extra = json!({"ret": ret, "order": order.iter().map(|o| json!([o.0, o.1])).collect::<Vec<_>>(),
                               "unscripted": order.iter().filter(|o| !o.2).count(), "script_left": left, "too_many": too_many,
                               "starved": starved});
            }
            "clear" | "execdrop" => {
                for t in 1..=self.nt {
                    if self.or.spawned[t] && self.world.t(t).fdrops.load(SeqCst) == 0 {
                        self.or.cleared[t] = true;
                        if self.or.frozen[t].is_none() {
                            self.or.frozen[t] = Some(self.world.t(t).polls.load(SeqCst));
                        }
                    }
                }
                self.or.runnable.clear();
                if a == "clear" {
                    self.exe.clear()?;
                } else {
                    self.exe.drop_it();
                }
            }
            _ => return Err(format!("unknown command {a}")),
        }
        Ok(extra)
    }

    /// Projection of the real state, same shape as ProjOf in Gen_Task.tla.
    fn observe(&self) -> Value {
        let h = hooks::hs();
        let per = |f: &dyn Fn(usize) -> Value| Value::Array((1..=self.nt).map(f).collect());
        json!({
            "polls": per(&|t| json!(self.world.t(t).polls.load(SeqCst))),
            "fdrops": per(&|t| json!(self.world.t(t).fdrops.load(SeqCst))),
            "rdrops": per(&|t| json!(self.world.t(t).rdrops.load(SeqCst))),
            "deallocs": per(&|t| json!(h.deallocs.get(&t).copied().unwrap_or(0))),
            "jwoken": per(&|t| json!(self.world.t(t).jwoken.load(SeqCst))),
            "joinres": per(&|t| json!(self.or.joinres[t])),
            "produced": per(&|t| json!(lock(&self.world.t(t).produced).unwrap_or("none"))),
            "dw": self.world.dw.load(SeqCst),
            "hashot": self.exe.has_task(),
            "hd": per(&|t| json!(self.or.hd[t])),
            "wk": per(&|t| json!(lock(&self.world.t(t).wakers).len())),
            "ex": if self.exe.alive() { "alive" } else { "dropped" },
        })
    }
}

impl<'a> Case<'a> {
    /// The property's predicates on the real counters (independent of the model).
    fn contract(&self, extra: &Value, fin: bool) -> Vec<(&'static str, String)> {
        let mut v: Vec<(&'static str, String)> = vec![];
        let h = hooks::hs();
        for t in 1..=self.nt {
            if !self.or.spawned[t] {
                continue;
            }
            let s = self.world.t(t);
            let (polls, fdrops, rdrops) = (s.polls.load(SeqCst), s.fdrops.load(SeqCst), s.rdrops.load(SeqCst));
            let deallocs = h.deallocs.get(&t).copied().unwrap_or(0);
            let produced = *lock(&s.produced);
            let taken = self.or.rtaken[t];
            if lock(&s.poll_threads).iter().any(|x| *x != self.home) {
                v.push(("future-polled-off-home-thread", format!("task {t}")));
            }
            if lock(&s.fdrop_threads).iter().any(|x| *x != self.home) {
                v.push(("future-dropped-off-home-thread", format!("task {t}")));
            }
            if s.polls_after_finish.load(SeqCst) > 0 {
                v.push(("poll-after-finish", format!("task {t} polled after it returned Ready / panicked")));
            }
            if let Some(p) = self.or.frozen[t] {
                if polls > p {
                    v.push(("poll-after-cancel", format!("task {t}: {polls} polls, {p} when it was cancelled/finished")));
                }
            }
            if fdrops > 1 {
                v.push(("future-dropped-twice", format!("task {t}: {fdrops} drops")));
            }
            if taken + rdrops > 1 {
                v.push(("result-delivered-or-dropped-twice", format!("task {t}: taken {taken} dropped {rdrops}")));
            }
            if produced.is_none() && taken + rdrops > 0 {
                v.push(("result-from-nowhere", format!("task {t}")));
            }
            if deallocs > 1 {
                v.push(("double-dealloc", format!("task {t}: {deallocs}")));
            }
            if deallocs >= 1 || fin {
                if fin && deallocs == 0 {
                    v.push(("task-leaked", format!("task {t} never deallocated after every holder was dropped")));
                }
                if fdrops != 1 {
                    v.push(("future-not-dropped-exactly-once", format!("task {t}: {fdrops} drops when the task is gone")));
                }
                let want = u32::from(produced.is_some());
                if taken + rdrops != want {
                    v.push(("result-not-accounted-exactly-once",
                            format!("task {t}: produced {produced:?}, taken {taken}, dropped {rdrops} when the task is gone")));
                }
            }
            if self.or.detached[t] && !self.or.cleared[t] && fdrops == 1 && produced.is_none() {
                v.push(("detached-task-cancelled", format!("task {t}")));
            }
            if self.or.must_wake[t] && s.jwoken.load(SeqCst) == 0 {
                v.push(("joiner-not-woken", format!("task {t} finished with a registered joiner waker")));
            }
            let jr = self.or.joinres[t];
            if jr.contains("other") || jr == "foreign-panic" || (matches!(jr, "ok" | "panic") && produced != Some(jr)) {
                v.push(("wrong-result", format!("task {t}: handle got {jr}, future produced {produced:?}")));
            }
        }
        for (t, site) in &h.uaf {
            v.push(("access-after-dealloc", format!("task {t} at {site}")));
        }
        if extra.get("too_many") == Some(&json!(true)) {
            v.push(("tick-exceeds-max_interval", format!("one tick polled {} tasks, max_interval is {}", extra["order"], self.mi)));
        }
        if let Some(st) = extra.get("starved").and_then(|s| s.as_array()) {
            for t in st {
                let t = t.as_u64().unwrap() as usize;
                let cancelled = matches!(self.or.hd[t], "dropped" | "done");
                v.push((if cancelled { "cancelled-task-not-dropped" } else { "starved" },
                        format!("task {t} was runnable and was not run within ceil(runnable / max_interval) ticks")));
            }
        }
        if fin {
            for ((t, j), jn) in &self.jw {
                if jn.weak.strong_count() > 1 {
                    v.push(("joiner-waker-leaked", format!("task {t} joiner {j}")));
                }
            }
        }
        v
    }
}

fn run_case(case: &Value, runtime: bool, idx: u64, rep: &mut Report) {
    let mut c = Case::new(case, runtime);
    let mode = if runtime { "runtime" } else { "executor" };
    let steps = case["steps"].as_array().unwrap();
    let mut aborted = false;
    // after the first difference from the model the rest of the program still runs under the contract oracle
    let mut drifted = false;
    for (i, st) in steps.iter().enumerate() {
        let a = st["a"].as_str().unwrap().to_string();
        rep.steps += 1;
        let r = catch_unwind(AssertUnwindSafe(|| c.do_step(st)));
        let extra = match r {
            Ok(Ok(e)) => e,
            Ok(Err(e)) => {
                rep.problem("mismatch", json!({"site": "task", "mode": mode, "field": "command", "act": a}),
                            format!("command not executable on the real executor: {e}"), case, i);
                aborted = true;
                break;
            }
            Err(p) => {
                rep.problem("panic", json!({"site": "task", "mode": mode, "act": a}),
                            format!("case {idx} step {i} ({a}): the executor panicked: {}", panic_msg(p)), case, i);
                aborted = true;
                break;
            }
        };
        let obs = c.observe();
        for (what, d) in c.contract(&extra, false) {
            rep.problem("contract", json!({"site": "task", "mode": mode, "what": what, "act": a}),
                        format!("case {idx} step {i} ({a}): {what}: {d}; observed {obs}"), case, i);
        }
        let x = &st["x"];
        let mut diffs = vec![];
        for f in ["polls", "fdrops", "rdrops", "deallocs", "jwoken", "joinres", "produced", "dw", "hashot", "hd", "wk", "ex"] {
            if obs[f].is_null() || (runtime && f == "dw") {
                continue;
            }
            if obs[f] != x[f] {
                diffs.push(f);
            }
        }
        if a == "tick" {
            if extra["ret"] != st["ret"] {
                diffs.push("ret");
            }
            if extra["order"] != st["polls"] {
                diffs.push("poll-order");
            }
        }
        if extra.get("cancel_pending").is_some() {
            diffs.push("cancel-pending");
        }
        if drifted {
            continue;
        }
        if let Some(f) = diffs.first() {
            drifted = true;
            rep.problem("mismatch", json!({"site": "task", "mode": mode, "field": f, "act": a}),
                        format!("case {idx} step {i} ({a}): fields {diffs:?} differ; model {x} polls {} ret {}; real {obs} {extra}",
                                st["polls"], st["ret"]), case, i);
        }
    }
    // release every holder: afterwards every task must be gone, exactly once
    let r = catch_unwind(AssertUnwindSafe(|| {
        for t in 1..=c.nt {
            c.pending_cancel[t] = None;
            if let Some(h) = c.handles[t].take() {
                drop(h);
            }
            let ws: Vec<Waker> = std::mem::take(&mut *lock(&c.world.t(t).wakers));
            drop(ws);
        }
        for t in 1..=c.nt {
            if c.or.spawned[t] && c.world.t(t).fdrops.load(SeqCst) == 0 {
                c.or.cleared[t] = true;
            }
        }
        c.exe.drop_it();
    }));
    if let Err(p) = r {
        rep.problem("panic", json!({"site": "task", "mode": mode, "act": "final-release"}),
                    format!("case {idx}: releasing handles, wakers and the executor panicked: {}", panic_msg(p)), case, steps.len());
        return;
    }
    if !aborted {
        let obs = c.observe();
        for (what, d) in c.contract(&json!({}), true) {
            rep.problem("contract", json!({"site": "task", "mode": mode, "what": what, "act": "final-release"}),
                        format!("case {idx} after releasing every handle, waker and the executor: {what}: {d}; observed {obs}"),
                        case, steps.len());
        }
    }
}

fn main() {
    silence_panics();
    hooks::install();
    let args: Vec<String> = std::env::args().collect();
    let runtime = args.iter().any(|a| a == "--runtime");
    let every: u64 = args.iter().position(|a| a == "--every").map(|i| args[i + 1].parse().unwrap()).unwrap_or(1);
    let mut rep = Report::new();
    for (i, case) in cases_from_arg().enumerate() {
        if i as u64 % every != 0 {
            continue;
        }
        rep.cases += 1;
        // progress marker: if the code under test corrupts the heap and the process is killed, the
        // check reports the case that was running
        eprintln!("@case {i}");
        run_case(&case, runtime, i as u64, &mut rep);
    }
    rep.finish();
}
