//! C04 (cross-thread part): replay Gen_TaskRemote schedules on a real compio_executor::Executor
//! with the JoinHandle on thread J and waker clones on threads W1/W2, steered by the schedule
//! controller (hexec::ctl): every thread parks at the exec.* hook points and is released one
//! action at a time in the order TLC chose.
//!
//! Binding: after every released action the thread must arrive at the site the model predicts
//! (else `mismatch` = divergence) and the final counters must equal the model's. Contract oracle,
//! independent of the model: thread ids of polls / drops, exactly-once accounting, order of
//! `exec.free_shared` vs remote accesses (a thread about to touch freed memory is quarantined),
//! a joiner parked on a completed task must have been woken, no leaked joiner waker.
use std::{
    future::Future,
    panic::{AssertUnwindSafe, catch_unwind},
    pin::Pin,
    sync::{
        Arc,
        atomic::Ordering::SeqCst,
        mpsc::{Receiver, Sender, channel},
    },
    task::{Context, Poll, Waker},
    thread::JoinHandle as ThreadHandle,
};

use compio_executor::{Executor, ExecutorConfig, JoinError, JoinHandle};
use hcore::out::{Report, cases_from_arg, panic_msg, silence_panics};
use hexec::{
    ctl::{self, Where},
    hooks,
    instr::{DriverWaker, InstrFuture, Joiner, Out, Outcome, Payload, World, join_waker, lock},
};
use serde_json::{Value, json};

const WATCHDOG_MS: u64 = 30_000;
/// Time budget of one case; a case that exceeds it is abandoned (its threads stay parked) and reported.
const CASE_BUDGET_MS: u64 = 60_000;
/// After this many abandoned cases the rest of the file is skipped (a broken tree must not cost hours).
const MAX_ABANDONED: u64 = 12;

enum Cmd {
    Setup { setup: String, nw: usize, cap: usize },
    Tick,
    Clear,
    ExecDrop,
    InitJ(JoinHandle<Out>, Waker, Waker),
    Poll(usize),
    HDrop,
    Cancel,
    Detach,
    InitW(Waker),
    Wake,
    WDrop,
    /// drop whatever the thread still holds (end of the case)
    Release,
    Exit,
}

enum Res {
    None,
    Handle(JoinHandle<Out>),
    Tick(bool),
    /// "pending" | "ok" | "panic" | "cancelled" | other diagnostics
    Join(&'static str),
    Panic(String),
    Exited,
}

fn classify(res: Result<Out, JoinError>) -> &'static str {
    match res {
        Ok(out) => {
            out.disarm();
            if out.id == 1 { "ok" } else { "ok-of-other-task" }
        }
        Err(JoinError::Panicked(p)) => match p.downcast::<Payload>() {
            Ok(pl) => {
                pl.0.disarm();
                "panic"
            }
            Err(_) => "foreign-panic",
        },
        Err(JoinError::Cancelled) => "cancelled",
    }
}

/// One worker thread; it only ever does what the controller tells it to.
fn worker(role: usize, world: Arc<World>, rx: Receiver<Cmd>, tx: Sender<Res>) {
    ctl::register(role);
    let _ = tx.send(Res::None);
    let mut exe: Option<Executor> = None;
    let mut handle: Option<JoinHandle<Out>> = None;
    let mut jw: Vec<Waker> = vec![];
    let mut waker: Option<Waker> = None;
    while let Ok(cmd) = rx.recv() {
        if matches!(cmd, Cmd::Exit) {
            // everything the thread still owns is dropped BEFORE it reports its exit, so that a drop that blocks
            // (e.g. Executor::drop spinning in wait_for_scheduling) shows up as a missing report, not as a hung join
            drop(handle.take());
            drop(waker.take());
            jw.clear();
            drop(exe.take());
            let _ = tx.send(Res::Exited);
            break;
        }
        let r = catch_unwind(AssertUnwindSafe(|| match cmd {
            Cmd::Setup { setup, nw, cap } => {
                let e = Executor::with_config(ExecutorConfig {
                    sync_queue_size: cap,
                    local_queue_size: 4,
                    max_interval: 1,
                    waker: Some(Waker::from(Arc::new(DriverWaker(world.clone())))),
                });
                hooks::hs().cur_spawn = 1;
                let h = e.spawn(InstrFuture::new(1, &world));
                if setup != "fresh" {
                    *lock(&world.setup_poll) = Some((nw, setup == "hot"));
                    e.tick();
                }
                exe = Some(e);
                Res::Handle(h)
            }
            Cmd::Tick => Res::Tick(exe.as_ref().expect("executor").tick()),
            Cmd::Clear => {
                exe.as_ref().expect("executor").clear();
                Res::None
            }
            Cmd::ExecDrop => {
                drop(exe.take());
                Res::None
            }
            Cmd::InitJ(h, w1, w2) => {
                handle = Some(h);
                jw = vec![w1, w2];
                Res::None
            }
            Cmd::Poll(j) => {
                let w = jw[j - 1].clone();
                let mut cx = Context::from_waker(&w);
                let h = handle.as_mut().expect("handle");
                match Pin::new(h).poll(&mut cx) {
                    Poll::Pending => Res::Join("pending"),
                    Poll::Ready(res) => {
                        handle = None;
                        Res::Join(classify(res))
                    }
                }
            }
            Cmd::HDrop => {
                drop(handle.take());
                Res::None
            }
            Cmd::Cancel => {
                let h = handle.take().expect("handle");
                let mut fut: Pin<Box<dyn Future<Output = Option<Out>>>> = Box::pin(h.cancel());
                let w = jw[0].clone();
                let mut cx = Context::from_waker(&w);
                match fut.as_mut().poll(&mut cx) {
                    Poll::Ready(Some(out)) => Res::Join(classify(Ok(out))),
                    Poll::Ready(None) => Res::Join("cancelled"),
                    Poll::Pending => {
                        drop(fut);
                        Res::Join("cancel-pending")
                    }
                }
            }
            Cmd::Detach => {
                handle.take().expect("handle").detach();
                Res::None
            }
            Cmd::InitW(w) => {
                waker = Some(w);
                Res::None
            }
            Cmd::Wake => {
                waker.as_ref().expect("waker").wake_by_ref();
                Res::None
            }
            Cmd::WDrop => {
                drop(waker.take());
                Res::None
            }
            Cmd::Release => {
                drop(handle.take());
                drop(waker.take());
                drop(exe.take());
                jw.clear();
                Res::None
            }
            Cmd::Exit => unreachable!(),
        }));
        let res = match r {
            Ok(r) => r,
            Err(p) => Res::Panic(panic_msg(p)),
        };
        // the result must be visible before the controller sees the role idle
        let _ = tx.send(res);
        ctl::mark_idle(role);
    }
}

struct Role {
    name: &'static str,
    tx: Sender<Cmd>,
    rx: Receiver<Res>,
    th: Option<ThreadHandle<()>>,
    /// the thread can never be used again (quarantined, hung or blocked behind a quarantine)
    lost: bool,
    // observation of the protocol, from the actions this harness released
    in_sched: bool,
    in_window: bool,
    foreign_finish: bool,
    tick_drop: bool,
    cur_cmd: &'static str,
}

const ROLE_NAMES: [&str; 4] = ["H", "J", "W1", "W2"];

fn role_index(name: &str) -> usize {
    ROLE_NAMES.iter().position(|n| *n == name).expect("role")
}

struct Case {
    world: Arc<World>,
    roles: Vec<Role>,
    joiners: Vec<Joiner>,
    home: Option<std::thread::ThreadId>,
    // protocol observation
    in_setting: bool,
    completed_in_section: bool,
    dropped_in_section: bool,
    completed: bool,
    last_join: &'static str,
    handle_held: bool,
    exec_dropped: bool,
    helper_ticks: u32,
    tick_rets: Vec<bool>,
    divergences: Vec<String>,
    violations: Vec<(&'static str, Value, String)>,
    panics: Vec<String>,
    steps_done: u64,
    t0: std::time::Instant,
    over_budget: bool,
    /// polls at the moment the latest completed remote wake was issued (None: no wake to account for)
    pending_wake: Option<u32>,
    /// a JoinHandle drop / cancel issued on another thread has returned while the task's future was still alive
    remote_cancel_done: bool,
    /// the running tick started after a completed wake with no scheduler in flight: it must poll the task
    tick_covers: Option<u32>,
    wake_issued_at: Vec<Option<u32>>,
}

enum Arr {
    Site(&'static str),
    Idle,
    Quarantined,
    Hang,
}

impl Case {
    fn new(nroles: usize) -> Case {
        ctl::reset(4);
        hooks::reset();
        hooks::hs().keep_log = true;
        let world = World::new(1);
        hexec::instr::set_current(&world);
        let mut roles = vec![];
        for (i, name) in ROLE_NAMES.iter().enumerate().take(nroles) {
            let (ctx, crx) = channel::<Cmd>();
            let (rtx, rrx) = channel::<Res>();
            let w = world.clone();
            let th = std::thread::Builder::new()
                .name(format!("c04-{name}"))
                .stack_size(512 * 1024)
                .spawn(move || worker(i, w, crx, rtx))
                .expect("spawn worker");
            // wait until the worker has registered with the controller
            let _ = rrx.recv_timeout(std::time::Duration::from_millis(WATCHDOG_MS));
            roles.push(Role {
                name,
                tx: ctx,
                rx: rrx,
                th: Some(th),
                lost: false,
                in_sched: false,
                in_window: false,
                foreign_finish: false,
                tick_drop: false,
                cur_cmd: "",
            });
        }
        let joiners = vec![join_waker(1, &world), join_waker(1, &world)];
        Case {
            world,
            roles,
            joiners,
            home: None,
            in_setting: false,
            completed_in_section: false,
            dropped_in_section: false,
            completed: false,
            last_join: "none",
            handle_held: true,
            exec_dropped: false,
            helper_ticks: 0,
            tick_rets: vec![],
            divergences: vec![],
            violations: vec![],
            panics: vec![],
            steps_done: 0,
            t0: std::time::Instant::now(),
            over_budget: false,
            pending_wake: None,
            remote_cancel_done: false,
            tick_covers: None,
            wake_issued_at: vec![None; 4],
        }
    }

    fn budget_left(&mut self) -> u64 {
        let used = self.t0.elapsed().as_millis() as u64;
        if used >= CASE_BUDGET_MS {
            self.over_budget = true;
            0
        } else {
            CASE_BUDGET_MS - used
        }
    }

    fn settle(&mut self, r: usize) -> Arr {
        let ms = WATCHDOG_MS.min(self.budget_left().max(2_000));
        match ctl::wait_settled(r, ms) {
            None => {
                self.roles[r].lost = true;
                Arr::Hang
            }
            Some(Where::Parked(p)) => Arr::Site(p.site),
            Some(Where::Idle) => {
                while let Ok(res) = self.roles[r].rx.try_recv() {
                    match res {
                        Res::Join(j) => self.last_join = j,
                        Res::Tick(b) => self.tick_rets.push(b),
                        Res::Handle(h) => *lock(&SETUP_HANDLE) = Some(h),
                        Res::Panic(m) => self.panics.push(format!("{} during {}: {m}", self.roles[r].name, self.roles[r].cur_cmd)),
                        _ => {}
                    }
                }
                if self.roles[r].cur_cmd == "tick" {
                    // a whole tick that started after a completed cross-thread wake (no other scheduler in flight)
                    // has drained the sync queue and run the hot list: the woken task must have been polled
                    if let Some(p0) = self.tick_covers.take() {
                        let t = self.world.t(1);
                        let alive = lock(&t.produced).is_none() && t.fdrops.load(SeqCst) == 0;
                        if alive && t.polls.load(SeqCst) == p0 {
                            self.violations.push(("contract", json!({"site": "remote", "what": "remote-wake-lost"}),
                                format!("wake_by_ref on another thread had returned (task alive, no other waker in flight), then the home \
                                         thread ran a whole tick, and the task was not polled ({p0} polls before the wake, {p0} after \
                                         the tick): the runnable task is starved")));
                        }
                        self.pending_wake = None;
                    }
                }
                if (self.roles[r].cur_cmd == "hdrop" || self.roles[r].cur_cmd == "cancel") && r != 0 {
                    let t = self.world.t(1);
                    if lock(&t.produced).is_none() && t.fdrops.load(SeqCst) == 0 {
                        self.remote_cancel_done = true;
                    }
                }
                if self.roles[r].cur_cmd == "wake" {
                    let t = self.world.t(1);
                    if lock(&t.produced).is_none() && t.fdrops.load(SeqCst) == 0 {
                        // the latest wake (by the number of polls it has seen) is the one that still needs a poll
                        self.pending_wake = self.pending_wake.max(self.wake_issued_at[r]);
                    }
                }
                self.roles[r].cur_cmd = "";
                Arr::Idle
            }
            Some(Where::Quarantined(p)) => {
                self.roles[r].lost = true;
                self.quarantined(r, p.site);
                Arr::Quarantined
            }
            Some(Where::Running) => unreachable!(),
        }
    }

    /// A thread was stopped right before touching freed memory: that is the violation.
    fn quarantined(&mut self, r: usize, site: &'static str) {
        let role = &self.roles[r];
        let h = hooks::hs();
        if h.shared_freed && hooks::touches_shared(site) {
            let pattern = if role.foreign_finish {
                "foreign-finish_scheduling"
            } else if role.tick_drop {
                "task-finished-in-tick"
            } else {
                "other"
            };
            let tail: Vec<String> = h.log.iter().rev().take(14).rev().map(|e| format!("{}@{:?}", e.site, e.thread)).collect();
            drop(h);
            self.violations.push((
                "contract",
                json!({"site": "remote", "what": "shared-used-after-free", "pattern": pattern}),
                format!("thread {} is at {site} (about to use the Shared block it loaded before) AFTER exec.free_shared was \
                         performed by Executor::drop; pattern {pattern}; last performed events: {tail:?}", role.name),
            ));
        } else {
            drop(h);
            self.violations.push((
                "contract",
                json!({"site": "remote", "what": "access-after-dealloc", "at": site}),
                format!("thread {} is at {site} on a task allocation that exec.task.dealloc already freed", role.name),
            ));
        }
    }

    fn command(&mut self, r: usize, name: &'static str, cmd: Cmd) -> Arr {
        if name == "wake" {
            self.wake_issued_at[r] = None;
        }
        if name == "tick" {
            self.tick_covers = if self.roles.iter().any(|o| o.in_sched) { None } else { self.pending_wake };
        }
        ctl::mark_running(r);
        self.roles[r].cur_cmd = name;
        if self.roles[r].tx.send(cmd).is_err() {
            self.roles[r].lost = true;
            return Arr::Hang;
        }
        self.settle(r)
    }

    /// Release role r (parked at `site`) for exactly one action and record what that action means.
    fn release(&mut self, r: usize, site: &'static str) -> Arr {
        // bookkeeping of the action that is performed now
        match site {
            "exec.remote.enter" => self.roles[r].in_sched = true,
            "exec.state.start_scheduling" => {
                self.roles[r].in_sched = true;
                // the wake takes effect with this RMW: every poll that counts for it starts later
                if self.roles[r].cur_cmd == "wake" {
                    self.wake_issued_at[r] = Some(self.world.t(1).polls.load(SeqCst));
                }
            }
            "exec.state.finish_scheduling" => {
                self.roles[r].in_window = false;
                for (i, o) in self.roles.iter_mut().enumerate() {
                    if i != r && o.in_sched {
                        o.foreign_finish = true;
                    }
                }
            }
            "exec.remote.leave" => self.roles[r].in_sched = false,
            "exec.state.start_setting_waker" => self.in_setting = true,
            "exec.state.finish_setting_waker" => self.in_setting = false,
            "exec.state.finish_running" => {
                self.completed = true;
                if self.in_setting {
                    self.completed_in_section = true;
                }
            }
            "exec.state.set_dropped" => {
                if self.in_setting {
                    self.dropped_in_section = true;
                }
                if self.roles[0].cur_cmd == "tick" {
                    for o in self.roles.iter_mut() {
                        if o.in_sched {
                            o.tick_drop = true;
                        }
                    }
                }
            }
            _ => {}
        }
        self.steps_done += 1;
        *lock(&SITES).entry(site).or_insert(0) += 1;
        if !ctl::grant(r) {
            return Arr::Hang;
        }
        let a = self.settle(r);
        if site == "exec.remote.load_shared" {
            if let Arr::Site("exec.remote.reserve") = a {
                self.roles[r].in_window = true;
            }
        }
        a
    }
}

static TEARDOWN_SEQ: std::sync::Mutex<Vec<String>> = std::sync::Mutex::new(Vec::new());

impl Case {
    /// Release role r until it is idle (or lost / bound reached); true when idle.
    fn run_idle(&mut self, r: usize, max: usize) -> bool {
        for _ in 0..max {
            match ctl::whereis(r) {
                Where::Idle => return true,
                Where::Parked(p) => {
                    if let Arr::Quarantined | Arr::Hang = self.release(r, p.site) {
                        return false;
                    }
                }
                _ => return false,
            }
        }
        ctl::whereis(r) == Where::Idle
    }

    /// Release role r until it is parked at `site`; false if it gets idle / lost first.
    fn run_to(&mut self, r: usize, site: &str, max: usize) -> bool {
        for _ in 0..max {
            match ctl::whereis(r) {
                Where::Parked(p) if p.site == site => return true,
                Where::Parked(p) => {
                    if let Arr::Quarantined | Arr::Hang = self.release(r, p.site) {
                        return false;
                    }
                }
                _ => return false,
            }
        }
        false
    }

    /// One member of the teardown family: a remote scheduler (a waker's wake_by_ref, or Task::cancel of a JoinHandle
    /// dropped on thread J) is parked at the k-th hook site of its call - the sites and their order are whatever
    /// the REAL code reports, nothing is taken from the model - then the home thread runs its teardown commands to
    /// the end or until it blocks in wait_for_scheduling (the correct outcome); the caller then finishes every call
    /// round-robin. If the home thread freed Shared, the scheduler is stopped (quarantined) and reported at the first
    /// site that announces a use of Shared. Returns the sites the scheduler was parked at.
    fn teardown(&mut self, spec: &Value) -> Vec<String> {
        let variant = spec["variant"].as_str().unwrap_or("wake");
        let park = spec["park"].as_u64().unwrap_or(u64::MAX);
        let mut seq = vec![];
        // preparation (best effort: on a tree whose sites differ the member is simply shorter)
        let sched = match variant {
            "hdrop" => 1,
            "fullq" => {
                // fill the sync queue (capacity 1): H is inside tick before the task runs, W1 pushes, H polls
                // (Pending, SCHEDULED cleared), the id stays queued; the second waker then finds the queue full
                *lock(&self.world.fallback) = Outcome::Pend;
                self.command(0, "tick", Cmd::Tick);
                self.run_to(0, "exec.state.unschedule", 20);
                self.command(2, "wake", Cmd::Wake);
                self.run_idle(2, 60);
                self.run_idle(0, 60);
                3
            }
            _ => 2,
        };
        if sched >= self.roles.len() {
            return seq;
        }
        let (name, cmd) = if sched == 1 { ("hdrop", Cmd::HDrop) } else { ("wake", Cmd::Wake) };
        if sched == 1 {
            self.handle_held = false;
        }
        let mut a = self.command(sched, name, cmd);
        let mut k = 0;
        loop {
            match a {
                Arr::Site(s) => {
                    seq.push(s.to_string());
                    if k >= park {
                        break;
                    }
                    k += 1;
                    // a scheduler spinning on a full queue never gets idle by itself: the probe stops as soon as
                    // a pair of consecutive sites repeats
                    let n = seq.len();
                    if n >= 4 && (0..n - 3).any(|i| seq[i] == seq[n - 2] && seq[i + 1] == seq[n - 1]) {
                        seq.truncate(n - 2);
                        break;
                    }
                    if n > 60 {
                        break;
                    }
                    a = self.release(sched, s);
                }
                _ => break,
            }
        }
        if park == u64::MAX {
            return seq;
        }
        // the home thread tears down while the scheduler stays parked
        for h in spec["hseq"].as_array().cloned().unwrap_or_default() {
            if ctl::whereis(0) != Where::Idle || self.roles[0].lost {
                break;
            }
            match h.as_str().unwrap_or("") {
                "tick" => {
                    *lock(&self.world.fallback) = Outcome::Ready;
                    lock(&self.world.script).clear();
                    self.command(0, "tick", Cmd::Tick);
                }
                "clear" => {
                    self.command(0, "clear", Cmd::Clear);
                }
                _ => {
                    self.exec_dropped = true;
                    self.command(0, "execdrop", Cmd::ExecDrop);
                }
            }
            // run H alone until it is idle or keeps returning to the same spin site (blocked = correct)
            let mut same = 0;
            for _ in 0..300 {
                match ctl::whereis(0) {
                    Where::Parked(p) => {
                        let before = p.site;
                        let arr = self.release(0, before);
                        if matches!(arr, Arr::Site(s) if s == before) {
                            same += 1;
                            if same >= 6 {
                                break;
                            }
                        } else {
                            same = 0;
                        }
                    }
                    _ => break,
                }
            }
        }
        seq
    }
}

/// The teardown family, generated from a probe of the real code (no input file).
fn teardown_family(rep: &mut Report) {
    let mut members = 0u64;
    let mut lists = serde_json::Map::new();
    let variants = [("wake", "hot", 1u64, 2u64), ("hdrop", "cold", 0, 2), ("fullq", "hot", 2, 1)];
    let mut idx = 0u64;
    for (variant, setup, nw, cap) in variants {
        let probe = json!({"setup": setup, "nw": nw, "cap": cap, "steps": [],
                           "teardown": {"variant": variant, "hseq": []}});
        lock(&TEARDOWN_SEQ).clear();
        rep.cases += 1;
        eprintln!("@case {idx}");
        run_case(&probe, idx, rep);
        idx += 1;
        let seq = lock(&TEARDOWN_SEQ).clone();
        lists.insert(variant.to_string(), json!(seq));
        for k in 0..seq.len() {
            for hseq in [json!(["execdrop"]), json!(["tick", "execdrop"]), json!(["clear", "execdrop"])] {
                let case = json!({"setup": setup, "nw": nw, "cap": cap, "steps": [],
                                  "teardown": {"variant": variant, "park": k, "site": seq[k], "hseq": hseq}});
                rep.cases += 1;
                eprintln!("@case {idx}");
                run_case(&case, idx, rep);
                idx += 1;
                members += 1;
            }
        }
    }
    rep.set("teardown_members", json!(members));
    rep.set("teardown_sites", Value::Object(lists));
}

fn arr_name(a: &Arr) -> &'static str {
    match a {
        Arr::Site(s) => s,
        Arr::Idle => "idle",
        Arr::Quarantined => "quarantined",
        Arr::Hang => "hang",
    }
}

impl Case {
    /// Round-robin: release every parked thread one action at a time until all are idle (or lost).
    /// Returns false when the home thread spins in wait_for_scheduling behind a lost thread.
    fn drain(&mut self) -> bool {
        let mut spins = 0;
        for _round in 0..4000 {
            if self.budget_left() == 0 {
                return false;
            }
            let mut progressed = false;
            let mut parked = 0;
            for r in 0..self.roles.len() {
                if self.roles[r].lost {
                    continue;
                }
                if let Where::Parked(p) = ctl::whereis(r) {
                    parked += 1;
                    let before = p.site;
                    let a = self.release(r, before);
                    let same = matches!(a, Arr::Site(s) if s == before && matches!(s, "exec.state.load" | "exec.task.wait_spin"));
                    if !same {
                        progressed = true;
                    }
                }
            }
            if parked == 0 {
                return true;
            }
            // a remote waker whose push finds the sync queue full retries until the executor drains the queue
            // (back-pressure by design): the environment is fair, so let the home thread tick once more
            let pushing = (1..self.roles.len()).any(|r| {
                !self.roles[r].lost
                    && matches!(ctl::whereis(r), Where::Parked(p) if matches!(p.site, "exec.remote.push_retry" | "exec.state.load"))
            });
            if pushing && _round % 25 == 24 && !self.exec_dropped && !self.roles[0].lost
                && ctl::whereis(0) == Where::Idle && self.helper_ticks < 4
            {
                self.helper_ticks += 1;
                {
                    let mut sc = lock(&self.world.script);
                    sc.clear();
                    sc.push_back((1, Outcome::Pend));
                }
                self.command(0, "tick", Cmd::Tick);
                continue;
            }
            if progressed {
                spins = 0;
            } else {
                spins += 1;
                if spins > 20 {
                    return false;
                }
            }
        }
        false
    }

    /// Lenient mode: pass the scheduling points that exist only in the repaired code.
    fn auto_advance(&mut self) {
        for _ in 0..16 {
            let mut any = false;
            for r in 0..self.roles.len() {
                if self.roles[r].lost {
                    continue;
                }
                if let Where::Parked(p) = ctl::whereis(r) {
                    if matches!(p.site, "exec.remote.enter" | "exec.remote.leave" | "exec.task.wait_scheduling" | "exec.remote.drop_stale_waker") {
                        self.release(r, p.site);
                        any = true;
                    }
                }
            }
            if !any {
                break;
            }
        }
    }

    fn snapshot(&self) -> Value {
        let t = self.world.t(1);
        let h = hooks::hs();
        json!({
            "polls": t.polls.load(SeqCst), "fdrops": t.fdrops.load(SeqCst), "rdrops": t.rdrops.load(SeqCst),
            "deallocs": h.deallocs.get(&1).copied().unwrap_or(0), "jwoken": t.jwoken.load(SeqCst),
            "produced": lock(&t.produced).is_some(), "freed": h.shared_freed,
        })
    }

    fn joiner_flag(&self) -> bool {
        self.joiners.iter().any(|j| *lock(&j.flag.0))
    }

    fn joiner_parked(&self) -> bool {
        let h_at_wake = matches!(ctl::whereis(0), Where::Parked(p) if p.site == "exec.task.wake_joiner");
        self.completed && !h_at_wake && self.handle_held && self.last_join == "pending" && ctl::whereis(1) == Where::Idle && !self.roles[1].lost
    }
}

fn run_case(case: &Value, idx: u64, rep: &mut Report) {
    let setup = case["setup"].as_str().unwrap().to_string();
    let nw = case["nw"].as_u64().unwrap() as usize;
    let cap = case["cap"].as_u64().unwrap() as usize;
    let mut c = Case::new(2 + nw);
    // ---- setup (nothing is parked yet): spawn, optional first poll, hand out handle and wakers
    let a = c.command(0, "setup", Cmd::Setup { setup: setup.clone(), nw, cap });
    let _ = a;
    let Some(handle) = lock(&SETUP_HANDLE).take() else {
        rep.problem("panic", json!({"site": "remote", "act": "setup"}), format!("setup failed: {:?}", c.panics), case, 0);
        return;
    };
    c.home = hooks::hs().log.iter().find(|e| e.site == "exec.task.new").map(|e| e.thread);
    let (w1, w2) = (c.joiners[0].waker.clone(), c.joiners[1].waker.clone());
    c.command(1, "init", Cmd::InitJ(handle, w1, w2));
    let stashed: Vec<Waker> = std::mem::take(&mut *lock(&c.world.t(1).wakers));
    for (i, w) in stashed.into_iter().enumerate() {
        c.command(2 + i, "init", Cmd::InitW(w));
    }
    let polls0 = c.world.t(1).polls.load(SeqCst);
    if !case["teardown"].is_null() {
        ctl::set_all_remote_points(true);
        ctl::set_active(true);
        let seq = c.teardown(&case["teardown"]);
        lock(&TEARDOWN_SEQ).clone_from(&seq);
        let snap = c.snapshot();
        finish_case(c, case, idx, rep, vec![], snap);
        return;
    }
    ctl::set_active(true);
    // ---- the schedule
    let steps = case["steps"].as_array().unwrap();
    let mut followed = true;
    // lenient mode (regression schedules taken from the model of the code BEFORE a repair): scheduling points the
    // old model does not know are passed automatically, steps that cannot be executed are skipped, nothing is
    // compared with the model: only the contract oracle decides
    let mut lenient = case["lenient"] == json!(true);
    for (i, st) in steps.iter().enumerate() {
        rep.steps += 1;
        let r = role_index(st["th"].as_str().unwrap());
        if c.roles[r].lost {
            continue;
        }
        let a = st["a"].as_str().unwrap();
        let next = st["next"].as_str().unwrap();
        if c.budget_left() == 0 {
            break;
        }
        if lenient {
            // keep the interleaving the schedule prescribes as far as possible: a step of thread T releases T once
            // from wherever it is parked; a command is issued when T is idle, else T (still busy) is released once
            if case["lenient"] == json!(true) {
                c.auto_advance();
            }
            if let Some(o) = st["arg"].as_str().filter(|o| matches!(*o, "pend" | "ready")) {
                *lock(&c.world.fallback) = Outcome::parse(o);
            }
            match ctl::whereis(r) {
                Where::Parked(p) => {
                    let regression = case["lenient"] == json!(true);
                    if !(st["k"] == "step" && p.site == a) {
                        // not the step the model meant: in a regression schedule skip it (the repaired code blocks
                        // here on purpose). After a divergence: a step lets the thread take one action; a command
                        // means the thread's previous call is over, so it is released until it is idle and the
                        // command is then issued
                        if regression {
                            continue;
                        }
                        lock(&c.world.script).clear();
                        if st["k"] == "step" {
                            if let Arr::Quarantined = c.release(r, p.site) {
                                break;
                            }
                            continue;
                        }
                        let mut n = 0;
                        while let Where::Parked(q) = ctl::whereis(r) {
                            n += 1;
                            if n > 40 || c.roles[r].lost {
                                break;
                            }
                            c.release(r, q.site);
                        }
                        if ctl::whereis(r) != Where::Idle {
                            continue;
                        }
                    }
                }
                Where::Idle => {
                    if st["k"] != "cmd" {
                        continue;
                    }
                }
                _ => continue,
            }
        }
        let arr = if st["k"] == "cmd" {
            if ctl::whereis(r) != Where::Idle {
                c.divergences.push(format!("step {i}: {} should be idle for command {a}, is {:?}", c.roles[r].name, ctl::whereis(r)));
                followed = false;
                lenient = true;
                continue;
            }
            match a {
                "tick" => c.command(r, "tick", Cmd::Tick),
                "clear" => c.command(r, "clear", Cmd::Clear),
                "execdrop" => {
                    c.exec_dropped = true;
                    c.command(r, "execdrop", Cmd::ExecDrop)
                }
                "poll" => c.command(r, "poll", Cmd::Poll(st["arg"].as_str().unwrap().parse().unwrap())),
                "hdrop" => {
                    c.handle_held = false;
                    c.command(r, "hdrop", Cmd::HDrop)
                }
                "cancel" => {
                    c.handle_held = false;
                    c.command(r, "cancel", Cmd::Cancel)
                }
                "detach" => {
                    c.handle_held = false;
                    c.command(r, "detach", Cmd::Detach)
                }
                "wake" => c.command(r, "wake", Cmd::Wake),
                "wdrop" => c.command(r, "wdrop", Cmd::WDrop),
                _ => panic!("unknown command {a}"),
            }
        } else {
            let site = match ctl::whereis(r) {
                Where::Parked(p) if p.site == a => p.site,
                w => {
                    c.divergences.push(format!("step {i}: {} should be parked at {a}, is {w:?}", c.roles[r].name));
                    followed = false;
                    lenient = true;
                    continue;
                }
            };
            if site == "exec.state.unschedule" {
                let o = st["arg"].as_str().unwrap();
                let mut s = lock(&c.world.script);
                s.clear();
                s.push_back((1, Outcome::parse(o)));
            }
            c.release(r, site)
        };
        match arr {
            // containment changes what the other threads can do (the bit the quarantined thread would have
            // cleared stays set): the rest of the schedule is not followed, the calls are finished round-robin
            Arr::Quarantined => break,
            Arr::Hang => {
                c.violations.push(("hang", json!({"site": "remote", "what": "thread-stuck", "after": a}),
                                   format!("step {i}: {} did not reach a hook point or return within {WATCHDOG_MS} ms after {a}", c.roles[r].name)));
                followed = false;
                break;
            }
            ref x => {
                if arr_name(x) != next && !lenient {
                    // the implementation left the model: the rest of the schedule is followed as far as it can be
                    // executed (lenient), only the contract oracle decides from here on
                    c.divergences.push(format!("step {i}: after {a} thread {} arrived at {}, the model expects {next}",
                                               c.roles[r].name, arr_name(x)));
                    followed = false;
                    lenient = true;
                }
            }
        }
    }
    // ---- compare with the model's final state (before anything else runs)
    let fin = &case["fin"];
    let snap = c.snapshot();
    let mut diffs = vec![];
    if case["lenient"] == json!(true) {
        c.auto_advance();
    }
    if followed && !lenient {
        let quarantined = c.roles.iter().any(|r| r.lost);
        for f in ["fdrops", "rdrops", "deallocs", "produced", "freed"] {
            // after a quarantine the rest of the model's schedule was not performed
            if snap[f] != fin[f] && !quarantined {
                diffs.push(format!("{f}: real {} model {}", snap[f], fin[f]));
            }
        }
        let polls = snap["polls"].as_u64().unwrap() - polls0 as u64 + u64::from(setup != "fresh");
        if json!(polls) != fin["polls"] && !quarantined {
            diffs.push(format!("polls: real {polls} model {}", fin["polls"]));
        }
        if (snap["jwoken"].as_u64().unwrap() > 0) != (fin["jwoken"].as_u64().unwrap() > 0) && !quarantined {
            diffs.push(format!("jwoken: real {} model {}", snap["jwoken"], fin["jwoken"]));
        }
        let model_uaf = fin["known"].as_array().unwrap().iter().chain(fin["err"].as_array().unwrap())
            .any(|e| e == "shared-used-after-free");
        if model_uaf != quarantined {
            diffs.push(format!("use of freed Shared: real {quarantined} model {model_uaf}"));
        }
        let parked = c.joiner_parked() && !c.joiner_flag();
        if json!(parked) != fin["parked"] && !quarantined {
            diffs.push(format!("joiner parked without wake: real {parked} model {}", fin["parked"]));
        }
        let jres = if c.last_join == "panic" { "ok" } else { c.last_join };
        if !quarantined && ctl::whereis(1) == Where::Idle && !c.roles[1].lost && (c.handle_held || jres != "pending") && json!(jres) != fin["jres"] {
            diffs.push(format!("join result: real {jres} model {}", fin["jres"]));
        }
    }
    finish_case(c, case, idx, rep, diffs, snap);
}

static SETUP_HANDLE: std::sync::Mutex<Option<JoinHandle<Out>>> = std::sync::Mutex::new(None);

fn finish_case(mut c: Case, case: &Value, idx: u64, rep: &mut Report, diffs: Vec<String>, snap: Value) {
    let nsteps = case["steps"].as_array().unwrap().len();
    // ---- let every started call finish, one action at a time
    let drained = c.drain();
    let any_lost = c.roles.iter().any(|r| r.lost);
    if !drained && !any_lost && !c.over_budget {
        let at: Vec<String> = (0..c.roles.len()).map(|i| format!("{}={:?}", c.roles[i].name, ctl::whereis(i))).collect();
        c.violations.push(("hang", json!({"site": "remote", "what": "calls-never-finish"}),
                           format!("the started calls do not finish although every thread is scheduled fairly and the home thread \
                                    keeps ticking (e.g. wait_for_scheduling spinning for ever): {at:?}")));
    }
    // ---- a completed wake from another thread must lead to a poll: the environment is fair, the home thread ticks
    // once more; the task (still alive) must then have been polled since that wake was issued
    if drained && !c.exec_dropped && !c.roles[0].lost && ctl::whereis(0) == Where::Idle {
        if let Some(p0) = c.pending_wake {
            let alive = |c: &Case| lock(&c.world.t(1).produced).is_none() && c.world.t(1).fdrops.load(SeqCst) == 0;
            if alive(&c) && c.world.t(1).polls.load(SeqCst) == p0 {
                {
                    let mut sc = lock(&c.world.script);
                    sc.clear();
                    sc.push_back((1, Outcome::Pend));
                }
                c.command(0, "tick", Cmd::Tick);
                let ok = c.drain();
                let already = c.violations.iter().any(|v| v.1["what"] == "remote-wake-lost");
                if ok && !already && alive(&c) && c.world.t(1).polls.load(SeqCst) == p0 {
                    c.violations.push(("contract", json!({"site": "remote", "what": "remote-wake-lost"}),
                        format!("wake_by_ref on another thread returned while the task was alive, the home thread ticked afterwards, \
                                 but the task was not polled again (polls {p0} when the wake was issued, {p0} now): the runnable task is starved")));
                }
            }
        }
    }
    // ---- "dropping the handle cancels the task", also from another thread: the drop / cancel call has returned, the
    // executor is alive and the home thread idle; the environment is fair, the home thread ticks once more (twice: the
    // first tick may only move the id from the cross-thread queue to the run queue); the future must then be gone
    if drained && c.remote_cancel_done && !c.exec_dropped && !c.roles[0].lost && ctl::whereis(0) == Where::Idle
        && !c.roles.iter().any(|r| r.lost) {
        let alive = |c: &Case| lock(&c.world.t(1).produced).is_none() && c.world.t(1).fdrops.load(SeqCst) == 0;
        let mut ok = true;
        for _ in 0..2 {
            if !ok || !alive(&c) {
                break;
            }
            {
                let mut sc = lock(&c.world.script);
                sc.clear();
                sc.push_back((1, Outcome::Pend));
            }
            c.command(0, "tick", Cmd::Tick);
            ok = c.drain();
        }
        if ok && alive(&c) {
            c.violations.push(("contract", json!({"site": "remote", "what": "remote-cancel-lost"}),
                "a JoinHandle was dropped / cancelled on another thread and the call returned while the task was parked; the home \
                 thread then ran two whole ticks and the task's future is still alive (not dropped, no result): dropping the handle \
                 did not cancel the task".to_string()));
        }
    }
    if c.over_budget {
        let at: Vec<String> = (0..c.roles.len()).map(|i| format!("{}={:?}", c.roles[i].name, ctl::whereis(i))).collect();
        c.violations.push(("hang", json!({"site": "remote", "what": "case-time-budget-exceeded"}),
                           format!("the case did not finish within {CASE_BUDGET_MS} ms: {at:?}")));
    }
    // ---- candidate 11: a joiner parked on Pending although the task has completed must have been woken
    if drained && c.joiner_parked() && !c.joiner_flag() {
        let pattern = if c.completed_in_section { "completed-inside-setting-waker" } else { "other" };
        c.violations.push(("hang", json!({"site": "remote", "what": "joiner-never-woken", "pattern": pattern}),
            format!("the task completed (finish_running performed, tick returned), the remote JoinHandle::poll returned Pending with its \
                     waker registered, and nobody woke that waker: the joiner is parked forever although the output is there; pattern {pattern}")));
    }
    // ---- release everything that is still held, again one action at a time
    let mut released = drained;
    if drained {
        for r in (0..c.roles.len()).rev() {
            if c.roles[r].lost {
                continue;
            }
            c.command(r, "release", Cmd::Release);
            if !c.drain() {
                released = false;
                break;
            }
        }
    }
    ctl::set_active(false);
    let any_lost = c.roles.iter().any(|r| r.lost);
    // ---- final accounting (only meaningful when every holder could be released)
    if released && !any_lost {
        let t = c.world.t(1);
        let h = hooks::hs();
        let deallocs = h.deallocs.get(&1).copied().unwrap_or(0);
        let (fdrops, rdrops) = (t.fdrops.load(SeqCst), t.rdrops.load(SeqCst));
        let produced = lock(&t.produced).is_some();
        let taken = u32::from(matches!(c.last_join, "ok" | "panic"));
        let uaf = h.uaf.clone();
        drop(h);
        let mut v = vec![];
        if deallocs != 1 {
            v.push(("task-not-deallocated-exactly-once", format!("{deallocs} deallocations")));
        }
        if fdrops != 1 {
            v.push(("future-not-dropped-exactly-once", format!("{fdrops} drops")));
        }
        if taken + rdrops != u32::from(produced) {
            v.push(("result-not-accounted-exactly-once", format!("produced {produced}, taken {taken}, dropped {rdrops}")));
        }
        for (_, site) in uaf {
            v.push(("access-after-dealloc", site.to_string()));
        }
        for (w, d) in v {
            c.violations.push(("contract", json!({"site": "remote", "what": w}), d));
        }
        let weak_alive = c.joiners.iter().filter(|j| j.weak.strong_count() > 1).count();
        if weak_alive > 0 {
            let pattern = if c.dropped_in_section { "task-dropped-inside-setting-waker" } else { "other" };
            c.violations.push(("contract", json!({"site": "remote", "what": "joiner-waker-leaked", "pattern": pattern}),
                format!("the task allocation is gone but the waker the remote joiner registered was never dropped; pattern {pattern}")));
        }
    }
    {
        let t = c.world.t(1);
        if let Some(home) = c.home {
            if lock(&t.poll_threads).iter().any(|x| *x != home) {
                c.violations.push(("contract", json!({"site": "remote", "what": "future-polled-off-home-thread"}), String::new()));
            }
            if lock(&t.fdrop_threads).iter().any(|x| *x != home) {
                c.violations.push(("contract", json!({"site": "remote", "what": "future-dropped-off-home-thread"}), String::new()));
            }
        }
        if t.polls_after_finish.load(SeqCst) > 0 {
            c.violations.push(("contract", json!({"site": "remote", "what": "poll-after-finish"}), String::new()));
        }
        if t.fdrops.load(SeqCst) > 1 || t.rdrops.load(SeqCst) > 1 {
            c.violations.push(("contract", json!({"site": "remote", "what": "dropped-twice"}), String::new()));
        }
        if matches!(c.last_join, "ok-of-other-task" | "foreign-panic" | "cancel-pending") {
            c.violations.push(("contract", json!({"site": "remote", "what": "wrong-join-result", "got": c.last_join}), String::new()));
        }
    }
    // ---- report
    let trail: Vec<String> = hooks::hs().log.iter().rev().take(30).rev().map(|e| e.site.to_string()).collect();
    for p in std::mem::take(&mut c.panics) {
        rep.problem("panic", json!({"site": "remote", "what": "panic"}), format!("case {idx}: {p}"), case, nsteps);
    }
    for (ty, sig, d) in std::mem::take(&mut c.violations) {
        rep.problem(ty, sig, format!("case {idx}: {d}; counters {snap}"), case, nsteps);
    }
    if let Some(d) = c.divergences.first() {
        rep.problem("mismatch", json!({"site": "remote", "field": "divergence"}),
                    format!("case {idx}: {d}; last events {trail:?}"), case, nsteps);
    } else if let Some(d) = diffs.first() {
        rep.problem("mismatch", json!({"site": "remote", "field": "final-state"}),
                    format!("case {idx}: {diffs:?} ({d}); counters {snap}"), case, nsteps);
    }
    // ---- tear the threads down (lost threads stay parked for ever; they are detached)
    let mut ids = vec![];
    // a thread is asked to exit only when it is idle; it drops what it still owns and then reports; the report is
    // awaited with a watchdog (never a blocking join): a thread that does not report stays behind, parked or spinning
    // until the next case bumps the epoch, and is reported
    let mut abandoned = false;
    for i in 0..c.roles.len() {
        let idle = !c.roles[i].lost && ctl::whereis(i) == Where::Idle;
        if !idle {
            abandoned = true;
            continue;
        }
        let r = &mut c.roles[i];
        let _ = r.tx.send(Cmd::Exit);
        let t0 = std::time::Instant::now();
        let mut exited = false;
        while t0.elapsed().as_millis() < 5_000 {
            match r.rx.recv_timeout(std::time::Duration::from_millis(200)) {
                Ok(Res::Exited) => {
                    exited = true;
                    break;
                }
                Ok(_) => {}
                Err(std::sync::mpsc::RecvTimeoutError::Timeout) => {}
                Err(_) => break,
            }
        }
        if exited {
            if let Some(th) = r.th.take() {
                ids.push(th.thread().id());
                let _ = th.join();
            }
        } else {
            abandoned = true;
            if released && !any_lost {
                rep.problem("hang", json!({"site": "remote", "what": "thread-did-not-exit", "thread": r.name}),
                            format!("case {idx}: thread {} did not finish dropping what it owned within 5 s", r.name), case, nsteps);
            }
        }
    }
    if abandoned || c.over_budget {
        ABANDONED.fetch_add(1, SeqCst);
    }
    ctl::forget(&ids);
    LOST.fetch_add(c.roles.iter().filter(|r| r.lost).count() as u64, SeqCst);
    STEPS.fetch_add(c.steps_done, SeqCst);
}

static SITES: std::sync::Mutex<std::collections::BTreeMap<&'static str, u64>> = std::sync::Mutex::new(std::collections::BTreeMap::new());

/// Free-running leg (no controller): a real awaiting joiner on another thread against a completing
/// task, random start offsets from the seed. A joiner that is not woken within the watchdog although
/// the output is there is a `hang`; the exactly-once accounting is checked after every iteration.
fn stress(n: u64, seed: u64, rep: &mut Report) {
    hooks::install();
    let mut x = seed.wrapping_mul(0x9E37_79B9_7F4A_7C15) | 1;
    let mut rnd = move || {
        x ^= x << 13;
        x ^= x >> 7;
        x ^= x << 17;
        x
    };
    for i in 0..n {
        rep.cases += 1;
        hooks::reset();
        hooks::hs().keep_log = true;
        let world = World::new(1);
        hexec::instr::set_current(&world);
        *lock(&world.fallback) = Outcome::Ready;
        let jn = join_waker(1, &world);
        let (d1, d2) = (rnd() % 400, rnd() % 400);
        let (htx, hrx) = channel::<JoinHandle<Out>>();
        let (dtx, drx) = channel::<()>();
        let w2 = world.clone();
        let home = std::thread::spawn(move || {
            let e = Executor::with_config(ExecutorConfig {
                sync_queue_size: 1,
                local_queue_size: 4,
                max_interval: 1,
                waker: Some(Waker::from(Arc::new(DriverWaker(w2.clone())))),
            });
            hooks::hs().cur_spawn = 1;
            let h = e.spawn(InstrFuture::new(1, &w2));
            let _ = htx.send(h);
            for _ in 0..d1 {
                std::hint::spin_loop();
            }
            while e.tick() {}
            // keep the executor alive until the joiner is done, then drop it
            let _ = drx.recv_timeout(std::time::Duration::from_secs(20));
            drop(e);
            std::thread::current().id()
        });
        let handle = hrx.recv().expect("handle");
        let flag = jn.flag.clone();
        let waker = jn.waker.clone();
        let joiner = std::thread::spawn(move || {
            let mut handle = handle;
            for _ in 0..d2 {
                std::hint::spin_loop();
            }
            let mut cx = Context::from_waker(&waker);
            loop {
                match Pin::new(&mut handle).poll(&mut cx) {
                    Poll::Ready(res) => return classify(res),
                    Poll::Pending => {
                        let (m, c) = &*flag;
                        let mut g = lock(m);
                        let t0 = std::time::Instant::now();
                        while !*g {
                            let left = std::time::Duration::from_secs(10).saturating_sub(t0.elapsed());
                            if left.is_zero() {
                                drop(g);
                                drop(handle);
                                return "never-woken";
                            }
                            g = c.wait_timeout(g, left).unwrap_or_else(|e| e.into_inner()).0;
                        }
                        *g = false;
                    }
                }
            }
        });
        let jres = joiner.join().unwrap_or("joiner-panicked");
        let _ = dtx.send(());
        let home_id = home.join().ok();
        drop(jn);
        let t = world.t(1);
        let case = json!({"stress": i, "seed": seed, "d1": d1, "d2": d2});
        if jres == "never-woken" {
            let log = hooks::hs().log.clone();
            let pos = |s: &str| log.iter().position(|e| e.site == s);
            let inside = match (pos("exec.state.start_setting_waker"), pos("exec.state.finish_running"), pos("exec.state.finish_setting_waker")) {
                (Some(a), Some(b), Some(c)) => a < b && b < c,
                _ => false,
            };
            let pattern = if inside { "completed-inside-setting-waker" } else { "other" };
            rep.problem("hang", json!({"site": "remote", "what": "joiner-never-woken", "pattern": pattern}),
                        format!("free-running iteration {i}: the awaiting joiner was not woken within 10 s although the task completed"), &case, 0);
            continue;
        }
        let deallocs = hooks::hs().deallocs.get(&1).copied().unwrap_or(0);
        let ok = jres == "ok" && t.fdrops.load(SeqCst) == 1 && t.rdrops.load(SeqCst) == 0 && deallocs == 1
            && t.polls.load(SeqCst) == 1
            && home_id.map(|h| lock(&t.poll_threads).iter().all(|x| *x == h) && lock(&t.fdrop_threads).iter().all(|x| *x == h)).unwrap_or(false);
        if !ok {
            rep.problem("contract", json!({"site": "remote", "what": "stress-accounting"}),
                        format!("free-running iteration {i}: join {jres}, polls {} fdrops {} rdrops {} deallocs {deallocs}",
                                t.polls.load(SeqCst), t.fdrops.load(SeqCst), t.rdrops.load(SeqCst)), &case, 0);
        }
    }
}

static OVER: std::sync::atomic::AtomicU64 = std::sync::atomic::AtomicU64::new(0);
static SKIPPED: std::sync::atomic::AtomicU64 = std::sync::atomic::AtomicU64::new(0);
static ABANDONED: std::sync::atomic::AtomicU64 = std::sync::atomic::AtomicU64::new(0);
static LOST: std::sync::atomic::AtomicU64 = std::sync::atomic::AtomicU64::new(0);
static STEPS: std::sync::atomic::AtomicU64 = std::sync::atomic::AtomicU64::new(0);

fn main() {
    silence_panics();
    let mut rep = Report::new();
    let args: Vec<String> = std::env::args().collect();
    if args.get(1).map(|a| a == "--stress").unwrap_or(false) {
        let n: u64 = args[2].parse().expect("iterations");
        let seed: u64 = args.get(3).and_then(|s| s.parse().ok()).unwrap_or(1);
        stress(n, seed, &mut rep);
        rep.finish();
        return;
    }
    ctl::install();
    if args.get(1).map(|a| a == "--teardown").unwrap_or(false) {
        teardown_family(&mut rep);
        rep.set("actions_released", json!(STEPS.load(SeqCst)));
        rep.set("threads_quarantined", json!(LOST.load(SeqCst)));
        rep.set("cases_abandoned", json!(ABANDONED.load(SeqCst)));
        rep.set("cases_skipped", json!(0));
        rep.set("sites_released", json!(*lock(&SITES)));
        rep.finish();
        std::process::exit(0);
    }
    for (i, case) in cases_from_arg().enumerate() {
        if OVER.load(SeqCst) >= MAX_ABANDONED {
            SKIPPED.fetch_add(1, SeqCst);
            continue;
        }
        rep.cases += 1;
        eprintln!("@case {i}");
        let before = ABANDONED.load(SeqCst);
        let q0 = LOST.load(SeqCst);
        let t0 = std::time::Instant::now();
        run_case(&case, i as u64, &mut rep);
        // cases that were abandoned without a quarantine (= not explained by containment) or that were slow
        if (ABANDONED.load(SeqCst) > before && LOST.load(SeqCst) == q0) || t0.elapsed().as_millis() as u64 >= CASE_BUDGET_MS {
            OVER.fetch_add(1, SeqCst);
        }
    }
    rep.set("actions_released", json!(STEPS.load(SeqCst)));
    rep.set("threads_quarantined", json!(LOST.load(SeqCst)));
    rep.set("cases_abandoned", json!(ABANDONED.load(SeqCst)));
    rep.set("cases_skipped", json!(SKIPPED.load(SeqCst)));
    rep.set("sites_released", json!(*lock(&SITES)));
    rep.finish();
    // quarantined threads are parked for ever: leave without joining them
    std::process::exit(0);
}
