//! Hook sink for the C04 replays: allocation tracking of task allocations and an event log.
//!
//! `exec.task.new(hdr, state)` registers an allocation for the task the harness is spawning,
//! `exec.task.dealloc(hdr)` frees it; any later `exec.state.*` / `exec.task.*` / `exec.remote.*`
//! event on a freed address (before the allocator hands it out again) is an access after dealloc.
use std::{
    collections::HashMap,
    sync::{Mutex, OnceLock},
    thread::ThreadId,
};

#[derive(Clone, Debug)]
pub struct Ev {
    pub seq: u64,
    pub site: &'static str,
    pub a: u64,
    pub b: u64,
    pub task: usize,
    pub thread: ThreadId,
}

#[derive(Default)]
pub struct HookState {
    pub cur_spawn: usize,
    hdr2task: HashMap<u64, usize>,
    st2task: HashMap<u64, usize>,
    task2st: HashMap<usize, u64>,
    freed: HashMap<u64, usize>,
    pub deallocs: HashMap<usize, u32>,
    pub dealloc_threads: HashMap<usize, Vec<ThreadId>>,
    /// (task, site) of accesses after dealloc
    pub uaf: Vec<(usize, &'static str)>,
    pub seq: u64,
    pub log: Vec<Ev>,
    pub keep_log: bool,
    /// events not logged because the per-case cap was reached / a spin-loop hook repeated
    pub log_dropped: u64,
    spin_logged: u32,
    pub shared_freed: bool,
    /// remote accesses to the Shared block announced after `exec.free_shared`
    pub shared_uaf: Vec<(usize, &'static str)>,
}

/// Upper bound of logged events per case.
pub const LOG_CAP: usize = 20_000;

static HS: OnceLock<Mutex<HookState>> = OnceLock::new();

pub fn hs() -> std::sync::MutexGuard<'static, HookState> {
    HS.get_or_init(|| Mutex::new(HookState::default()))
        .lock()
        .unwrap_or_else(|e| e.into_inner())
}

/// Sites that dereference the Shared block of the executor from a remote waker.
pub fn touches_shared(site: &str) -> bool {
    matches!(
        site,
        "exec.remote.reserve"
            | "exec.remote.push"
            | "exec.remote.push_retry"
            | "exec.remote.unreserve"
            | "exec.remote.wake_driver"
    )
}

/// Account one hook event (allocation tracking, access-after-dealloc detection); returns the task
/// it belongs to (0 = unknown / executor-level) and whether it touches freed memory.
/// `performed`: the announced access really happens now (false: the thread only arrived at the
/// hook and will be parked by the schedule controller; it is logged when it is released).
pub fn account(site: &'static str, a: u64, b: u64, performed: bool) -> (usize, bool) {
    let mut h = hs();
    let mut task = 0;
    let mut bad = false;
    match site {
        "exec.task.new" => {
            let t = h.cur_spawn;
            h.hdr2task.insert(a, t);
            h.st2task.insert(b, t);
            h.task2st.insert(t, b);
            h.freed.remove(&a);
            h.freed.remove(&b);
            task = t;
        }
        "exec.task.dealloc" => {
            if let Some(t) = h.hdr2task.remove(&a) {
                *h.deallocs.entry(t).or_insert(0) += 1;
                h.dealloc_threads.entry(t).or_default().push(std::thread::current().id());
                h.freed.insert(a, t);
                if let Some(st) = h.task2st.remove(&t) {
                    h.st2task.remove(&st);
                    h.freed.insert(st, t);
                }
                task = t;
            } else if let Some(&t) = h.freed.get(&a) {
                *h.deallocs.entry(t).or_insert(0) += 1;
                task = t;
            }
        }
        "exec.free_shared" => {
            if performed {
                h.shared_freed = true;
            }
        }
        _ => {
            if site.starts_with("exec.state.") {
                if let Some(&t) = h.st2task.get(&a) {
                    task = t;
                } else if let Some(&t) = h.freed.get(&a) {
                    if h.uaf.len() < 64 { h.uaf.push((t, site)); }
                    task = t;
                    bad = true;
                }
            } else if site.starts_with("exec.task.") || site.starts_with("exec.remote.") {
                if let Some(&t) = h.hdr2task.get(&a) {
                    task = t;
                } else if let Some(&t) = h.freed.get(&a) {
                    if h.uaf.len() < 64 { h.uaf.push((t, site)); }
                    task = t;
                    bad = true;
                }
                if h.shared_freed && touches_shared(site) {
                    if h.shared_uaf.len() < 64 { h.shared_uaf.push((task, site)); }
                    bad = true;
                }
            }
        }
    }
    if performed {
        log_locked(&mut h, site, a, b, task);
    }
    (task, bad)
}

fn log_locked(h: &mut HookState, site: &'static str, a: u64, b: u64, task: usize) {
    h.seq += 1;
    // bounded: hooks inside spin loops (wait_spin, push_retry and the load they go with) are logged only the
    // first few times per case, and the whole log is capped
    let spin = matches!(site, "exec.task.wait_spin" | "exec.remote.push_retry");
    if spin {
        h.spin_logged += 1;
    }
    if h.keep_log && ((spin && h.spin_logged > 16) || h.log.len() >= LOG_CAP) {
        h.log_dropped += 1;
        return;
    }
    if h.keep_log {
        let seq = h.seq;
        h.log.push(Ev {
            seq,
            site,
            a,
            b,
            task,
            thread: std::thread::current().id(),
        });
    }
}

/// Log an event whose access is performed now (a parked thread was released).
pub fn log_performed(site: &'static str, a: u64, b: u64, task: usize) {
    let mut h = hs();
    if site == "exec.free_shared" {
        h.shared_freed = true;
    }
    log_locked(&mut h, site, a, b, task);
}

fn sink(site: &'static str, a: u64, b: u64) {
    account(site, a, b, true);
}

/// Install the plain accounting sink (single-threaded replays).
pub fn install() {
    compio_log::verif::set_sink(Some(sink));
}

/// Forget everything (between cases).
pub fn reset() {
    let mut h = hs();
    let keep = h.keep_log;
    *h = HookState::default();
    h.keep_log = keep;
}
