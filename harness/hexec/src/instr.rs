//! Instrumented futures, outputs, panic payloads and wakers for the C04 replays.
//!
//! Everything observable about a task is counted here, together with the thread it happened on:
//! polls, drops of the future, drops of the output / panic payload, wakes of the joiner.
use std::{
    collections::VecDeque,
    future::Future,
    pin::Pin,
    sync::{
        Arc, Mutex,
        atomic::{AtomicBool, AtomicU32, Ordering::SeqCst},
    },
    task::{Context, Poll, Wake, Waker},
    thread::ThreadId,
};

#[derive(Clone, Copy, Debug, PartialEq, Eq)]
pub enum Outcome {
    Pend,
    Stash,
    SelfWake,
    Ready,
    Panic,
}

impl Outcome {
    pub fn parse(s: &str) -> Outcome {
        match s {
            "pend" => Outcome::Pend,
            "stash" => Outcome::Stash,
            "selfwake" => Outcome::SelfWake,
            "ready" => Outcome::Ready,
            "panic" => Outcome::Panic,
            _ => panic!("bad outcome {s}"),
        }
    }

    pub fn name(self) -> &'static str {
        match self {
            Outcome::Pend => "pend",
            Outcome::Stash => "stash",
            Outcome::SelfWake => "selfwake",
            Outcome::Ready => "ready",
            Outcome::Panic => "panic",
        }
    }
}

#[derive(Default)]
pub struct TaskStats {
    pub polls: AtomicU32,
    pub fdrops: AtomicU32,
    pub rdrops: AtomicU32,
    pub jwoken: AtomicU32,
    /// set by the future itself when it returns Ready or panics: "ok" / "panic"
    pub produced: Mutex<Option<&'static str>>,
    pub poll_threads: Mutex<Vec<ThreadId>>,
    pub fdrop_threads: Mutex<Vec<ThreadId>>,
    pub rdrop_threads: Mutex<Vec<ThreadId>>,
    /// polls that happened after the future had finished (would be UB in a real future)
    pub polls_after_finish: AtomicU32,
    pub wakers: Mutex<Vec<Waker>>,
}

/// One replayed case: per-task counters, the poll script of the current tick, the driver waker count.
pub struct World {
    pub tasks: Vec<TaskStats>,
    /// (task, outcome) the model expects for the next polls, in order
    pub script: Mutex<VecDeque<(usize, Outcome)>>,
    /// what a poll does when the script is exhausted or names another task
    pub fallback: Mutex<Outcome>,
    /// polls as they really happened in the current tick
    pub order: Mutex<Vec<(usize, &'static str, bool)>>,
    pub dw: AtomicU32,
    /// consumed by the next poll: stash that many waker clones, optionally wake_by_ref, Pending
    pub setup_poll: Mutex<Option<(usize, bool)>>,
}

impl World {
    pub fn new(nt: usize) -> Arc<World> {
        Arc::new(World {
            tasks: (0..=nt).map(|_| TaskStats::default()).collect(),
            script: Mutex::new(VecDeque::new()),
            fallback: Mutex::new(Outcome::Pend),
            order: Mutex::new(Vec::new()),
            dw: AtomicU32::new(0),
            setup_poll: Mutex::new(None),
        })
    }

    pub fn t(&self, id: usize) -> &TaskStats {
        &self.tasks[id]
    }
}

static CUR: Mutex<Option<Arc<World>>> = Mutex::new(None);

/// The instrumented values hold no owning pointer (a double drop provoked by a broken executor must
/// stay harmless for the harness): they find their counters through the current world.
pub fn set_current(w: &Arc<World>) {
    *lock(&CUR) = Some(w.clone());
}

fn cur() -> Arc<World> {
    lock(&CUR).clone().expect("no current world")
}

pub fn lock<T>(m: &Mutex<T>) -> std::sync::MutexGuard<'_, T> {
    m.lock().unwrap_or_else(|e| e.into_inner())
}

/// Output of an instrumented future; counts its own drop unless disarmed by the harness
/// (the harness disarms what the JoinHandle delivered: that is "taken", not "dropped").
pub struct Out {
    pub id: usize,
    armed: AtomicBool,
}

impl Out {
    pub fn disarm(&self) {
        self.armed.store(false, SeqCst);
    }
}

impl Drop for Out {
    fn drop(&mut self) {
        if self.armed.load(SeqCst) {
            let w = cur();
            let t = w.t(self.id);
            t.rdrops.fetch_add(1, SeqCst);
            lock(&t.rdrop_threads).push(std::thread::current().id());
        }
    }
}

/// Panic payload of an instrumented future (same accounting as `Out`).
pub struct Payload(pub Out);

pub struct InstrFuture {
    id: usize,
    finished: bool,
}

impl InstrFuture {
    pub fn new(id: usize, world: &Arc<World>) -> Self {
        set_current(world);
        Self {
            id,
            finished: false,
        }
    }
}

impl Future for InstrFuture {
    type Output = Out;

    fn poll(mut self: Pin<&mut Self>, cx: &mut Context<'_>) -> Poll<Out> {
        let id = self.id;
        let world = cur();
        let t = world.t(id);
        t.polls.fetch_add(1, SeqCst);
        lock(&t.poll_threads).push(std::thread::current().id());
        if self.finished {
            t.polls_after_finish.fetch_add(1, SeqCst);
            return Poll::Pending;
        }
        if let Some((n, selfwake)) = lock(&world.setup_poll).take() {
            for _ in 0..n {
                lock(&t.wakers).push(cx.waker().clone());
            }
            if selfwake {
                cx.waker().wake_by_ref();
            }
            lock(&world.order).push((id, "setup", true));
            return Poll::Pending;
        }
        let (o, scripted) = {
            let mut s = lock(&world.script);
            match s.front() {
                Some(&(tid, o)) if tid == id => {
                    s.pop_front();
                    (o, true)
                }
                _ => (*lock(&world.fallback), false),
            }
        };
        lock(&world.order).push((id, o.name(), scripted));
        let mk = || Out {
            id,
            armed: AtomicBool::new(true),
        };
        match o {
            Outcome::Pend => Poll::Pending,
            Outcome::Stash => {
                lock(&t.wakers).push(cx.waker().clone());
                Poll::Pending
            }
            Outcome::SelfWake => {
                cx.waker().wake_by_ref();
                Poll::Pending
            }
            Outcome::Ready => {
                self.finished = true;
                *lock(&t.produced) = Some("ok");
                Poll::Ready(mk())
            }
            Outcome::Panic => {
                self.finished = true;
                *lock(&t.produced) = Some("panic");
                std::panic::panic_any(Payload(mk()))
            }
        }
    }
}

impl Drop for InstrFuture {
    fn drop(&mut self) {
        let w = cur();
        let t = w.t(self.id);
        t.fdrops.fetch_add(1, SeqCst);
        lock(&t.fdrop_threads).push(std::thread::current().id());
    }
}

/// Joiner waker of task `id` (one Arc per (task, joiner number) so that will_wake distinguishes them).
pub struct JoinWaker {
    pub id: usize,
    pub world: Arc<World>,
    /// set on wake; a parked remote joiner waits on it
    pub flag: Arc<(Mutex<bool>, std::sync::Condvar)>,
}

impl Wake for JoinWaker {
    fn wake(self: Arc<Self>) {
        self.wake_by_ref()
    }

    fn wake_by_ref(self: &Arc<Self>) {
        self.world.t(self.id).jwoken.fetch_add(1, SeqCst);
        let (m, c) = &*self.flag;
        *lock(m) = true;
        c.notify_all();
    }
}

pub struct Joiner {
    pub waker: Waker,
    pub flag: Arc<(Mutex<bool>, std::sync::Condvar)>,
    /// dangling once every clone of the waker (also the one in the task's slot) is dropped
    pub weak: std::sync::Weak<JoinWaker>,
}

pub fn join_waker(id: usize, world: &Arc<World>) -> Joiner {
    let flag = Arc::new((Mutex::new(false), std::sync::Condvar::new()));
    let w = Arc::new(JoinWaker {
        id,
        world: world.clone(),
        flag: flag.clone(),
    });
    let weak = Arc::downgrade(&w);
    Joiner {
        waker: Waker::from(w),
        flag,
        weak,
    }
}

/// The waker handed to ExecutorConfig (stands for the driver's waker): counts wakes.
pub struct DriverWaker(pub Arc<World>);

impl Wake for DriverWaker {
    fn wake(self: Arc<Self>) {
        self.wake_by_ref()
    }

    fn wake_by_ref(self: &Arc<Self>) {
        self.0.dw.fetch_add(1, SeqCst);
    }
}
