//! The jobs handed to the pool: gates the harness opens (steered replay) or seeded durations (stress).
//! Every job counts its executions, moves the global running gauge, detects being dropped without
//! having run, and carries a recognisable payload so that a rejected dispatch can be checked to hand
//! the very same object back.
use std::time::Duration;

use compio_driver::Dispatchable;

use crate::ctl::Sess;

const PAD: u64 = 0xA5A5_5A5A_C3C3_3C3C;

pub struct Job {
    pub idx: usize,
    pub serial: u64,
    pad: [u64; 6],
    sess: Sess,
    ran: bool,
    pub panics: bool,
    /// None: wait for the gate; Some(us): run for that long
    pub dur_us: Option<u64>,
}

impl Job {
    pub fn new(sess: &Sess, idx: usize, serial: u64, panics: bool, dur_us: Option<u64>) -> Self {
        let mut pad = [0u64; 6];
        for (i, p) in pad.iter_mut().enumerate() {
            *p = PAD ^ serial.wrapping_mul(i as u64 + 3);
        }
        Job { idx, serial, pad, sess: sess.clone(), ran: false, panics, dur_us }
    }

    pub fn intact(&self, idx: usize, serial: u64) -> bool {
        self.idx == idx
            && self.serial == serial
            && !self.ran
            && self.pad.iter().enumerate().all(|(i, p)| *p == PAD ^ serial.wrapping_mul(i as u64 + 3))
    }

    /// The body of the job. Panics at the end when the job is a panicking one.
    pub fn execute(&mut self) {
        self.ran = true;
        self.sess.job_start(self.idx);
        match self.dur_us {
            None => self.sess.wait_gate(self.idx),
            Some(0) => {}
            Some(us) => std::thread::sleep(Duration::from_micros(us)),
        }
        self.sess.job_end(self.idx, self.panics);
        if self.panics {
            panic!("verif-panic-{}", self.idx);
        }
    }
}

impl Drop for Job {
    fn drop(&mut self) {
        self.sess.job_dropped(self.idx, self.ran);
    }
}

impl Dispatchable for Job {
    fn run(mut self: Box<Self>) {
        self.execute();
    }
}
