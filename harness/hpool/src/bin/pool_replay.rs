//! C17: replay AsyncifyPool schedules (spec/Gen_AsyncifyPool.tla via lib/checks/c17.py) on the real pool.
//!
//! usage: pool_replay <schedules.jsonl> [--par N] [--t-ms T] [--hang-ms H] [--attempts K]
//!
//! A schedule is a sequence of model actions, each with the role that moves and the complete model
//! state after the step. Real threads park at the `pool.*` hooks until the controller grants the turn
//! the schedule names; after every step the real threads are projected onto the model's record
//! (hook site per role, counter value at the load hook, started/finished jobs, blocked-in-channel =
//! kernel says the thread sleeps outside our hooks) and compared. A difference is DRIFT (`mismatch`,
//! after retries with a longer recv_timeout), never a violation. Independently the contract oracle is
//! evaluated on the real observation after an epilogue in which everything runs freely: every accepted
//! job ran exactly once, nothing was dropped, rejected jobs came back intact, the running gauge never
//! exceeded the limit, no dispatch hangs (watchdog), results/panics came back through Proactor::pop,
//! and after all workers retired a probe dispatch is accepted, runs, and finds the counter at 0.
use std::{
    sync::{
        Arc, Mutex,
        atomic::{AtomicBool, AtomicUsize, Ordering},
        mpsc,
    },
    time::{Duration, Instant},
};

use compio_driver::{AsyncifyPool, DriverType, Proactor};
use hcore::out::Report;
use hpool::{
    ctl::{self, Ev, Inner, Kind, Outcome, Ret, Sess, Session},
    disp::{self, Cmd, Mode, Shared},
    job::Job,
    oracle,
};
use serde_json::{Value, json};

#[derive(Clone, Debug)]
#[allow(dead_code)]
struct MState {
    pcd: Vec<String>,
    pcw: Vec<String>,
    wjob: Vec<Option<usize>>,
    waiting: Vec<usize>,
    counter: u64,
    ran: Vec<usize>,
    fin: Vec<String>,
    over: u64,
    orphan: Vec<bool>,
}

#[derive(Clone, Debug)]
enum RoleRef {
    D(usize),
    W(usize),
}

#[derive(Clone, Debug)]
struct Step {
    act: String,
    role: RoleRef,
    job: Option<usize>,
    to: MState,
}

#[allow(dead_code)]
struct Plan {
    limit: usize,
    jobs: Vec<String>,
    disp: Vec<String>,
    nw: usize,
    panic: Vec<bool>,
    looped: bool,
    mode: Mode,
    steps: Vec<Step>,
}

struct Opts {
    par: usize,
    t_ms: u64,
    hang_ms: u64,
    attempts: u32,
    settle_ms: u64,
}

static ABORT: AtomicBool = AtomicBool::new(false);

fn parse_plan(v: &Value) -> Plan {
    let cfg = &v["cfg"];
    let strs = |x: &Value| -> Vec<String> {
        let mut a: Vec<String> = x.as_array().unwrap().iter().map(|s| s.as_str().unwrap().to_string()).collect();
        a.sort();
        a
    };
    let jobs = strs(&cfg["jobs"]);
    let disp = strs(&cfg["disp"]);
    let panics = strs(&cfg["panic"]);
    let jidx = |s: &str| jobs.iter().position(|j| j == s);
    let nw = cfg["nw"].as_u64().unwrap() as usize;
    let mode = match v["driver"].as_str().unwrap_or("raw") {
        "iour" => Mode::Drv(DriverType::IoUring),
        "poll" => Mode::Drv(DriverType::Poll),
        _ => Mode::Raw,
    };
    let mstate = |s: &Value| MState {
        pcd: disp.iter().map(|d| s["pcD"][d].as_str().unwrap().to_string()).collect(),
        pcw: s["pcW"].as_array().unwrap().iter().map(|x| x.as_str().unwrap().to_string()).collect(),
        wjob: s["wjob"].as_array().unwrap().iter().map(|x| jidx(x.as_str().unwrap())).collect(),
        waiting: s["waiting"].as_array().unwrap().iter().map(|x| x.as_u64().unwrap() as usize).collect(),
        counter: s["counter"].as_u64().unwrap(),
        ran: jobs.iter().map(|j| s["ran"][j].as_u64().unwrap() as usize).collect(),
        fin: jobs.iter().map(|j| s["fin"][j].as_str().unwrap().to_string()).collect(),
        over: s["over"].as_u64().unwrap(),
        orphan: disp.iter().map(|d| s["orphan"][d].as_bool().unwrap()).collect(),
    };
    let steps = v["steps"]
        .as_array()
        .unwrap()
        .iter()
        .map(|s| {
            let role = match &s["role"] {
                Value::String(d) => RoleRef::D(disp.iter().position(|x| x == d).expect("dispatcher name")),
                x => RoleRef::W(x.as_u64().expect("worker index") as usize),
            };
            Step {
                act: s["act"].as_str().unwrap().to_string(),
                role,
                job: s["job"].as_str().and_then(jidx),
                to: mstate(&s["to"]),
            }
        })
        .collect();
    Plan {
        limit: cfg["limit"].as_u64().unwrap() as usize,
        panic: jobs.iter().map(|j| panics.contains(j)).collect(),
        jobs,
        disp,
        nw,
        looped: cfg["loop"].as_bool().unwrap(),
        mode,
        steps,
    }
}

enum Verdict {
    Match(Vec<usize>), // roles that must additionally be blocked inside the channel
    Transient(String),
    Definite(String),
}

/// Project the real threads onto the model record and compare.
fn compare(g: &Inner, plan: &Plan, m: &MState, sent: &[usize], fresh: Option<usize>) -> Verdict {
    let nd = plan.disp.len();
    let mut need_block = vec![];
    let mut transient: Option<String> = None;
    for (i, pc) in m.pcd.iter().enumerate() {
        let r = &g.roles[i];
        let name = &plan.disp[i];
        let want_site = match pc.as_str() {
            "try" => Some("pool.d.try"),
            "load" => Some("pool.d.load"),
            "spawn" => Some("pool.d.spawn"),
            "send" => Some("pool.d.send"),
            _ => None,
        };
        match (pc.as_str(), want_site) {
            ("idle", _) => {
                if r.calls_begun < sent[i] {
                    transient = Some(format!("{name}: call not started yet"));
                } else if r.in_call.is_some() {
                    if let Some((site, _)) = r.at {
                        return Verdict::Definite(format!("{name}: model says dispatch returned, thread is at {site}"));
                    }
                    transient = Some(format!("{name}: dispatch has not returned yet"));
                }
            }
            ("sending", _) => {
                if let Some((site, _)) = r.at {
                    return Verdict::Definite(format!("{name}: model says blocked in send, thread is at {site}"));
                }
                if r.calls_begun < sent[i] {
                    transient = Some(format!("{name}: call not started yet"));
                } else if r.in_call.is_none() {
                    return Verdict::Definite(format!("{name}: model says blocked in send, dispatch returned {:?}", r.last_ret));
                } else {
                    need_block.push(i);
                }
            }
            (_, Some(site)) => match r.at {
                Some((s, b)) if s == site => {
                    // the hook reads the counter when the thread arrives: comparable only in the step that moved it there
                    if site == "pool.d.load" && fresh == Some(i) && b != m.counter {
                        return Verdict::Definite(format!("{name}: counter is {b} at the limit test, model says {}", m.counter));
                    }
                }
                Some((s, _)) => return Verdict::Definite(format!("{name}: model says at {site}, thread is at {s}")),
                None => {
                    if r.calls_begun < sent[i] {
                        transient = Some(format!("{name}: call not started yet"));
                    } else if r.in_call.is_none() {
                        return Verdict::Definite(format!(
                            "{name}: model says at {site}, dispatch returned {:?}",
                            r.last_ret
                        ));
                    } else {
                        transient = Some(format!("{name}: not yet at {site}"));
                    }
                }
            },
            _ => return Verdict::Definite(format!("{name}: unknown model pc {pc}")),
        }
    }
    for (k, pc) in m.pcw.iter().enumerate() {
        let ri = nd + k;
        let name = format!("W{}", k + 1);
        if pc == "unborn" {
            if g.roles.len() > ri {
                return Verdict::Definite(format!("{name}: thread exists, model says not spawned"));
            }
            continue;
        }
        if g.roles.len() <= ri {
            transient = Some(format!("{name}: thread has not reached its first hook"));
            continue;
        }
        let r = &g.roles[ri];
        if r.kind != Kind::W {
            return Verdict::Definite(format!("{name}: role table out of order"));
        }
        let at = r.at.map(|x| x.0);
        let ok_sites: &[&str] = match pc.as_str() {
            "spawned" => &["pool.w.inc"],
            "recv" => &["pool.w.recv", "pool.w.done"],
            "got" => &["pool.w.run"],
            "exit" => &["pool.w.exit"],
            _ => &[],
        };
        match pc.as_str() {
            "spawned" | "recv" | "got" | "exit" => match at {
                Some(s) if ok_sites.contains(&s) => {}
                Some(s) => return Verdict::Definite(format!("{name}: model says {pc}, thread is at {s}")),
                None => {
                    if r.exited {
                        return Verdict::Definite(format!("{name}: model says {pc}, thread has exited"));
                    }
                    transient = Some(format!("{name}: not yet at the hook of state {pc}"));
                }
            },
            "run" => {
                if let Some(s) = at {
                    return Verdict::Definite(format!("{name}: model says running a job, thread is at {s}"));
                }
                if r.exited {
                    return Verdict::Definite(format!("{name}: model says running a job, thread has exited"));
                }
                match (r.in_job, m.wjob[k]) {
                    (Some(a), Some(b)) if a == b => {}
                    (Some(a), b) => return Verdict::Definite(format!("{name}: runs job {a}, model says {b:?}")),
                    (None, _) => transient = Some(format!("{name}: job not started yet")),
                }
            }
            "waiting" => match at {
                // the receiver timed out earlier than the schedule says: harmless unless a later step
                // relies on it (then that step differs)
                Some("pool.w.exit") => {}
                Some(s) => return Verdict::Definite(format!("{name}: model says parked in recv, thread is at {s}")),
                None => {
                    if r.exited {
                        return Verdict::Definite(format!("{name}: model says parked in recv, thread has exited"));
                    }
                    if r.in_job.is_some() {
                        return Verdict::Definite(format!("{name}: model says parked in recv, thread runs a job"));
                    }
                    need_block.push(ri);
                }
            },
            "dead" => {
                if let Some(s) = at {
                    return Verdict::Definite(format!("{name}: model says thread ended, thread is at {s}"));
                }
                if !r.exited {
                    transient = Some(format!("{name}: thread has not ended yet"));
                }
            }
            _ => return Verdict::Definite(format!("{name}: unknown model pc {pc}")),
        }
    }
    if g.nworkers > m.pcw.iter().filter(|p| *p != "unborn").count() {
        return Verdict::Definite("more worker threads exist than the model spawned".into());
    }
    for j in 0..plan.jobs.len() {
        if g.started[j] > m.ran[j] {
            return Verdict::Definite(format!("job {} started {} times, model says {}", plan.jobs[j], g.started[j], m.ran[j]));
        }
        if g.started[j] < m.ran[j] {
            transient = Some(format!("job {} not started yet", plan.jobs[j]));
        }
        let fin = m.fin[j] != "no";
        if g.ended[j] && !fin {
            return Verdict::Definite(format!("job {} ended, model says not", plan.jobs[j]));
        }
        if !g.ended[j] && fin {
            transient = Some(format!("job {} not ended yet", plan.jobs[j]));
        }
    }
    match transient {
        Some(t) => Verdict::Transient(t),
        None => Verdict::Match(need_block),
    }
}

fn settle(sess: &Sess, plan: &Plan, m: &MState, sent: &[usize], fresh: Option<usize>, ms: u64) -> Result<(), String> {
    let t0 = Instant::now();
    let mut last = String::new();
    loop {
        let v = {
            let g = sess.lock();
            compare(&g, plan, m, sent, fresh)
        };
        match v {
            Verdict::Definite(s) => return Err(s),
            Verdict::Match(need) => {
                let mut all = true;
                for r in need {
                    if !sess.blocked_in_channel(r) {
                        all = false;
                        last = format!("role {r} expected to be blocked inside the channel is still running");
                        break;
                    }
                }
                if all {
                    // nothing moved meanwhile?
                    let g = sess.lock();
                    if let Verdict::Match(_) = compare(&g, plan, m, sent, fresh) {
                        return Ok(());
                    }
                }
            }
            Verdict::Transient(s) => last = s,
        }
        if t0.elapsed().as_millis() as u64 > ms {
            return Err(format!("timeout after {ms} ms: {last}"));
        }
        sess.wait_until(2, |_| false);
    }
}

struct Problem {
    ty: &'static str,
    sig: Value,
    desc: String,
}

struct Outcome1 {
    drift: Option<(usize, String)>,
    problems: Vec<Problem>,
    steps_done: usize,
    events: usize,
    trace: Vec<String>,
}

fn role_names(g: &Inner) -> Vec<String> {
    g.roles.iter().map(|r| r.name.clone()).collect()
}

fn run_attempt(plan: &Plan, opts: &Opts, t_ms: u64) -> Outcome1 {
    let nj = plan.jobs.len();
    let nd = plan.disp.len();
    let probe = nj; // index of the probe job
    let sess = Session::new(plan.limit, nj + 1, true);
    let t = Duration::from_millis(t_ms);
    // the pool: for the driver leg it is made from the builder options a runtime would use
    let pool = match plan.mode {
        Mode::Raw => AsyncifyPool::new(plan.limit, t),
        Mode::Drv(_) => {
            let mut b = Proactor::builder();
            b.thread_pool_limit(plan.limit).thread_pool_recv_timeout(t);
            b.create_or_get_thread_pool()
        }
    };
    let serials: Vec<u64> = (0..=nj).map(|j| 0x9E37_79B9_7F4A_7C15u64.wrapping_mul(j as u64 + 11)).collect();
    let shared = Arc::new(Shared {
        jobs: Mutex::new(
            (0..=nj).map(|j| Some(Job::new(&sess, j, serials[j], j < nj && plan.panic[j], None))).collect(),
        ),
        serials,
    });
    let mut txs = vec![];
    let mut handles = vec![];
    for i in 0..nd {
        let (tx, rx) = mpsc::channel();
        handles.push(Some(disp::spawn(&sess, &pool, plan.mode.clone(), &shared, rx)));
        txs.push(tx);
        // dispatchers take the first role slots in order
        if !sess.wait_until(20000, |g| g.roles.len() > i) {
            panic!("harness: dispatcher thread did not start");
        }
    }
    let mut out = Outcome1 { drift: None, problems: vec![], steps_done: 0, events: 0, trace: vec![] };
    let spacing = Duration::from_millis(t_ms / 4);
    let mut last_park: Option<Instant> = None;
    let mut predicted_over = false;
    let mut sent = vec![0usize; nd];

    // ---------------------------------------------------------------- steered part
    for (si, st) in plan.steps.iter().enumerate() {
        let role_idx = match st.role {
            RoleRef::D(i) => i,
            RoleRef::W(k) => nd + k - 1,
        };
        let pre: Result<(), String> = (|| {
            let want: &[&str] = match st.act.as_str() {
                "DCall" | "WDone" | "WTimeout" => return Ok(()),
                "DTry" => &["pool.d.try"],
                "DReserve" | "DLoadReject" | "DLoadPass" | "DLoadPassLagged" => &["pool.d.load"],
                "DSpawn" => &["pool.d.spawn"],
                "DSend" => &["pool.d.send"],
                "WInc" => &["pool.w.inc"],
                "WRecv" => &["pool.w.recv", "pool.w.done"],
                "WRun" => &["pool.w.run"],
                "WExit" => &["pool.w.exit"],
                a => return Err(format!("unknown action {a}")),
            };
            let g = sess.lock();
            match g.roles.get(role_idx).and_then(|r| r.at) {
                Some((s, _)) if want.contains(&s) => Ok(()),
                other => Err(format!("role for {} is at {:?}, not at {:?}", st.act, other, want)),
            }
        })();
        if let Err(e) = pre {
            out.drift = Some((si, e));
            break;
        }
        let parks = st.act == "WRecv" && matches!(st.role, RoleRef::W(k) if st.to.waiting.contains(&k));
        if parks && st.to.waiting.len() >= 2 {
            if let Some(lp) = last_park {
                let el = lp.elapsed();
                if el < spacing {
                    std::thread::sleep(spacing - el);
                }
            }
        }
        match st.act.as_str() {
            "DCall" => {
                sent[role_idx] += 1;
                let _ = txs[role_idx].send(Cmd::Dispatch(st.job.expect("job of DCall")));
            }
            "WDone" => sess.open_gate(st.job.expect("job of WDone")),
            "WTimeout" => {}
            _ => sess.grant(role_idx),
        }
        let ms = if st.act == "WTimeout" { opts.settle_ms + t_ms } else { opts.settle_ms };
        let fresh = if st.act == "DTry" { Some(role_idx) } else { None };
        match settle(&sess, plan, &st.to, &sent, fresh, ms) {
            Ok(()) => {}
            Err(e) => {
                out.drift = Some((si, format!("after {}({:?}): {}", st.act, st.role, e)));
                break;
            }
        }
        if parks {
            last_park = Some(Instant::now());
        }
        if st.to.pcw.iter().filter(|p| *p == "run").count() > plan.limit {
            predicted_over = true;
        }
        out.steps_done = si + 1;
    }
    let final_model = plan.steps[..out.steps_done].last().map(|s| s.to.clone());
    let timing = std::env::var("VERIF_POOL_TIMING").is_ok();
    let t_start = Instant::now();
    if timing {
        eprintln!("steered part done: {} steps", out.steps_done);
    }

    // ---------------------------------------------------------------- epilogue: everything runs freely
    sess.free_run();
    sess.open_all_gates();
    let returned = |g: &Inner| g.roles.iter().filter(|r| r.kind == Kind::D).all(|r| r.in_call.is_none());
    let mut unrecoverable = false;
    // a hang the steered schedule has established beyond doubt (model and real threads agree: the sender
    // is queued or about to send and no receiver exists) needs only a short confirmation, not the full watchdog
    let predicted_orphan = out.drift.is_none()
        && out.steps_done == plan.steps.len()
        && final_model.as_ref().map(|m| {
            m.pcw.iter().all(|p| p == "unborn" || p == "dead" || p == "exit")
                && (0..nd).any(|d| m.orphan[d] && (m.pcd[d] == "send" || m.pcd[d] == "sending"))
                && (0..nd).all(|d| m.pcd[d] == "idle" || m.orphan[d])
        }).unwrap_or(false);
    let first_wait = if predicted_orphan { opts.hang_ms.min(500) } else { opts.hang_ms };
    if !sess.wait_until(first_wait, returned) {
        // a dispatch hangs: classify, then rescue it by spawning a fresh worker through another dispatch
        let stuck: Vec<usize> = {
            let g = sess.lock();
            (0..g.roles.len()).filter(|&i| g.roles[i].kind == Kind::D && g.roles[i].in_call.is_some()).collect()
        };
        for d in stuck {
            let (hc, job, names, tail) = {
                let g = sess.lock();
                let names = role_names(&g);
                let tail: Vec<String> = g.log.iter().rev().take(14).rev().map(|e| ctl::render(e, &names)).collect();
                (oracle::hang_class(&g, d), g.roles[d].in_call, names, tail)
            };
            let predicted = final_model.as_ref().map(|m| d < m.orphan.len() && m.orphan[d]).unwrap_or(false)
                && out.drift.is_none();
            out.problems.push(Problem {
                ty: "hang",
                sig: json!({"site": "pool", "kind": "dispatch-hang", "where": hc.place, "interleaving": hc.interleaving}),
                desc: format!(
                    "{} did not return from dispatch of job {:?} within {} ms: thread is in {}, {} worker threads alive, \
                     model predicted the orphaned send: {}; last events: {:?}",
                    names[d], job, first_wait, hc.place, hc.live_workers, predicted, tail
                ),
            });
        }
        if !oracle::rescue(&sess, &pool, returned, opts.hang_ms + 5000) {
            unrecoverable = true;
        }
    }
    if timing {
        eprintln!("dispatch returned: {:?}", t_start.elapsed());
    }
    // accepted jobs run to completion
    let accepted = |g: &Inner, j: usize| g.log.iter().any(|e| matches!(e, Ev::Ret { job, ret: Ret::Accepted, .. } if *job == j));
    if !unrecoverable {
        let done = sess.wait_until(opts.hang_ms, |g| (0..nj).all(|j| !accepted(g, j) || g.ended[j]));
        if !done {
            let g = sess.lock();
            for j in 0..nj {
                if accepted(&g, j) && g.started[j] == 0 {
                    out.problems.push(Problem {
                        ty: "contract",
                        sig: json!({"site": "pool", "kind": "accepted-job-never-ran"}),
                        desc: format!("job {} was accepted by dispatch but did not run within {} ms although all gates are open", plan.jobs[j], opts.hang_ms),
                    });
                }
            }
        }
    }
    // driver leg: results and panics come back through Proactor::pop
    if let Mode::Drv(_) = plan.mode {
        if !unrecoverable {
            for tx in &txs {
                let _ = tx.send(Cmd::Finish(opts.hang_ms));
            }
            let fin = sess.wait_until(opts.hang_ms + 5000, |g| {
                g.log.iter().filter(|e| matches!(e, Ev::Result { job, .. } if *job == usize::MAX)).count() >= nd
            });
            let g = sess.lock();
            for j in 0..nj {
                if !accepted(&g, j) {
                    continue;
                }
                let res: Vec<&Outcome> =
                    g.log.iter().filter_map(|e| if let Ev::Result { job, out, .. } = e { (*job == j).then_some(out) } else { None }).collect();
                let want = if plan.panic[j] { Outcome::Panic(format!("verif-panic-{j}")) } else { Outcome::Value(disp::value_of(j)) };
                if res.len() == 1 && *res[0] == want {
                    continue;
                }
                let kind = if res.is_empty() {
                    "result-never-delivered"
                } else if res.len() > 1 {
                    "result-delivered-twice"
                } else if plan.panic[j] {
                    "panic-not-returned-to-submitter"
                } else {
                    "wrong-result"
                };
                out.problems.push(Problem {
                    ty: if res.is_empty() { "hang" } else { "contract" },
                    sig: json!({"site": "pool-driver", "kind": kind}),
                    desc: format!("job {}: Proactor::pop delivered {:?}, expected {:?} (finish completed: {})", plan.jobs[j], res, want, fin),
                });
            }
        }
    }
    if timing {
        eprintln!("jobs done: {:?}", t_start.elapsed());
    }
    // all workers retire, then a probe dispatch must find an empty, usable pool
    if !unrecoverable {
        let retired = sess.wait_until(opts.settle_ms + 3 * t_ms, ctl::all_workers_retired);
        if !retired {
            let g = sess.lock();
            let names = role_names(&g);
            let alive: Vec<&String> = g.roles.iter().filter(|r| r.kind == Kind::W && !r.exited).map(|r| &r.name).collect();
            out.problems.push(Problem {
                ty: "hang",
                sig: json!({"site": "pool", "kind": "worker-never-retires"}),
                desc: format!("workers {:?} still alive {} ms after the last job (recv_timeout {} ms); last events {:?}", alive,
                    opts.settle_ms + 3 * t_ms, t_ms, g.log.iter().rev().take(8).rev().map(|e| ctl::render(e, &names)).collect::<Vec<_>>()),
            });
        } else {
            let mark = sess.lock().log.len();
            let _ = txs[0].send(Cmd::Dispatch(probe));
            let back = sess.wait_until(opts.hang_ms, |g| g.log[mark..].iter().any(|e| matches!(e, Ev::Ret { job, .. } if *job == probe)));
            let g = sess.lock();
            let ret = g.log[mark..].iter().find_map(|e| if let Ev::Ret { job, ret, .. } = e { (*job == probe).then(|| ret.clone()) } else { None });
            let load_b = g.log[mark..].iter().find_map(|e| if let Ev::Hook { site: "pool.d.load", b, .. } = e { Some(*b) } else { None });
            drop(g);
            let mut back = back;
            if !back {
                // the probe dispatch itself hangs: classify it like any other dispatch (the blocking send can be
                // orphaned here as well when the machine stalls the dispatcher for a whole recv_timeout), then rescue
                let (hc, names, tail) = {
                    let g = sess.lock();
                    let names = role_names(&g);
                    let tail: Vec<String> = g.log.iter().rev().take(14).rev().map(|e| ctl::render(e, &names)).collect();
                    (oracle::hang_class(&g, 0), names, tail)
                };
                out.problems.push(Problem {
                    ty: "hang",
                    sig: json!({"site": "pool", "kind": "dispatch-hang", "where": hc.place, "interleaving": hc.interleaving}),
                    desc: format!(
                        "{} did not return from the probe dispatch after all workers retired within {} ms: thread is in {}, {} worker threads alive; last events: {:?}",
                        names[0], opts.hang_ms, hc.place, hc.live_workers, tail
                    ),
                });
                back = oracle::rescue(&sess, &pool, |g| g.log[mark..].iter().any(|e| matches!(e, Ev::Ret { job, .. } if *job == probe)), opts.hang_ms + 5000);
                if !back {
                    unrecoverable = true;
                }
            } else if ret != Some(Ret::Accepted) {
                out.problems.push(Problem {
                    ty: "contract",
                    sig: json!({"site": "pool", "kind": "no-respawn-after-all-workers-retired"}),
                    desc: format!("after every worker thread had ended a new dispatch was not accepted: returned {:?}, counter read at the limit test {:?}", ret, load_b),
                });
            }
            if back && ret == Some(Ret::Accepted) {
                if matches!(load_b, Some(x) if x != 0) {
                    out.problems.push(Problem {
                        ty: "contract",
                        sig: json!({"site": "pool", "kind": "counter-not-zero-after-all-workers-retired"}),
                        desc: format!("after every worker thread had ended the counter read at the limit test is {:?}, not 0", load_b),
                    });
                }
                let ran = sess.wait_until(opts.hang_ms, |g| g.ended[probe]);
                if !ran {
                    out.problems.push(Problem {
                        ty: "contract",
                        sig: json!({"site": "pool", "kind": "accepted-job-never-ran"}),
                        desc: "the probe job dispatched after all workers retired was accepted but never ran".into(),
                    });
                }
                if let Mode::Drv(_) = plan.mode {
                    let _ = txs[0].send(Cmd::Finish(opts.hang_ms));
                }
                sess.wait_until(opts.settle_ms + 3 * t_ms, ctl::all_workers_retired);
            }
        }
    }
    if timing {
        eprintln!("probe done: {:?}", t_start.elapsed());
    }
    for tx in &txs {
        let _ = tx.send(Cmd::Quit);
    }
    if unrecoverable {
        ABORT.store(true, Ordering::SeqCst);
    } else {
        for h in handles.iter_mut() {
            if let Some(h) = h.take() {
                let t0 = Instant::now();
                while !h.is_finished() && t0.elapsed() < Duration::from_secs(20) {
                    std::thread::sleep(Duration::from_millis(2));
                }
                if h.is_finished() {
                    let _ = h.join();
                }
            }
        }
    }

    if timing {
        eprintln!("joined: {:?}", t_start.elapsed());
    }
    // ---------------------------------------------------------------- contract oracle on the observation
    {
        let g = sess.lock();
        let names = role_names(&g);
        for j in 0..nj {
            let acc = accepted(&g, j);
            if g.started[j] > 1 {
                out.problems.push(Problem {
                    ty: "contract",
                    sig: json!({"site": "pool", "kind": "job-ran-more-than-once"}),
                    desc: format!("job {} was started {} times", plan.jobs[j], g.started[j]),
                });
            }
            if !acc && g.started[j] > 0 && !g.roles.iter().any(|r| r.in_call == Some(j)) {
                out.problems.push(Problem {
                    ty: "contract",
                    sig: json!({"site": "pool", "kind": "rejected-job-ran"}),
                    desc: format!("job {} ran although no dispatch of it was accepted", plan.jobs[j]),
                });
            }
            if g.dropped_unrun[j] > 0 {
                out.problems.push(Problem {
                    ty: "contract",
                    sig: json!({"site": "pool", "kind": "job-dropped-without-running"}),
                    desc: format!("job {} was dropped by the pool without having run (accepted: {})", plan.jobs[j], acc),
                });
            }
        }
        for e in &g.log {
            match e {
                Ev::Ret { d, job, ret: Ret::Rejected { intact: false } } => out.problems.push(Problem {
                    ty: "contract",
                    sig: json!({"site": "pool", "kind": "rejected-dispatch-did-not-return-the-same-job"}),
                    desc: format!("{} got DispatchError for job {} but the object handed back is not the submitted one", names[*d], job),
                }),
                Ev::Ret { d, job, ret: Ret::Panicked(m) } => out.problems.push(Problem {
                    ty: "panic",
                    sig: json!({"site": "pool", "kind": "dispatch-panicked"}),
                    desc: format!("{} dispatch of job {} panicked: {}", names[*d], job, m),
                }),
                _ => {}
            }
        }
        if g.max_gauge > plan.limit {
            let upto = g.over_at.unwrap_or(g.log.len());
            let cause = oracle::over_cause(&g, upto, plan.limit, out.drift.is_none());
            let from = upto.saturating_sub(40);
            out.problems.push(Problem {
                ty: "contract",
                sig: json!({"site": "pool", "kind": "limit-exceeded", "cause": cause}),
                desc: format!(
                    "{} jobs ran at once with thread_limit {} ({}); the model predicted the overrun: {}; events before: {:?}",
                    g.max_gauge,
                    plan.limit,
                    cause,
                    predicted_over,
                    g.log[from..(upto + 1).min(g.log.len())].iter().map(|e| ctl::render(e, &names)).collect::<Vec<_>>()
                ),
            });
        } else if predicted_over && out.drift.is_none() {
            out.drift = Some((out.steps_done, "model predicted more running jobs than the limit, the real gauge stayed within".into()));
        }
        out.events = g.log.len();
        out.trace = g.log.iter().map(|e| ctl::render(e, &names)).collect();
    }
    sess.close();
    // pools stay alive until the process ends: a pool identity (counter address) is never reused
    std::mem::forget(pool);
    out
}

fn main() {
    hcore::out::silence_panics();
    let args: Vec<String> = std::env::args().collect();
    let path = args.get(1).expect("usage: pool_replay <schedules.jsonl> [--par N] [--t-ms T] [--hang-ms H]");
    let opt = |name: &str, dflt: u64| -> u64 {
        args.iter().position(|a| a == name).and_then(|i| args.get(i + 1)).and_then(|v| v.parse().ok()).unwrap_or(dflt)
    };
    let opts = Arc::new(Opts {
        par: opt("--par", 16) as usize,
        t_ms: opt("--t-ms", 250),
        hang_ms: opt("--hang-ms", 10000),
        attempts: opt("--attempts", 3) as u32,
        settle_ms: opt("--settle-ms", 8000),
    });
    ctl::install();
    let text = std::fs::read_to_string(path).expect("read schedules");
    let cases: Arc<Vec<Value>> = Arc::new(text.lines().filter(|l| !l.trim().is_empty()).map(|l| serde_json::from_str(l).expect("json")).collect());
    let next = Arc::new(AtomicUsize::new(0));
    let rep = Arc::new(Mutex::new(Report::new()));
    let stats = Arc::new(Mutex::new((0u64, 0u64, 0u64, 0u64))); // retried, drifted, events, full
    let mut ths = vec![];
    for _ in 0..opts.par.max(1) {
        let (cases, next, rep, stats, opts) = (cases.clone(), next.clone(), rep.clone(), stats.clone(), opts.clone());
        ths.push(std::thread::spawn(move || {
            loop {
                let i = next.fetch_add(1, Ordering::SeqCst);
                if i >= cases.len() || ABORT.load(Ordering::SeqCst) {
                    break;
                }
                let case = &cases[i];
                let plan = parse_plan(case);
                let mut t_ms = opts.t_ms;
                let mut last = None;
                let mut tries = 0;
                for a in 0..opts.attempts {
                    tries = a + 1;
                    let o = run_attempt(&plan, &opts, t_ms);
                    let drifted = o.drift.is_some();
                    last = Some(o);
                    if !drifted || ABORT.load(Ordering::SeqCst) {
                        break;
                    }
                    t_ms *= 2;
                }
                let o = last.unwrap();
                let mut r = rep.lock().unwrap_or_else(|e| e.into_inner());
                r.cases += 1;
                r.steps += o.steps_done as u64;
                let mut s = stats.lock().unwrap_or_else(|e| e.into_inner());
                if tries > 1 {
                    s.0 += 1;
                }
                s.2 += o.events as u64;
                if o.drift.is_none() {
                    s.3 += 1;
                }
                let brief = json!({"id": case["id"], "cfgname": case["cfgname"], "driver": case["driver"], "cfg": case["cfg"],
                                   "schedule": plan.steps.iter().map(|s| format!("{}:{:?}", s.act, s.role)).collect::<Vec<_>>(),
                                   "trace": o.trace, "steps": case["steps"]});
                if let Some((si, d)) = &o.drift {
                    s.1 += 1;
                    let act = plan.steps.get(*si).map(|s| s.act.clone()).unwrap_or_else(|| "end".into());
                    r.problem("mismatch", json!({"site": "pool", "what": "schedule-drift", "act": act}),
                        format!("schedule {} ({} {}), step {}: {} [after {} attempts, last recv_timeout {} ms]",
                            case["id"], case["cfgname"], case["driver"], si, d, tries, t_ms), &brief, *si);
                }
                for p in o.problems {
                    r.problem(p.ty, p.sig, p.desc, &brief, o.steps_done);
                }
            }
        }));
    }
    let mut runner_panics = 0;
    for t in ths {
        if let Err(e) = t.join() {
            runner_panics += 1;
            eprintln!("harness runner thread panicked: {}", hcore::out::panic_msg(e));
        }
    }
    let mut r = std::mem::take(&mut *rep.lock().unwrap_or_else(|e| e.into_inner()));
    let s = stats.lock().unwrap_or_else(|e| e.into_inner());
    r.set("retried", json!(s.0));
    r.set("drifted", json!(s.1));
    r.set("events", json!(s.2));
    r.set("fully_steered", json!(s.3));
    r.set("runner_panics", json!(runner_panics));
    r.set("aborted", json!(ABORT.load(Ordering::SeqCst)));
    r.finish();
    // stuck threads of a broken pool must not keep the process alive
    std::process::exit(0);
}
