//! C17: free-running seeded stress of the real AsyncifyPool with tiny recv_timeout values.
//!
//! usage: pool_stress --seed S [--scale K] [--hang-ms H]
//!
//! Several configurations (limit 1-2, 1-2 dispatching threads sharing the pool, recv_timeout 1-5 ms,
//! raw dispatch API or Proactor::push(Asyncify) on the io_uring / polling driver) run concurrently, each
//! on its own pool. Hooks only record and perturb the timing with seeded sleeps/yields (any delay at a
//! hook is a legal schedule). Same contract oracle as the steered replay: every job runs exactly once,
//! nothing is dropped, a rejected dispatch hands the same job back, the running gauge stays within the
//! limit, no dispatch hangs (watchdog on progress), results/panics come back through Proactor::pop, and
//! after all workers retired a probe dispatch finds the counter at 0 and runs.
use std::{
    panic::{AssertUnwindSafe, catch_unwind},
    sync::{Arc, Mutex, atomic::Ordering},
    time::{Duration, Instant},
};

use compio_buf::BufResult;
use compio_driver::{AsyncifyPool, DriverType, Key, Proactor, PushEntry, op::Asyncify};
use hcore::out::{Report, panic_msg};
use hpool::{
    ctl::{self, Ev, Inner, Kind, Outcome, Ret, Sess, Session},
    disp::{BlkFn, BlkOp, value_of},
    job::Job,
    oracle,
};
use serde_json::{Value, json};

#[derive(Clone, Debug)]
struct Cfg {
    name: String,
    limit: usize,
    threads: usize,
    timeout_ms: u64,
    mode: &'static str, // raw | iour | poll
    jobs_per_thread: usize,
    seed: u64,
}

struct Problem {
    ty: &'static str,
    sig: Value,
    desc: String,
}

fn rng(s: &mut u64) -> u64 {
    *s ^= *s >> 12;
    *s ^= *s << 25;
    *s ^= *s >> 27;
    s.wrapping_mul(0x2545F4914F6CDD1D)
}

fn progress(g: &Inner) -> usize {
    g.log.iter().filter(|e| matches!(e, Ev::Ret { ret: Ret::Accepted, .. } | Ev::JobEnd { .. } | Ev::Result { .. })).count()
}

fn dispatcher(sess: Sess, pool: AsyncifyPool, cfg: Cfg, t: usize, serials: Arc<Vec<u64>>, panics: Arc<Vec<bool>>, durs: Arc<Vec<u64>>) {
    let d = ctl::bind_dispatcher(&sess);
    let lo = t * cfg.jobs_per_thread;
    let hi = lo + cfg.jobs_per_thread;
    match cfg.mode {
        "raw" => {
            for j in lo..hi {
                let mut job = Job::new(&sess, j, serials[j], panics[j], Some(durs[j]));
                loop {
                    sess.call(d, j);
                    match catch_unwind(AssertUnwindSafe(|| pool.dispatch(job))) {
                        Ok(Ok(())) => {
                            sess.ret(d, j, Ret::Accepted);
                            break;
                        }
                        Ok(Err(e)) => {
                            job = e.into_inner();
                            let intact = job.intact(j, serials[j]);
                            sess.ret(d, j, Ret::Rejected { intact });
                            std::thread::yield_now();
                        }
                        Err(p) => {
                            sess.ret(d, j, Ret::Panicked(panic_msg(p)));
                            return;
                        }
                    }
                }
            }
        }
        m => {
            let dt = if m == "iour" { DriverType::IoUring } else { DriverType::Poll };
            let mut p = Proactor::builder().driver_type(dt).capacity(8).reuse_thread_pool(pool.clone()).build().expect("build proactor");
            let mut keys: Vec<(usize, Key<BlkOp>)> = vec![];
            let pop = |p: &mut Proactor, keys: &mut Vec<(usize, Key<BlkOp>)>, wait: u64| {
                let _ = p.poll(Some(Duration::from_millis(wait)));
                let mut rest = vec![];
                for (j, k) in keys.drain(..) {
                    match catch_unwind(AssertUnwindSafe(|| p.pop(k))) {
                        Ok(PushEntry::Pending(k)) => rest.push((j, k)),
                        Ok(PushEntry::Ready(BufResult(res, op))) => {
                            use compio_buf::IntoInner;
                            let out = match res {
                                Ok(v) => match catch_unwind(AssertUnwindSafe(|| op.into_inner())) {
                                    Ok(x) if x == j => Outcome::Value(v),
                                    Ok(x) => Outcome::Error(format!("data of job {x} returned")),
                                    Err(_) => Outcome::Error("no data in the finished op".into()),
                                },
                                Err(e) => Outcome::Error(e.to_string()),
                            };
                            sess.push(Ev::Result { d, job: j, out });
                        }
                        Err(e) => sess.push(Ev::Result { d, job: j, out: Outcome::Panic(panic_msg(e)) }),
                    }
                }
                *keys = rest;
            };
            for j in lo..hi {
                let mut job = Job::new(&sess, j, serials[j], panics[j], Some(durs[j]));
                let f: BlkFn = Box::new(move || {
                    job.execute();
                    BufResult(Ok(value_of(job.idx)), job.idx)
                });
                sess.call(d, j);
                match catch_unwind(AssertUnwindSafe(|| p.push(Asyncify::new(f)))) {
                    Ok(PushEntry::Pending(k)) => {
                        keys.push((j, k));
                        sess.ret(d, j, Ret::Accepted);
                    }
                    Ok(PushEntry::Ready(_)) => sess.ret(d, j, Ret::Panicked("asyncify op was ready at push".into())),
                    Err(e) => {
                        sess.ret(d, j, Ret::Panicked(panic_msg(e)));
                        return;
                    }
                }
                if j % 3 == 0 {
                    pop(&mut p, &mut keys, 0);
                }
            }
            let t0 = Instant::now();
            while !keys.is_empty() && t0.elapsed() < Duration::from_secs(40) {
                pop(&mut p, &mut keys, 5);
            }
            if !keys.is_empty() {
                std::mem::forget(keys);
                std::mem::forget(p);
            }
        }
    }
}

fn run_cfg(cfg: &Cfg, hang_ms: u64) -> (Vec<Problem>, Value) {
    let total = cfg.threads * cfg.jobs_per_thread;
    let probe = total;
    let sess = Session::new(cfg.limit, total + 1, false);
    sess.perturb.store(cfg.seed | 1, Ordering::Relaxed);
    let t = Duration::from_millis(cfg.timeout_ms);
    let pool = if cfg.mode == "raw" {
        AsyncifyPool::new(cfg.limit, t)
    } else {
        let mut b = Proactor::builder();
        b.thread_pool_limit(cfg.limit).thread_pool_recv_timeout(t);
        b.create_or_get_thread_pool()
    };
    let mut s = cfg.seed.wrapping_mul(0x9E3779B97F4A7C15) | 1;
    let serials: Arc<Vec<u64>> = Arc::new((0..=total).map(|_| rng(&mut s)).collect());
    let panics: Arc<Vec<bool>> = Arc::new((0..=total).map(|j| j < total && rng(&mut s) % 10 == 0).collect());
    // durations: mostly short, some around the recv_timeout so that workers retire between jobs
    let durs: Arc<Vec<u64>> = Arc::new(
        (0..=total)
            .map(|_| match rng(&mut s) % 8 {
                0 => 0,
                1 | 2 => rng(&mut s) % 200,
                3 | 4 | 5 => rng(&mut s) % 1500,
                _ => rng(&mut s) % (cfg.timeout_ms * 2500 + 1),
            })
            .collect(),
    );
    let mut problems = vec![];
    let mut handles = vec![];
    for th in 0..cfg.threads {
        let (s2, p2, c2, se, pa, du) = (sess.clone(), pool.clone(), cfg.clone(), serials.clone(), panics.clone(), durs.clone());
        handles.push(std::thread::spawn(move || dispatcher(s2, p2, c2, th, se, pa, du)));
        sess.wait_until(20000, |g| g.roles.iter().filter(|r| r.kind == Kind::D).count() > th);
    }
    // watchdog on progress
    let mut hangs = 0;
    let mut abandoned = false;
    let mut last = (0usize, Instant::now());
    loop {
        if handles.iter().all(|h| h.is_finished()) {
            break;
        }
        let pr = progress(&sess.lock());
        if pr != last.0 {
            last = (pr, Instant::now());
        } else if last.1.elapsed() > Duration::from_millis(hang_ms) {
            hangs += 1;
            let stuck: Vec<usize> = {
                let g = sess.lock();
                (0..g.roles.len()).filter(|&i| g.roles[i].kind == Kind::D && g.roles[i].in_call.is_some()).collect()
            };
            for d in &stuck {
                let g = sess.lock();
                let names: Vec<String> = g.roles.iter().map(|r| r.name.clone()).collect();
                let hc = oracle::hang_class(&g, *d);
                let tail: Vec<String> = g.log.iter().rev().take(16).rev().map(|e| ctl::render(e, &names)).collect();
                problems.push(Problem {
                    ty: "hang",
                    sig: json!({"site": "pool", "kind": "dispatch-hang", "where": hc.place, "interleaving": hc.interleaving}),
                    desc: format!(
                        "stress {}: {} made no progress for {} ms in dispatch of job {:?}: thread is in {}, {} worker threads alive; last events: {:?}",
                        cfg.name, names[*d], hang_ms, g.roles[*d].in_call, hc.place, hc.live_workers, tail
                    ),
                });
            }
            // rescue (a no-op dispatch spawns a worker that drains the blocked senders) and calm the send window
            sess.calm_send.store(true, Ordering::Relaxed);
            let before = pr;
            if !oracle::rescue(&sess, &pool, |g| progress(g) > before, hang_ms + 5000) {
                abandoned = true;
            }
            if abandoned || hangs >= 3 {
                abandoned = true;
                break;
            }
            last = (progress(&sess.lock()), Instant::now());
        }
        std::thread::sleep(Duration::from_millis(5));
    }
    if !abandoned {
        for h in handles {
            let _ = h.join();
        }
        // everything accepted must have run
        sess.wait_until(hang_ms, |g| (0..total).all(|j| g.ended[j]));
        let retired = sess.wait_until(8000 + 3 * cfg.timeout_ms, ctl::all_workers_retired);
        if !retired {
            problems.push(Problem {
                ty: "hang",
                sig: json!({"site": "pool", "kind": "worker-never-retires"}),
                desc: format!("stress {}: worker threads still alive 8 s after the last job (recv_timeout {} ms)", cfg.name, cfg.timeout_ms),
            });
        } else {
            // probe: no perturbation, so that the counter value carried by the load hook is the value the test reads
            sess.perturb.store(0, Ordering::Relaxed);
            let mark = sess.lock().log.len();
            let (s2, p2, ser) = (sess.clone(), pool.clone(), serials[probe]);
            let h = std::thread::spawn(move || {
                let d = ctl::bind_dispatcher(&s2);
                let job = Job::new(&s2, probe, ser, false, Some(0));
                s2.call(d, probe);
                match p2.dispatch(job) {
                    Ok(()) => s2.ret(d, probe, Ret::Accepted),
                    Err(e) => {
                        let job = e.into_inner();
                        s2.ret(d, probe, Ret::Rejected { intact: job.intact(probe, ser) });
                        drop(job);
                    }
                }
            });
            let back = sess.wait_until(hang_ms, |g| g.log[mark..].iter().any(|e| matches!(e, Ev::Ret { job, .. } if *job == probe)));
            let (ret, load_b) = {
                let g = sess.lock();
                (
                    g.log[mark..].iter().find_map(|e| if let Ev::Ret { job, ret, .. } = e { (*job == probe).then(|| ret.clone()) } else { None }),
                    g.log[mark..].iter().find_map(|e| if let Ev::Hook { site: "pool.d.load", b, .. } = e { Some(*b) } else { None }),
                )
            };
            let mut back = back;
            if !back {
                // the probe dispatch itself hangs (with a recv_timeout of a few ms the worker it spawns can retire
                // before the blocking send): classify it like any other dispatch, then rescue
                let d = {
                    let g = sess.lock();
                    g.log[mark..].iter().find_map(|e| if let Ev::Call { d, job } = e { (*job == probe).then_some(*d) } else { None })
                };
                if let Some(d) = d {
                    let g = sess.lock();
                    let names: Vec<String> = g.roles.iter().map(|r| r.name.clone()).collect();
                    let hc = oracle::hang_class(&g, d);
                    let tail: Vec<String> = g.log.iter().rev().take(14).rev().map(|e| ctl::render(e, &names)).collect();
                    problems.push(Problem {
                        ty: "hang",
                        sig: json!({"site": "pool", "kind": "dispatch-hang", "where": hc.place, "interleaving": hc.interleaving}),
                        desc: format!(
                            "stress {}: the probe dispatch after all workers retired made no progress for {} ms: thread is in {}, {} worker threads alive; last events: {:?}",
                            cfg.name, hang_ms, hc.place, hc.live_workers, tail
                        ),
                    });
                }
                back = oracle::rescue(&sess, &pool, |g| g.log[mark..].iter().any(|e| matches!(e, Ev::Ret { job, .. } if *job == probe)), hang_ms + 5000);
                if !back {
                    abandoned = true;
                }
            } else if ret != Some(Ret::Accepted) {
                problems.push(Problem {
                    ty: "contract",
                    sig: json!({"site": "pool", "kind": "no-respawn-after-all-workers-retired"}),
                    desc: format!("stress {}: after every worker thread had ended a new dispatch was not accepted: returned {:?}, counter read at the limit test {:?}", cfg.name, ret, load_b),
                });
            }
            if back && ret == Some(Ret::Accepted) {
                if matches!(load_b, Some(x) if x != 0) {
                    problems.push(Problem {
                        ty: "contract",
                        sig: json!({"site": "pool", "kind": "counter-not-zero-after-all-workers-retired"}),
                        desc: format!("stress {}: after every worker thread had ended the counter read at the limit test is {:?}, not 0", cfg.name, load_b),
                    });
                }
                sess.wait_until(hang_ms, |g| g.ended[probe]);
                sess.wait_until(8000, ctl::all_workers_retired);
            }
            if !abandoned {
                let _ = h.join();
            }
        }
    }
    // oracle
    let g = sess.lock();
    let names: Vec<String> = g.roles.iter().map(|r| r.name.clone()).collect();
    let mut twice = 0;
    let mut never = 0;
    let mut dropped = 0;
    for j in 0..total {
        let acc = g.log.iter().any(|e| matches!(e, Ev::Ret { job, ret: Ret::Accepted, .. } if *job == j));
        if g.started[j] > 1 {
            twice += 1;
        }
        if acc && g.started[j] == 0 && !abandoned {
            never += 1;
        }
        if g.dropped_unrun[j] > 0 {
            dropped += 1;
        }
    }
    if twice > 0 {
        problems.push(Problem { ty: "contract", sig: json!({"site": "pool", "kind": "job-ran-more-than-once"}), desc: format!("stress {}: {} jobs were started more than once", cfg.name, twice) });
    }
    if never > 0 {
        problems.push(Problem { ty: "contract", sig: json!({"site": "pool", "kind": "accepted-job-never-ran"}), desc: format!("stress {}: {} accepted jobs never ran", cfg.name, never) });
    }
    if dropped > 0 {
        problems.push(Problem { ty: "contract", sig: json!({"site": "pool", "kind": "job-dropped-without-running"}), desc: format!("stress {}: {} jobs were dropped by the pool without having run", cfg.name, dropped) });
    }
    let mut results = 0;
    for e in &g.log {
        match e {
            Ev::Ret { d, job, ret: Ret::Rejected { intact: false } } => problems.push(Problem {
                ty: "contract",
                sig: json!({"site": "pool", "kind": "rejected-dispatch-did-not-return-the-same-job"}),
                desc: format!("stress {}: {} got DispatchError for job {} but the object handed back is not the submitted one", cfg.name, names[*d], job),
            }),
            Ev::Ret { d, job, ret: Ret::Panicked(m) } => problems.push(Problem {
                ty: "panic",
                sig: json!({"site": "pool", "kind": "dispatch-panicked"}),
                desc: format!("stress {}: {} dispatch of job {} panicked: {}", cfg.name, names[*d], job, m),
            }),
            Ev::Result { job, out, .. } if *job < total => {
                results += 1;
                let want = if panics[*job] { Outcome::Panic(format!("verif-panic-{job}")) } else { Outcome::Value(value_of(*job)) };
                if *out != want {
                    problems.push(Problem {
                        ty: "contract",
                        sig: json!({"site": "pool-driver", "kind": if panics[*job] { "panic-not-returned-to-submitter" } else { "wrong-result" }}),
                        desc: format!("stress {}: job {}: Proactor::pop delivered {:?}, expected {:?}", cfg.name, job, out, want),
                    });
                }
            }
            _ => {}
        }
    }
    if cfg.mode != "raw" && !abandoned && results != total {
        problems.push(Problem {
            ty: "hang",
            sig: json!({"site": "pool-driver", "kind": "result-never-delivered"}),
            desc: format!("stress {}: {} of {} results came back through Proactor::pop", cfg.name, results, total),
        });
    }
    if g.max_gauge > cfg.limit {
        let upto = g.over_at.unwrap_or(g.log.len());
        let cause = oracle::over_cause(&g, upto, cfg.limit, false);
        let from = upto.saturating_sub(30);
        problems.push(Problem {
            ty: "contract",
            sig: json!({"site": "pool", "kind": "limit-exceeded", "cause": cause}),
            desc: format!(
                "stress {}: {} jobs ran at once with thread_limit {} ({}); events before: {:?}",
                cfg.name,
                g.max_gauge,
                cfg.limit,
                cause,
                g.log[from..(upto + 1).min(g.log.len())].iter().map(|e| ctl::render(e, &names)).collect::<Vec<_>>()
            ),
        });
    }
    let rejected = g.log.iter().filter(|e| matches!(e, Ev::Ret { ret: Ret::Rejected { .. }, .. })).count();
    let stats = json!({"cfg": cfg.name, "jobs": total, "workers_spawned": g.nworkers, "max_gauge": g.max_gauge, "limit": cfg.limit,
                       "rejected_dispatches": rejected, "events": g.log.len(), "hangs": hangs, "abandoned": abandoned});
    drop(g);
    sess.close();
    std::mem::forget(pool);
    (problems, stats)
}

fn main() {
    hcore::out::silence_panics();
    let args: Vec<String> = std::env::args().collect();
    let opt = |name: &str, dflt: u64| -> u64 {
        args.iter().position(|a| a == name).and_then(|i| args.get(i + 1)).and_then(|v| v.parse().ok()).unwrap_or(dflt)
    };
    let seed = opt("--seed", 1);
    let scale = opt("--scale", 1) as usize;
    let hang_ms = opt("--hang-ms", 10000);
    ctl::install();
    let mut s = seed.wrapping_mul(0xD1B54A32D192ED03) | 1;
    let mut cfgs = vec![];
    let modes = ["raw", "raw", "iour", "poll"];
    let mut n = 0;
    for round in 0..scale {
        for limit in 1..=2usize {
            for threads in 1..=2usize {
                for (mi, mode) in modes.iter().enumerate() {
                    // quick: each (limit, threads) with raw and one driver; thorough rounds cover the rest
                    if scale == 1 && mi >= 2 && (mi + limit + threads) % 2 == 0 {
                        continue;
                    }
                    n += 1;
                    let timeout_ms = 1 + rng(&mut s) % 5;
                    cfgs.push(Cfg {
                        name: format!("r{round}-l{limit}-t{threads}-{mode}{mi}-to{timeout_ms}ms"),
                        limit,
                        threads,
                        timeout_ms,
                        mode,
                        jobs_per_thread: 120,
                        seed: rng(&mut s) ^ n,
                    });
                }
            }
        }
    }
    let rep = Arc::new(Mutex::new(Report::new()));
    let all_stats = Arc::new(Mutex::new(Vec::<Value>::new()));
    // at most 12 configurations at a time
    for chunk in cfgs.chunks(12) {
        let mut ths = vec![];
        for cfg in chunk {
            let (cfg, rep, all_stats) = (cfg.clone(), rep.clone(), all_stats.clone());
            ths.push(std::thread::spawn(move || {
                let (problems, stats) = run_cfg(&cfg, hang_ms);
                let mut r = rep.lock().unwrap_or_else(|e| e.into_inner());
                r.cases += 1;
                r.steps += stats["jobs"].as_u64().unwrap_or(0);
                let case = json!({"stress": true, "seed": seed, "cfg": format!("{:?}", cfg), "stats": stats});
                for p in problems {
                    r.problem(p.ty, p.sig, p.desc, &case, 0);
                }
                all_stats.lock().unwrap_or_else(|e| e.into_inner()).push(stats);
            }));
        }
        for t in ths {
            if let Err(e) = t.join() {
                eprintln!("harness stress runner panicked: {}", panic_msg(e));
                rep.lock().unwrap_or_else(|e| e.into_inner()).set("runner_panics", json!(1));
            }
        }
    }
    let mut r = std::mem::take(&mut *rep.lock().unwrap_or_else(|e| e.into_inner()));
    r.set("stats", Value::Array(all_stats.lock().unwrap_or_else(|e| e.into_inner()).clone()));
    r.finish();
    std::process::exit(0);
}
