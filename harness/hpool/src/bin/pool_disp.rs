//! C17, dispatcher-level leg: the `Dispatcher` handle and its worker runtimes must share ONE blocking pool.
//!
//! usage: pool_disp <programs.jsonl> [--par N] [--hang-ms H] [--control-split]
//!
//! Two dispatching parties of the AsyncifyPool model (Disp = 2) are bound to compio-dispatcher:
//!   party 1 = `Dispatcher::dispatch_blocking` called by the harness thread (raw dispatch: rejected = handed back),
//!   party 2 = a task dispatched to a worker runtime that calls `compio_runtime::spawn_blocking`
//!             (Asyncify through push_blocking's retry loop: rejected = retried until accepted).
//! A program is a sequence over {Sh = submit next job via the handle, Sw = submit next job via a worker,
//! Ro / Rn = release the oldest / newest running job} enumerated by lib/checks/c17.py from the job-level
//! abstraction of the model (r = running, p = worker submissions waiting in the retry loop). Jobs are gates with
//! the global running gauge; ordering uses events only (job started / ended, hooks of the retrying thread).
//! Contract on the real observation: the gauge never exceeds thread_pool_limit; a handle submission while the
//! pool is saturated (limit gate-held jobs running) is handed back (Err, closure neither run nor dropped); after
//! release every accepted job ran exactly once and its result came back; nothing hangs (watchdog).
//! `--control-split` is the negative control: party 1 uses a second AsyncifyPool of its own (the defect the leg
//! exists for); the oracle must object.
use std::{
    num::NonZeroUsize,
    sync::{
        Arc, Mutex,
        atomic::{AtomicBool, AtomicUsize, Ordering},
    },
    time::{Duration, Instant},
};

use compio_dispatcher::Dispatcher;
use compio_driver::{AsyncifyPool, DriverType, ProactorBuilder};
use hcore::out::Report;
use hpool::{
    ctl::{self, Ev, Inner, Outcome, Session},
    job::Job,
};
use serde_json::{Value, json};

struct Problem {
    ty: &'static str,
    sig: Value,
    desc: String,
}

static ABORT: AtomicBool = AtomicBool::new(false);

fn running(g: &Inner, nj: usize) -> Vec<usize> {
    // running jobs in start order
    let mut v = vec![];
    for e in &g.log {
        if let Ev::JobStart { job, .. } = e {
            if *job < nj && !g.ended[*job] && !v.contains(job) {
                v.push(*job);
            }
        }
    }
    v
}

fn started_count(g: &Inner, nj: usize) -> usize {
    (0..nj).filter(|&j| g.started[j] > 0).count()
}

/// worker submissions that have shown themselves as waiting: task started (Call), job not started, and the
/// thread has been through at least one rejected limit test since
fn retrying(g: &Inner, job: usize) -> bool {
    let mut call: Option<(usize, usize)> = None;
    for (i, e) in g.log.iter().enumerate() {
        if let Ev::Call { d, job: j } = e {
            if *j == job {
                call = Some((i, *d));
            }
        }
    }
    let Some((i, d)) = call else { return false };
    let mut loads = 0;
    for e in &g.log[i..] {
        if let Ev::Hook { role, site, .. } = e {
            if *role == d && *site == "pool.d.load" {
                loads += 1;
            } else if *role == d && *site == "pool.d.try" && loads >= 1 {
                return true;
            }
        }
    }
    false
}

fn run_program(p: &Value, hang_ms: u64, split: bool) -> (Vec<Problem>, usize, Vec<String>) {
    let limit = p["limit"].as_u64().unwrap() as usize;
    let workers = p["workers"].as_u64().unwrap() as usize;
    let nj = p["njobs"].as_u64().unwrap() as usize;
    let dt = if p["driver"].as_str() == Some("poll") { DriverType::Poll } else { DriverType::IoUring };
    let events: Vec<String> = p["events"].as_array().unwrap().iter().map(|e| e.as_str().unwrap().to_string()).collect();
    let sess = Session::new(limit, nj, false);
    let me = ctl::bind_dispatcher(&sess);
    let mut pb = ProactorBuilder::new();
    pb.driver_type(dt).capacity(8).thread_pool_limit(limit).thread_pool_recv_timeout(Duration::from_millis(400));
    let mut problems: Vec<Problem> = vec![];
    let disp = match Dispatcher::builder().worker_threads(NonZeroUsize::new(workers).unwrap()).proactor_builder(pb).build() {
        Ok(d) => d,
        Err(e) => {
            problems.push(Problem { ty: "panic", sig: json!({"site": "dispatcher", "kind": "build-failed"}), desc: e.to_string() });
            return (problems, 0, vec![]);
        }
    };
    let split_pool = AsyncifyPool::new(limit, Duration::from_millis(400));
    let serial = |j: usize| 0x9E37_79B9_7F4A_7C15u64.wrapping_mul(j as u64 + 5);
    let value = |j: usize| 7000 + j;
    // receivers of accepted handle jobs / closures handed back
    let mut handle_rx: Vec<(usize, Box<dyn FnMut() -> Option<Option<usize>>>)> = vec![];
    let mut handed_back: Vec<Box<dyn FnOnce() -> usize + Send>> = vec![];
    let mut accepted = vec![false; nj];
    let mut rejected = vec![false; nj];
    let mut via_worker = vec![false; nj];
    let mut pending: Vec<usize> = vec![]; // worker submissions not yet started
    let mut next = 0usize;
    let mut steps = 0usize;
    let mut dead = false;
    let wait = |pred: &mut dyn FnMut(&Inner) -> bool| sess.wait_until(hang_ms, |g| pred(g));

    for ev in &events {
        if dead {
            break;
        }
        steps += 1;
        let held: Vec<usize> = running(&sess.lock(), nj);
        match ev.as_str() {
            "Sh" => {
                let j = next;
                next += 1;
                let saturated = held.len() >= limit;
                let t0 = Instant::now();
                let mut f: Box<dyn FnOnce() -> usize + Send> = {
                    let mut job = Job::new(&sess, j, serial(j), false, None);
                    Box::new(move || {
                        job.execute();
                        value(job.idx)
                    })
                };
                loop {
                    sess.push(Ev::Call { d: me, job: j });
                    let res: Result<Box<dyn FnMut() -> Option<Option<usize>>>, Box<dyn FnOnce() -> usize + Send>> = if split {
                        let (tx, rx) = std::sync::mpsc::channel();
                        match split_pool.dispatch(move || {
                            let _ = tx.send(f());
                        }) {
                            Ok(()) => Ok(Box::new(move || match rx.try_recv() {
                                Ok(v) => Some(Some(v)),
                                Err(std::sync::mpsc::TryRecvError::Empty) => Some(None),
                                Err(_) => None,
                            })),
                            Err(_) => {
                                // the control does not need the closure back
                                Err(Box::new(|| 0))
                            }
                        }
                    } else {
                        match disp.dispatch_blocking(f) {
                            Ok(mut rx) => Ok(Box::new(move || match rx.try_recv() {
                                Ok(Some(v)) => Some(Some(v)),
                                Ok(None) => Some(None),
                                Err(_) => None,
                            })),
                            Err(e) => Err(e.0),
                        }
                    };
                    match res {
                        Ok(rx) => {
                            accepted[j] = true;
                            handle_rx.push((j, rx));
                            if saturated {
                                problems.push(Problem {
                                    ty: "contract",
                                    sig: json!({"site": "dispatcher", "kind": "accepted-while-saturated", "party": "dispatch_blocking"}),
                                    desc: format!(
                                        "dispatch_blocking was accepted although {} gate-held jobs {:?} are running with thread_pool_limit {} \
                                         (the submission must be handed back): the handle does not share the workers' pool",
                                        held.len(), held, limit
                                    ),
                                });
                            }
                            if !wait(&mut |g| g.started[j] > 0) {
                                problems.push(Problem {
                                    ty: "hang",
                                    sig: json!({"site": "dispatcher", "kind": "accepted-job-never-ran", "party": "dispatch_blocking"}),
                                    desc: format!("job {j} accepted by dispatch_blocking did not start within {hang_ms} ms"),
                                });
                                dead = true;
                            }
                            break;
                        }
                        Err(back) => {
                            // handed back: it must neither have run nor been dropped
                            let g = sess.lock();
                            let bad = g.started[j] > 0 || g.dropped_unrun[j] > 0;
                            drop(g);
                            if bad && !split {
                                problems.push(Problem {
                                    ty: "contract",
                                    sig: json!({"site": "dispatcher", "kind": "rejected-dispatch-did-not-return-the-same-job"}),
                                    desc: format!("dispatch_blocking returned Err for job {j} but the closure had run or was dropped"),
                                });
                            }
                            if saturated || split {
                                rejected[j] = true;
                                handed_back.push(back);
                                break;
                            }
                            // not saturated: a worker that has just finished may not be back in recv yet - retried
                            if t0.elapsed() > Duration::from_millis(hang_ms) {
                                problems.push(Problem {
                                    ty: "hang",
                                    sig: json!({"site": "dispatcher", "kind": "rejected-although-not-saturated", "party": "dispatch_blocking"}),
                                    desc: format!("dispatch_blocking kept rejecting job {j} for {hang_ms} ms with {} of {} slots in use", held.len(), limit),
                                });
                                rejected[j] = true;
                                handed_back.push(back);
                                break;
                            }
                            f = back;
                            std::thread::yield_now();
                        }
                    }
                }
            }
            "Sw" => {
                let j = next;
                next += 1;
                via_worker[j] = true;
                accepted[j] = true; // the retry loop never gives up
                let saturated = held.len() >= limit;
                let s2 = sess.clone();
                let ser = serial(j);
                let r = disp.dispatch(move || async move {
                    let d = ctl::my_role().unwrap_or_else(|| ctl::bind_dispatcher(&s2));
                    s2.push(Ev::Call { d, job: j });
                    let s3 = s2.clone();
                    let h = compio_runtime::spawn_blocking(move || {
                        let mut job = Job::new(&s3, j, ser, false, None);
                        job.execute();
                        7000 + j
                    });
                    let out = match h.await {
                        Ok(v) => Outcome::Value(v),
                        Err(_) => Outcome::Error("join error".into()),
                    };
                    s2.push(Ev::Result { d, job: j, out });
                });
                if r.is_err() {
                    problems.push(Problem { ty: "contract", sig: json!({"site": "dispatcher", "kind": "dispatch-failed"}), desc: format!("Dispatcher::dispatch failed for the task of job {j}") });
                    dead = true;
                    continue;
                }
                pending.push(j);
                if !saturated {
                    if !wait(&mut |g| g.started[j] > 0) {
                        problems.push(Problem {
                            ty: "hang",
                            sig: json!({"site": "dispatcher", "kind": "accepted-job-never-ran", "party": "spawn_blocking"}),
                            desc: format!("spawn_blocking job {j} did not start within {hang_ms} ms with {} of {} slots in use", held.len(), limit),
                        });
                        dead = true;
                    }
                } else {
                    // saturated: the submission must show up as waiting (retry loop), or sit behind a runtime that
                    // is itself waiting in its retry loop (the task may have been handed to that runtime's parked
                    // receive of the dispatcher queue); starting now breaks the bound
                    let pend = pending.clone();
                    let shown = wait(&mut |g| {
                        g.started[j] > 0 || retrying(g, j) || pend.iter().any(|&k| k != j && g.started[k] == 0 && retrying(g, k))
                    });
                    if !shown {
                        problems.push(Problem {
                            ty: "hang",
                            sig: json!({"site": "dispatcher", "kind": "submission-not-observed", "party": "spawn_blocking"}),
                            desc: format!("spawn_blocking job {j}: neither started nor seen retrying within {hang_ms} ms"),
                        });
                        dead = true;
                    }
                }
            }
            "Ro" | "Rn" => {
                if held.is_empty() {
                    continue;
                }
                let j = if ev == "Ro" { held[0] } else { *held.last().unwrap() };
                let before = started_count(&sess.lock(), nj);
                sess.open_gate(j);
                if !wait(&mut |g| g.ended[j]) {
                    problems.push(Problem { ty: "hang", sig: json!({"site": "dispatcher", "kind": "job-never-ended"}), desc: format!("job {j} did not end within {hang_ms} ms after its gate was opened") });
                    dead = true;
                    continue;
                }
                // a waiting worker submission takes the freed slot
                let waiting: Vec<usize> = { let g = sess.lock(); pending.iter().copied().filter(|&k| g.started[k] == 0).collect() };
                if !waiting.is_empty() && !wait(&mut |g| started_count(g, nj) > before) {
                    problems.push(Problem {
                        ty: "hang",
                        sig: json!({"site": "dispatcher", "kind": "retry-loop-never-succeeds", "party": "spawn_blocking"}),
                        desc: format!("worker submissions {waiting:?} wait in the retry loop but none started within {hang_ms} ms after job {j} freed a slot"),
                    });
                    dead = true;
                }
            }
            other => panic!("unknown event {other}"),
        }
        let g = sess.lock();
        pending.retain(|&k| g.started[k] == 0);
    }
    // ------------------------------------------------------------ release everything, collect
    sess.open_all_gates();
    let all_done = sess.wait_until(hang_ms, |g| (0..nj).all(|j| !accepted[j] || g.ended[j]));
    if !all_done && !dead {
        let g = sess.lock();
        let missing: Vec<usize> = (0..nj).filter(|&j| accepted[j] && !g.ended[j]).collect();
        problems.push(Problem {
            ty: "hang",
            sig: json!({"site": "dispatcher", "kind": "accepted-job-never-ran"}),
            desc: format!("jobs {missing:?} were accepted but did not finish within {hang_ms} ms after all gates were opened"),
        });
    }
    // results
    let t0 = Instant::now();
    let mut got: Vec<Option<usize>> = vec![None; nj];
    if all_done {
        while t0.elapsed() < Duration::from_millis(hang_ms) {
            for (j, rx) in handle_rx.iter_mut() {
                if got[*j].is_none() {
                    if let Some(Some(v)) = rx() {
                        got[*j] = Some(v);
                    }
                }
            }
            {
                let g = sess.lock();
                for e in &g.log {
                    if let Ev::Result { job, out: Outcome::Value(v), .. } = e {
                        if *job < nj {
                            got[*job] = Some(*v);
                        }
                    }
                }
            }
            if (0..nj).all(|j| !accepted[j] || got[j].is_some()) {
                break;
            }
            sess.wait_until(2, |_| false);
        }
        for j in 0..nj {
            if accepted[j] && got[j] != Some(value(j)) {
                problems.push(Problem {
                    ty: "contract",
                    sig: json!({"site": "dispatcher", "kind": "result-not-returned", "party": if via_worker[j] { "spawn_blocking" } else { "dispatch_blocking" }}),
                    desc: format!("job {j}: result {:?}, expected {}", got[j], value(j)),
                });
            }
        }
    }
    // join the dispatcher (never block the harness on it)
    let (tx, rx) = std::sync::mpsc::channel();
    if all_done && !dead {
        std::thread::spawn(move || {
            let r = futures_executor::block_on(disp.join());
            let _ = tx.send(r.is_ok());
        });
        match rx.recv_timeout(Duration::from_millis(hang_ms + 5000)) {
            Ok(_) => {}
            Err(_) => {
                problems.push(Problem { ty: "hang", sig: json!({"site": "dispatcher", "kind": "join-hangs"}), desc: "Dispatcher::join did not return".into() });
                ABORT.store(true, Ordering::SeqCst);
            }
        }
    } else {
        std::mem::forget(disp);
        ABORT.store(true, Ordering::SeqCst);
    }
    // ------------------------------------------------------------ oracle
    let g = sess.lock();
    let names: Vec<String> = g.roles.iter().map(|r| r.name.clone()).collect();
    for j in 0..nj {
        if g.started[j] > 1 {
            problems.push(Problem { ty: "contract", sig: json!({"site": "dispatcher", "kind": "job-ran-more-than-once"}), desc: format!("job {j} started {} times", g.started[j]) });
        }
        if rejected[j] && g.started[j] > 0 {
            problems.push(Problem { ty: "contract", sig: json!({"site": "dispatcher", "kind": "rejected-job-ran"}), desc: format!("job {j} was handed back by dispatch_blocking and ran nevertheless") });
        }
        if g.dropped_unrun[j] > 0 {
            problems.push(Problem { ty: "contract", sig: json!({"site": "dispatcher", "kind": "job-dropped-without-running"}), desc: format!("job {j} was dropped without having run (accepted {}, handed back {})", accepted[j], rejected[j]) });
        }
    }
    if g.max_gauge > limit {
        let upto = g.over_at.unwrap_or(g.log.len());
        let from = upto.saturating_sub(24);
        problems.push(Problem {
            ty: "contract",
            sig: json!({"site": "dispatcher", "kind": "limit-exceeded"}),
            desc: format!(
                "{} blocking jobs ran at once with thread_pool_limit {} ({} worker runtime(s) + the dispatcher handle must share one pool); events before: {:?}",
                g.max_gauge, limit, workers,
                g.log[from..(upto + 1).min(g.log.len())].iter().filter(|e| !matches!(e, Ev::Hook { site: "pool.d.try" | "pool.d.load", .. })).map(|e| ctl::render(e, &names)).collect::<Vec<_>>()
            ),
        });
    }
    let trace: Vec<String> = g.log.iter().filter(|e| !matches!(e, Ev::Hook { .. })).map(|e| ctl::render(e, &names)).collect();
    drop(g);
    sess.close();
    drop(handed_back);
    std::mem::forget(split_pool);
    (problems, steps, trace)
}

fn main() {
    hcore::out::silence_panics();
    let args: Vec<String> = std::env::args().collect();
    let path = args.get(1).expect("usage: pool_disp <programs.jsonl> [--par N] [--hang-ms H] [--control-split]");
    let opt = |name: &str, dflt: u64| -> u64 {
        args.iter().position(|a| a == name).and_then(|i| args.get(i + 1)).and_then(|v| v.parse().ok()).unwrap_or(dflt)
    };
    let par = opt("--par", 8) as usize;
    let hang_ms = opt("--hang-ms", 10000);
    let split = args.iter().any(|a| a == "--control-split");
    ctl::install();
    let text = std::fs::read_to_string(path).expect("read programs");
    let cases: Arc<Vec<Value>> = Arc::new(text.lines().filter(|l| !l.trim().is_empty()).map(|l| serde_json::from_str(l).expect("json")).collect());
    let next = Arc::new(AtomicUsize::new(0));
    let rep = Arc::new(Mutex::new(Report::new()));
    let mut ths = vec![];
    for _ in 0..par.max(1) {
        let (cases, next, rep) = (cases.clone(), next.clone(), rep.clone());
        ths.push(std::thread::spawn(move || {
            loop {
                let i = next.fetch_add(1, Ordering::SeqCst);
                if i >= cases.len() || ABORT.load(Ordering::SeqCst) {
                    break;
                }
                let (problems, steps, trace) = run_program(&cases[i], hang_ms, split);
                let mut r = rep.lock().unwrap_or_else(|e| e.into_inner());
                r.cases += 1;
                r.steps += steps as u64;
                let mut case = cases[i].clone();
                case["dispatcher_leg"] = json!(true);
                case["trace"] = json!(trace);
                for p in problems {
                    r.problem(p.ty, p.sig, p.desc, &case, steps);
                }
            }
        }));
    }
    let mut runner_panics = 0;
    for t in ths {
        if let Err(e) = t.join() {
            runner_panics += 1;
            eprintln!("harness runner thread panicked: {}", hcore::out::panic_msg(e));
        }
    }
    let mut r = std::mem::take(&mut *rep.lock().unwrap_or_else(|e| e.into_inner()));
    r.set("runner_panics", json!(runner_panics));
    r.set("aborted", json!(ABORT.load(Ordering::SeqCst)));
    r.finish();
    std::process::exit(0);
}
