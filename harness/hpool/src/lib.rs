//! harness package hpool: AsyncifyPool conformance (C17) - schedule controller, jobs, replay and stress binaries
pub mod ctl;
pub mod job;
pub mod disp;
pub mod oracle;
