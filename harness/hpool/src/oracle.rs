//! Classification of contract violations from the recorded events (independent of the model).
use crate::ctl::{Ev, Inner, Kind};

/// Why could more than `limit` jobs run at once? Looks at every limit test (pool.d.load) that was
/// followed by a spawn, up to log index `upto`:
///   "load-before-spawned-worker-counted"  every over-committing test passed while a spawned worker had
///        not yet executed its fetch_add (or another dispatcher was between its test and its spawn) and the
///        counter it read was below the limit  (the known counter lag)
///   "other"  anything else (e.g. a spawn although the counter was at the limit, broken accounting)
///
/// `exact` = the log order is the real order (steered replay: threads only move when granted and the
/// counter value carried by the load hook is the value the test reads). In a free-running stress the hook
/// of an operation is logged some time before the operation, so only the existence of a test that passed
/// while a spawned worker was possibly uncounted is required.
pub fn over_cause(g: &Inner, upto: usize, limit: usize, exact: bool) -> &'static str {
    let log = &g.log[..upto.min(g.log.len())];
    // passing loads: (index, role, b) whose next hook of the same role is pool.d.spawn
    let mut passing: Vec<(usize, usize, u64, usize)> = Vec::new(); // (load idx, role, b, spawn idx)
    for (i, e) in log.iter().enumerate() {
        if let Ev::Hook { role, site: "pool.d.load", b } = e {
            for (k, f) in log.iter().enumerate().skip(i + 1) {
                if let Ev::Hook { role: r2, site, .. } = f {
                    if r2 == role {
                        if *site == "pool.d.spawn" {
                            passing.push((i, *role, *b, k));
                        }
                        break;
                    }
                }
            }
        }
    }
    let mut over_commits = 0;
    let mut lagged = 0;
    for &(i, role, b, _) in &passing {
        let mut spawned = 0usize;
        let mut counted = 0usize;
        let mut exits = 0usize;
        let mut first_recv: std::collections::HashSet<usize> = Default::default();
        for e in &log[..i] {
            if let Ev::Hook { role: r, site, .. } = e {
                match *site {
                    "pool.d.spawn" => spawned += 1,
                    "pool.w.recv" => {
                        if first_recv.insert(*r) {
                            counted += 1
                        }
                    }
                    "pool.w.exit" => exits += 1,
                    _ => {}
                }
            }
        }
        let pending_others = passing.iter().filter(|&&(li, r, _, si)| r != role && li < i && si > i).count();
        let committed = spawned + pending_others - exits.min(spawned);
        let uncounted = spawned.saturating_sub(counted) + pending_others;
        if exact {
            if committed >= limit {
                over_commits += 1;
                if uncounted >= 1 && (b as usize) < limit {
                    lagged += 1;
                }
            }
        } else if uncounted >= 1 {
            over_commits += 1;
            lagged += 1;
        }
    }
    let known = if exact { over_commits > 0 && lagged == over_commits } else { lagged > 0 };
    if known { "load-before-spawned-worker-counted" } else { "other" }
}

pub struct HangClass {
    pub place: &'static str,
    pub interleaving: &'static str,
    pub live_workers: usize,
}

/// A dispatcher did not return. Where is it, and which interleaving explains it?
pub fn hang_class(g: &Inner, d: usize) -> HangClass {
    let mut last_site = "";
    let mut last_send_idx = None;
    for (i, e) in g.log.iter().enumerate() {
        if let Ev::Hook { role, site, .. } = e {
            if *role == d {
                last_site = site;
                if *site == "pool.d.send" {
                    last_send_idx = Some(i);
                }
            }
        }
    }
    let place = match last_site {
        "pool.d.send" => "blocking-send",
        "pool.d.try" | "pool.d.load" => "retry-loop",
        "pool.d.spawn" => "spawn",
        _ => "unknown",
    };
    // workers that have not reached CounterGuard::drop
    let mut retired: std::collections::HashSet<usize> = Default::default();
    let mut last_exit: Option<u64> = None;
    for e in &g.log {
        if let Ev::Hook { role, site: "pool.w.exit", b } = e {
            retired.insert(*role);
            last_exit = Some(*b);
        }
    }
    let live = g.roles.iter().enumerate().filter(|(i, r)| r.kind == Kind::W && !retired.contains(i) && !r.exited).count();
    let interleaving = if place == "blocking-send" && live == 0 && last_send_idx.is_some() {
        match last_exit {
            Some(0) => "all-receivers-timed-out-before-blocking-send",
            Some(_) => "last-receiver-killed-by-panicking-job-before-blocking-send-was-taken",
            None => "other",
        }
    } else {
        "other"
    };
    HangClass { place, interleaving, live_workers: live }
}

/// Free dispatchers that hang in the blocking send: helper threads dispatch no-ops; the worker each one
/// spawns drains the queued senders first. (A helper can get stuck itself when the rescued job panics and
/// kills that worker, or when its own worker times out first: the next helper frees it.)
/// Returns true when `done` holds and every helper has returned, false after `max_ms`.
pub fn rescue(
    sess: &crate::ctl::Sess,
    pool: &compio_driver::AsyncifyPool,
    done: impl Fn(&Inner) -> bool,
    max_ms: u64,
) -> bool {
    use std::time::{Duration, Instant};
    let mut helpers: Vec<std::thread::JoinHandle<bool>> = vec![];
    let t0 = Instant::now();
    let mut last_spawn = Instant::now();
    loop {
        let ok = {
            let g = sess.lock();
            done(&g)
        };
        if ok && !helpers.is_empty() && helpers.iter().all(|h| h.is_finished()) {
            return true;
        }
        if t0.elapsed() > Duration::from_millis(max_ms) {
            return false;
        }
        if helpers.len() < 12 && (helpers.is_empty() || last_spawn.elapsed() > Duration::from_millis(300)) {
            let (s2, p2) = (sess.clone(), pool.clone());
            helpers.push(std::thread::spawn(move || {
                crate::ctl::bind_dispatcher(&s2);
                let t0 = Instant::now();
                while t0.elapsed() < Duration::from_secs(5) {
                    if p2.dispatch(|| {}).is_ok() {
                        return true;
                    }
                    std::thread::yield_now();
                }
                false
            }));
            last_spawn = Instant::now();
        }
        std::thread::sleep(Duration::from_millis(3));
    }
}
