//! Dispatcher threads: harness threads that hand jobs to the real pool, either through the raw
//! `AsyncifyPool::dispatch` API or through `Proactor::push(Asyncify)` (push_blocking retry loop,
//! results and panics come back through `Proactor::pop`).
use std::{
    panic::{AssertUnwindSafe, catch_unwind},
    sync::{Arc, Mutex, mpsc},
    time::{Duration, Instant},
};

use compio_buf::BufResult;
use compio_driver::{AsyncifyPool, DriverType, Key, Proactor, PushEntry, op::Asyncify};
use hcore::out::panic_msg;

use crate::{
    ctl::{self, Ev, Outcome, Ret, Sess},
    job::Job,
};

pub type BlkFn = Box<dyn FnOnce() -> BufResult<usize, usize> + Send>;
pub type BlkOp = Asyncify<BlkFn, usize>;

pub enum Cmd {
    /// dispatch job `idx` once (raw) / push it (driver: returns when accepted)
    Dispatch(usize),
    /// driver mode: poll and pop until every accepted op has delivered its result, at most ms
    Finish(u64),
    Quit,
}

#[derive(Clone)]
pub enum Mode {
    Raw,
    Drv(DriverType),
}

pub struct Shared {
    /// the job objects not currently owned by the pool (initially all; handed-back ones return here)
    pub jobs: Mutex<Vec<Option<Job>>>,
    pub serials: Vec<u64>,
}

pub fn value_of(job: usize) -> usize {
    1000 + job
}

pub fn spawn(
    sess: &Sess,
    pool: &AsyncifyPool,
    mode: Mode,
    shared: &Arc<Shared>,
    rx: mpsc::Receiver<Cmd>,
) -> std::thread::JoinHandle<()> {
    let (sess, pool, shared) = (sess.clone(), pool.clone(), shared.clone());
    std::thread::spawn(move || {
        let d = ctl::bind_dispatcher(&sess);
        let mut proactor = match &mode {
            Mode::Raw => None,
            Mode::Drv(dt) => Some(
                Proactor::builder()
                    .driver_type(*dt)
                    .capacity(8)
                    .reuse_thread_pool(pool.clone())
                    .build()
                    .expect("build proactor"),
            ),
        };
        let mut keys: Vec<(usize, Key<BlkOp>)> = Vec::new();
        while let Ok(cmd) = rx.recv() {
            match cmd {
                Cmd::Dispatch(j) => {
                    let job = shared.jobs.lock().unwrap_or_else(|e| e.into_inner())[j].take();
                    let Some(job) = job else {
                        sess.call(d, j);
                        sess.ret(d, j, Ret::Unavailable);
                        continue;
                    };
                    sess.call(d, j);
                    match proactor.as_mut() {
                        None => match catch_unwind(AssertUnwindSafe(|| pool.dispatch(job))) {
                            Ok(Ok(())) => sess.ret(d, j, Ret::Accepted),
                            Ok(Err(e)) => {
                                let job = e.into_inner();
                                let intact = job.intact(j, shared.serials[j]);
                                shared.jobs.lock().unwrap_or_else(|e| e.into_inner())[j] = Some(job);
                                sess.ret(d, j, Ret::Rejected { intact });
                            }
                            Err(p) => sess.ret(d, j, Ret::Panicked(panic_msg(p))),
                        },
                        Some(p) => {
                            let mut job = job;
                            let f: BlkFn = Box::new(move || {
                                job.execute();
                                BufResult(Ok(value_of(job.idx)), job.idx)
                            });
                            match catch_unwind(AssertUnwindSafe(|| p.push(Asyncify::new(f)))) {
                                Ok(PushEntry::Pending(k)) => {
                                    keys.push((j, k));
                                    sess.ret(d, j, Ret::Accepted);
                                }
                                Ok(PushEntry::Ready(_)) => {
                                    sess.ret(d, j, Ret::Panicked("asyncify op was ready at push".into()))
                                }
                                Err(e) => sess.ret(d, j, Ret::Panicked(panic_msg(e))),
                            }
                        }
                    }
                }
                Cmd::Finish(ms) => {
                    if let Some(p) = proactor.as_mut() {
                        let t0 = Instant::now();
                        while !keys.is_empty() && (t0.elapsed().as_millis() as u64) < ms {
                            let _ = p.poll(Some(Duration::from_millis(10)));
                            let mut rest = Vec::new();
                            for (j, k) in keys.drain(..) {
                                match catch_unwind(AssertUnwindSafe(|| p.pop(k))) {
                                    Ok(PushEntry::Pending(k)) => rest.push((j, k)),
                                    Ok(PushEntry::Ready(BufResult(res, op))) => {
                                        use compio_buf::IntoInner;
                                        let out = match res {
                                            Ok(v) => {
                                                let data = catch_unwind(AssertUnwindSafe(|| op.into_inner()));
                                                match data {
                                                    Ok(x) if x == j => Outcome::Value(v),
                                                    Ok(x) => Outcome::Error(format!("data of job {x} returned")),
                                                    Err(_) => Outcome::Error("no data in the finished op".into()),
                                                }
                                            }
                                            Err(e) => Outcome::Error(e.to_string()),
                                        };
                                        sess.push(Ev::Result { d, job: j, out });
                                    }
                                    Err(e) => sess.push(Ev::Result { d, job: j, out: Outcome::Panic(panic_msg(e)) }),
                                }
                            }
                            keys = rest;
                        }
                    }
                    sess.push(Ev::Result { d, job: usize::MAX, out: Outcome::Value(keys.len()) });
                }
                Cmd::Quit => break,
            }
        }
        // never block the harness on a driver teardown that waits for a job the pool lost
        if !keys.is_empty() {
            std::mem::forget(keys);
            std::mem::forget(proactor);
        }
    })
}
