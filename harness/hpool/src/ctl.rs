//! Schedule controller + event recorder for AsyncifyPool (C17), installed into the hook sink
//! `compio_log::verif`.
//!
//! One `Session` per pool under test. Threads taking part have a role (dispatchers `D1`.. are
//! registered by the harness, workers `W1`.. register themselves at their first hook
//! (`pool.w.run`: a new thread owns its first job) in spawn order). In STEER mode a thread arriving at a `pool.*` hook records the
//! arrival and parks until the controller grants it a turn; in FREE mode hooks only record (and
//! optionally perturb the timing with seeded sleeps). Several sessions run concurrently in one
//! process: hooks are routed by a thread-local role, new worker threads by the pool identity the
//! hook carries (address of the shared counter).
use std::{
    cell::RefCell,
    collections::HashMap,
    sync::{
        Arc, Condvar, Mutex, MutexGuard, OnceLock,
        atomic::{AtomicBool, AtomicU64, AtomicUsize, Ordering},
    },
    thread::Thread,
    time::{Duration, Instant},
};

#[derive(Clone, Debug, PartialEq)]
pub enum Ret {
    Accepted,
    /// the dispatch was rejected; `intact` = the very same job came back unchanged
    Rejected { intact: bool },
    Panicked(String),
    /// harness: the schedule asks to dispatch a job object the harness does not hold (only after a drift)
    Unavailable,
}

#[derive(Clone, Debug, PartialEq)]
pub enum Outcome {
    Value(usize),
    Panic(String),
    Error(String),
}

#[derive(Clone, Debug)]
pub enum Ev {
    Hook { role: usize, site: &'static str, b: u64 },
    Call { d: usize, job: usize },
    Ret { d: usize, job: usize, ret: Ret },
    JobStart { job: usize, role: Option<usize>, gauge: usize },
    JobEnd { job: usize, panicked: bool },
    JobDropped { job: usize, ran: bool },
    ThreadExit { role: usize },
    Result { d: usize, job: usize, out: Outcome },
}

pub struct Grant {
    flag: AtomicBool,
    thread: Thread,
}

#[derive(Clone, Copy, PartialEq, Eq, Debug)]
pub enum Kind {
    D,
    W,
}

pub struct Role {
    pub name: String,
    pub kind: Kind,
    pub tid: i32,
    /// hook the thread is parked at (STEER mode only)
    pub at: Option<(&'static str, u64)>,
    grant: Arc<Grant>,
    pub exited: bool,
    /// dispatcher: the job whose dispatch call is in flight
    pub in_call: Option<usize>,
    /// last return of this dispatcher
    pub last_ret: Option<(usize, Ret)>,
    /// worker: the job it is running
    pub in_job: Option<usize>,
    /// worker: number of jobs it has started
    pub jobs_started: usize,
    /// dispatcher: dispatch calls begun / returned
    pub calls_begun: usize,
    pub calls_returned: usize,
}

pub struct Inner {
    pub steer: bool,
    pub log: Vec<Ev>,
    pub roles: Vec<Role>,
    pub nworkers: usize,
    /// number of pool.d.spawn hooks passed (threads the pool was asked to create)
    pub spawn_hooks: usize,
    pub gate_open: Vec<bool>,
    pub started: Vec<usize>,
    pub ended: Vec<bool>,
    pub dropped_unrun: Vec<usize>,
    pub closing: bool,
    pub max_gauge: usize,
    /// log index of the first job start that pushed the gauge above the limit
    pub over_at: Option<usize>,
}

pub struct Session {
    pub limit: usize,
    pub m: Mutex<Inner>,
    pub cv: Condvar,
    pub gauge: AtomicUsize,
    pub pool_ptr: AtomicU64,
    /// FREE mode timing perturbation: 0 = off, else seed
    pub perturb: AtomicU64,
    /// FREE mode: do not perturb at the spawn/send sites (after a reproduced hang)
    pub calm_send: AtomicBool,
    /// how long a job waits for its gate at most (never hang the harness)
    pub gate_cap: Duration,
}

pub type Sess = Arc<Session>;

struct Me {
    sess: Sess,
    role: usize,
}

impl Drop for Me {
    fn drop(&mut self) {
        self.sess.thread_exit(self.role);
    }
}

thread_local! {
    static ME: RefCell<Option<Me>> = const { RefCell::new(None) };
    static RNG: RefCell<u64> = const { RefCell::new(0) };
}

static REG: OnceLock<Mutex<HashMap<u64, Sess>>> = OnceLock::new();

fn reg() -> MutexGuard<'static, HashMap<u64, Sess>> {
    REG.get_or_init(|| Mutex::new(HashMap::new())).lock().unwrap_or_else(|e| e.into_inner())
}

pub fn gettid() -> i32 {
    unsafe { libc::syscall(libc::SYS_gettid) as i32 }
}

/// Scheduler state of a thread of this process: 'R', 'S', 'D', .. ; None = the thread is gone.
pub fn thread_state(tid: i32) -> Option<char> {
    let s = std::fs::read_to_string(format!("/proc/self/task/{tid}/stat")).ok()?;
    let i = s.rfind(')')?;
    s[i + 1..].trim_start().chars().next()
}

pub fn install() {
    compio_log::verif::set_sink(Some(sink));
}

fn sink(site: &'static str, a: u64, b: u64) {
    if !site.starts_with("pool.") {
        return;
    }
    let me = ME.try_with(|m| m.borrow().as_ref().map(|x| (x.sess.clone(), x.role))).ok().flatten();
    let (sess, role) = match me {
        Some(x) => x,
        None => {
            // a thread the pool has created shows up at its first worker hook (pool.w.run since the fix commit:
            // the new thread owns its first job; pool.w.inc in the old code)
            if !site.starts_with("pool.w.") || site == "pool.w.exit" || site == "pool.w.done" {
                return;
            }
            let Some(sess) = reg().get(&a).cloned() else { return };
            let role = sess.register(Kind::W);
            let _ = ME.try_with(|m| *m.borrow_mut() = Some(Me { sess: sess.clone(), role }));
            (sess, role)
        }
    };
    if site == "pool.d.try" && sess.pool_ptr.load(Ordering::Acquire) == 0 {
        sess.pool_ptr.store(a, Ordering::Release);
        reg().insert(a, sess.clone());
    }
    sess.arrive(role, site, b);
}

/// Bind the calling (harness) thread to a dispatcher role of the session.
pub fn bind_dispatcher(sess: &Sess) -> usize {
    let role = sess.register(Kind::D);
    ME.with(|m| *m.borrow_mut() = Some(Me { sess: sess.clone(), role }));
    role
}

/// Role of the calling thread, if it belongs to a session.
pub fn my_role() -> Option<usize> {
    ME.try_with(|m| m.borrow().as_ref().map(|x| x.role)).ok().flatten()
}

impl Session {
    pub fn new(limit: usize, njobs: usize, steer: bool) -> Sess {
        Arc::new(Session {
            limit,
            m: Mutex::new(Inner {
                steer,
                log: Vec::new(),
                roles: Vec::new(),
                nworkers: 0,
                spawn_hooks: 0,
                gate_open: vec![false; njobs],
                started: vec![0; njobs],
                ended: vec![false; njobs],
                dropped_unrun: vec![0; njobs],
                closing: false,
                max_gauge: 0,
                over_at: None,
            }),
            cv: Condvar::new(),
            gauge: AtomicUsize::new(0),
            pool_ptr: AtomicU64::new(0),
            perturb: AtomicU64::new(0),
            calm_send: AtomicBool::new(false),
            gate_cap: Duration::from_secs(60),
        })
    }

    pub fn lock(&self) -> MutexGuard<'_, Inner> {
        self.m.lock().unwrap_or_else(|e| e.into_inner())
    }

    fn register(&self, kind: Kind) -> usize {
        let mut g = self.lock();
        let n = g.roles.iter().filter(|r| r.kind == kind).count() + 1;
        let name = format!("{}{}", if kind == Kind::D { "D" } else { "W" }, n);
        g.roles.push(Role {
            name,
            kind,
            tid: gettid(),
            at: None,
            grant: Arc::new(Grant { flag: AtomicBool::new(false), thread: std::thread::current() }),
            exited: false,
            in_call: None,
            last_ret: None,
            in_job: None,
            jobs_started: 0,
            calls_begun: 0,
            calls_returned: 0,
        });
        if kind == Kind::W {
            g.nworkers += 1;
        }
        g.roles.len() - 1
    }

    fn thread_exit(&self, role: usize) {
        let mut g = self.lock();
        g.roles[role].exited = true;
        g.log.push(Ev::ThreadExit { role });
        drop(g);
        self.cv.notify_all();
    }

    fn arrive(&self, role: usize, site: &'static str, b: u64) {
        let grant;
        {
            let mut g = self.lock();
            if site == "pool.d.spawn" {
                g.spawn_hooks += 1;
            }
            // a spinning retry loop must not eat the memory: beyond a cap only the other sites are logged
            if g.log.len() < 1_500_000 || !(site == "pool.d.try" || site == "pool.d.load") {
                g.log.push(Ev::Hook { role, site, b });
            }
            // a worker unwinding out of a panicking job only announces the end of the job
            let auto = site == "pool.w.done" && b == 1;
            if !g.steer || auto {
                drop(g);
                self.cv.notify_all();
                self.perturb_here(site);
                return;
            }
            g.roles[role].at = Some((site, b));
            grant = g.roles[role].grant.clone();
        }
        self.cv.notify_all();
        loop {
            if grant.flag.swap(false, Ordering::AcqRel) {
                break;
            }
            std::thread::park_timeout(Duration::from_millis(20));
        }
    }

    fn perturb_here(&self, site: &'static str) {
        let seed = self.perturb.load(Ordering::Relaxed);
        if seed == 0 {
            return;
        }
        if self.calm_send.load(Ordering::Relaxed) && (site == "pool.d.send" || site == "pool.d.spawn") {
            return;
        }
        let r = RNG.with(|x| {
            let mut s = x.borrow_mut();
            if *s == 0 {
                *s = seed ^ ((gettid() as u64) << 17) | 1;
            }
            // xorshift64*
            *s ^= *s >> 12;
            *s ^= *s << 25;
            *s ^= *s >> 27;
            s.wrapping_mul(0x2545F4914F6CDD1D)
        });
        match r % 16 {
            0 => std::thread::sleep(Duration::from_micros(200 + (r >> 8) % 6000)),
            1 | 2 => std::thread::sleep(Duration::from_micros((r >> 8) % 400)),
            3 | 4 | 5 => std::thread::yield_now(),
            _ => {}
        }
    }

    /// Controller: let a parked role continue.
    pub fn grant(&self, role: usize) {
        let mut g = self.lock();
        self.grant_locked(&mut g, role);
    }

    fn grant_locked(&self, g: &mut Inner, role: usize) {
        g.roles[role].at = None;
        let gr = g.roles[role].grant.clone();
        gr.flag.store(true, Ordering::Release);
        gr.thread.unpark();
    }

    /// Leave STEER mode: every parked role continues, later arrivals pass through.
    pub fn free_run(&self) {
        let mut g = self.lock();
        g.steer = false;
        for i in 0..g.roles.len() {
            if g.roles[i].at.is_some() {
                self.grant_locked(&mut g, i);
            }
        }
        drop(g);
        self.cv.notify_all();
    }

    pub fn open_gate(&self, job: usize) {
        let mut g = self.lock();
        g.gate_open[job] = true;
        drop(g);
        self.cv.notify_all();
    }

    pub fn open_all_gates(&self) {
        let mut g = self.lock();
        for x in g.gate_open.iter_mut() {
            *x = true;
        }
        drop(g);
        self.cv.notify_all();
    }

    pub fn push(&self, ev: Ev) {
        let mut g = self.lock();
        g.log.push(ev);
        drop(g);
        self.cv.notify_all();
    }

    pub fn call(&self, d: usize, job: usize) {
        let mut g = self.lock();
        g.roles[d].in_call = Some(job);
        g.roles[d].calls_begun += 1;
        g.log.push(Ev::Call { d, job });
        drop(g);
        self.cv.notify_all();
    }

    pub fn ret(&self, d: usize, job: usize, ret: Ret) {
        let mut g = self.lock();
        g.roles[d].in_call = None;
        g.roles[d].calls_returned += 1;
        g.roles[d].last_ret = Some((job, ret.clone()));
        g.log.push(Ev::Ret { d, job, ret });
        drop(g);
        self.cv.notify_all();
    }

    /// Called by a job when it starts running on a pool thread.
    pub fn job_start(&self, job: usize) {
        let role = my_role();
        let mut g = self.lock();
        let gauge = self.gauge.fetch_add(1, Ordering::AcqRel) + 1;
        g.started[job] += 1;
        if gauge > g.max_gauge {
            g.max_gauge = gauge;
        }
        if gauge > self.limit && g.over_at.is_none() {
            g.over_at = Some(g.log.len());
        }
        if let Some(r) = role {
            if g.roles[r].kind == Kind::W {
                g.roles[r].in_job = Some(job);
                g.roles[r].jobs_started += 1;
            }
        }
        g.log.push(Ev::JobStart { job, role, gauge });
        drop(g);
        self.cv.notify_all();
    }

    /// Block the job until the controller opens its gate (bounded).
    pub fn wait_gate(&self, job: usize) {
        let t0 = Instant::now();
        let mut g = self.lock();
        while !g.gate_open[job] {
            if t0.elapsed() > self.gate_cap {
                break;
            }
            g = self.cv.wait_timeout(g, Duration::from_millis(50)).unwrap_or_else(|e| e.into_inner()).0;
        }
    }

    pub fn job_end(&self, job: usize, panicked: bool) {
        let role = my_role();
        let mut g = self.lock();
        self.gauge.fetch_sub(1, Ordering::AcqRel);
        g.ended[job] = true;
        if let Some(r) = role {
            if g.roles[r].kind == Kind::W {
                g.roles[r].in_job = None;
            }
        }
        g.log.push(Ev::JobEnd { job, panicked });
        drop(g);
        self.cv.notify_all();
    }

    pub fn job_dropped(&self, job: usize, ran: bool) {
        let mut g = self.lock();
        if g.closing {
            return;
        }
        if !ran {
            g.dropped_unrun[job] += 1;
        }
        g.log.push(Ev::JobDropped { job, ran });
        drop(g);
        self.cv.notify_all();
    }

    /// Wait until `pred` holds (checked under the lock after every event), at most `ms`.
    pub fn wait_until(&self, ms: u64, mut pred: impl FnMut(&Inner) -> bool) -> bool {
        let t0 = Instant::now();
        let mut g = self.lock();
        loop {
            if pred(&g) {
                return true;
            }
            let el = t0.elapsed().as_millis() as u64;
            if el >= ms {
                return false;
            }
            let w = (ms - el).min(20);
            g = self.cv.wait_timeout(g, Duration::from_millis(w)).unwrap_or_else(|e| e.into_inner()).0;
        }
    }

    /// Is the thread of `role` blocked outside our hooks (parked inside the channel)? Several
    /// consecutive samples of the kernel's thread state must say "sleeping" while the role is
    /// neither at a hook nor in a job nor back in the harness.
    pub fn blocked_in_channel(&self, role: usize) -> bool {
        for _ in 0..3 {
            let tid = {
                let g = self.lock();
                let r = &g.roles[role];
                if r.at.is_some() || r.exited || r.in_job.is_some() || (r.kind == Kind::D && r.in_call.is_none()) {
                    return false;
                }
                r.tid
            };
            if thread_state(tid) != Some('S') {
                return false;
            }
            std::thread::sleep(Duration::from_micros(300));
        }
        let g = self.lock();
        let r = &g.roles[role];
        r.at.is_none() && !r.exited && r.in_job.is_none() && !(r.kind == Kind::D && r.in_call.is_none())
    }

    pub fn close(&self) {
        let mut g = self.lock();
        g.closing = true;
    }

    pub fn role_index(&self, name: &str) -> Option<usize> {
        self.lock().roles.iter().position(|r| r.name == name)
    }
}

/// Every thread the pool was asked to create has shown up at its first hook and has ended.
/// (A spawned thread that has not started yet is invisible to the session until then.)
pub fn all_workers_retired(g: &Inner) -> bool {
    g.nworkers >= g.spawn_hooks && g.roles.iter().filter(|r| r.kind == Kind::W).all(|r| r.exited)
}

pub fn render(ev: &Ev, roles: &[String]) -> String {
    let rn = |i: usize| roles.get(i).cloned().unwrap_or_else(|| format!("r{i}"));
    let jn = |j: usize| if j == usize::MAX { "all".to_string() } else { format!("j{}", j + 1) };
    match ev {
        Ev::Hook { role, site, b } => format!("{}@{}({})", rn(*role), site, b),
        Ev::Call { d, job } => format!("{}:call({})", rn(*d), jn(*job)),
        Ev::Ret { d, job, ret } => format!("{}:ret({},{:?})", rn(*d), jn(*job), ret),
        Ev::JobStart { job, role, gauge } => {
            format!("start({},{},gauge={})", jn(*job), role.map(rn).unwrap_or_else(|| "?".into()), gauge)
        }
        Ev::JobEnd { job, panicked } => format!("end({}{})", jn(*job), if *panicked { ",panic" } else { "" }),
        Ev::JobDropped { job, ran } => format!("dropped({},ran={})", jn(*job), ran),
        Ev::ThreadExit { role } => format!("{}:thread-exit", rn(*role)),
        Ev::Result { d, job, out } => format!("{}:result({},{:?})", rn(*d), jn(*job), out),
    }
}
