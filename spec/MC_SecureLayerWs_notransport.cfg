\* control (DESIGN D): no transport flush after the protocol flush (expected to FAIL)
CONSTANTS
  Servers = {"A", "B"}
  Bufferings = {TRUE, FALSE}
  MaxPend = 3
  FlushBeforeYield = TRUE
  TransportFlush = FALSE
SPECIFICATION Spec
INVARIANTS NoDeadlock
