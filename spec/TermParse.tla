---------------------------- MODULE TermParse ----------------------------
(* compio-term, Unix terminal input: the escape sequence parser (src/event/sys/unix/parse.rs) and the part of
   EventSource::poll_next (src/event/sys/unix/mod.rs) that decides what the parser sees: reads of arbitrary
   size, the 20 ms escape timer, the end of the input.  Extension check X05.

   Two descriptions of the same language:
   * code shaped: Parser::advance pushes ONE byte and re-parses the whole buffer (ParseEvent = parse_event,
     ParseCsi = parse_csi, ... arm by arm, every index and every slice the code computes is guarded: an index
     out of range gives the result "panic" instead of a value);
   * reference: RefLex reads the WHOLE input at once and cuts it into tokens declaratively (a control sequence
     ends at its first final byte, a paste at the first end marker, ...).
   Invariant CutIsNeedMore (the fragmentation property): in every state, however the input was cut into reads,
   the events so far are exactly the tokens of the whole-input lexing that end inside the consumed prefix and the
   parser buffer is exactly the unfinished token.  The meaning of a complete sequence (ClassifyCsi etc.) is shared. *)
EXTENDS Integers, Sequences, FiniteSets, TLC

CONSTANTS RawMode,        \* Parser::new(raw_mode): the terminal is not in canonical mode
          Inputs,         \* set of byte sequences the terminal sends
          FixStaleTimer,  \* FALSE = pinned code: update_escape_timer keeps a timer armed for an earlier ESC
          AllowLongCsi,   \* TRUE = pinned code: no bound on the parameter bytes of a control sequence
          MaxTok,         \* bound of BufferBounded
          Mut             \* "" or the name of a model mutation (control configurations)

VARIABLES input, pos, buf, out, panic, timer, timerEsc, closed, seg0, nOutSeg, rd, ref
vars == <<input, pos, buf, out, panic, timer, timerEsc, closed, seg0, nOutSeg, rd, ref>>

ESC == 27
LB  == 91
PASTE_START == <<27, 91, 50, 48, 48, 126>>
PASTE_END   == <<27, 91, 50, 48, 49, 126>>

Min(S) == CHOOSE x \in S : \A y \in S : x <= y
MinN(a, b) == IF a < b THEN a ELSE b

\* ---------------------------------------------------------------- events
Ev(t, c, m, k, s, p) == [t |-> t, c |-> c, m |-> m, k |-> k, s |-> s, p |-> p]
KeyFull(code, mods, kind, state) == Ev("key", code, mods, kind, state, <<>>)
Key(code, mods) == KeyFull(code, mods, 1, 0)
Mouse(kind, button, col, row, mods) == Ev("mouse", <<kind, button>>, mods, col, row, <<>>)
Ignored == Ev("ign", <<"", 0>>, 0, 0, 0, <<>>)
NoEv == Ev("none", <<"", 0>>, 0, 0, 0, <<>>)
SHIFT == 1
CONTROL == 2
ALT == 4
Bit(n, i) == (n \div (2 ^ i)) % 2
OrMask(n, b) == IF (n \div b) % 2 = 1 THEN n ELSE n + b
ClearMask(n, b) == IF (n \div b) % 2 = 1 THEN n - b ELSE n

\* results of a parse attempt
Got(e)  == [r |-> "ev", e |-> e]
More    == [r |-> "more", e |-> NoEv]
Err     == [r |-> "err", e |-> NoEv]
Panic   == [r |-> "panic", e |-> NoEv]

\* ---------------------------------------------------------------- bytes and numbers
StartsWith(b, p) == Len(b) >= Len(p) /\ SubSeq(b, 1, Len(p)) = p
EndsWith(b, p) == Len(b) >= Len(p) /\ SubSeq(b, Len(b) - Len(p) + 1, Len(b)) = p
Contains(b, x) == \E i \in 1..Len(b) : b[i] = x
IsCont(x) == x \div 64 = 2

\* one well formed UTF-8 scalar (Unicode table 3-7), else -1
DecodeOne(b) ==
  LET n == Len(b) IN
  IF n = 1 THEN (IF b[1] < 128 THEN b[1] ELSE 0 - 1)
  ELSE IF n = 2 THEN (IF b[1] \in 194..223 /\ IsCont(b[2]) THEN (b[1] - 192) * 64 + (b[2] - 128) ELSE 0 - 1)
  ELSE IF n = 3 THEN
     (IF /\ b[1] \in 224..239 /\ IsCont(b[2]) /\ IsCont(b[3])
         /\ (b[1] = 224 => b[2] >= 160) /\ (b[1] = 237 => b[2] <= 159)
      THEN (b[1] - 224) * 4096 + (b[2] - 128) * 64 + (b[3] - 128) ELSE 0 - 1)
  ELSE IF n = 4 THEN
     (IF /\ b[1] \in 240..244 /\ IsCont(b[2]) /\ IsCont(b[3]) /\ IsCont(b[4])
         /\ (b[1] = 240 => b[2] >= 144) /\ (b[1] = 244 => b[2] <= 143)
      THEN (b[1] - 240) * 262144 + (b[2] - 128) * 4096 + (b[3] - 128) * 64 + (b[4] - 128) ELSE 0 - 1)
  ELSE 0 - 1

RECURSIVE Utf8Ok(_)
Utf8Ok(s) == \/ s = <<>>
             \/ \E n \in 1..MinN(4, Len(s)) : DecodeOne(SubSeq(s, 1, n)) >= 0 /\ Utf8Ok(SubSeq(s, n + 1, Len(s)))

RECURSIVE Split(_, _)
Split(s, sep) ==
  IF \A i \in 1..Len(s) : s[i] # sep THEN <<s>>
  ELSE LET i == Min({j \in 1..Len(s) : s[j] = sep}) IN <<SubSeq(s, 1, i - 1)>> \o Split(SubSeq(s, i + 1, Len(s)), sep)

RECURSIVE StripZeros(_)
StripZeros(d) == IF Len(d) > 1 /\ d[1] = 48 THEN StripZeros(Tail(d)) ELSE d
RECURSIVE DigitsVal(_)
DigitsVal(d) == IF d = <<>> THEN 0 ELSE DigitsVal(SubSeq(d, 1, Len(d) - 1)) * 10 + (d[Len(d)] - 48)

\* str::parse::<uN>(): optional '+', at least one digit, only digits, value <= max; -1 = Err.
\* More than 9 significant digits: beyond u8/u16, and for u32 (kitty code point) beyond every char and every key code.
ParseNum(s, max) ==
  LET d0 == IF Len(s) > 0 /\ s[1] = 43 THEN Tail(s) ELSE s IN
  IF d0 = <<>> \/ \E i \in 1..Len(d0) : d0[i] \notin 48..57 THEN 0 - 1
  ELSE LET d == StripZeros(d0) IN
       IF Len(d) > 9 THEN 0 - 1
       ELSE LET v == DigitsVal(d) IN IF v > max THEN 0 - 1 ELSE v

\* ---------------------------------------------------------------- meaning of complete sequences (shared)
ModBits(mask) == IF mask = 0 THEN 0 ELSE mask - 1                         \* mask.saturating_sub(1)
Modifiers(mask) ==
  LET b == ModBits(mask) IN
  Bit(b, 0) * 1 + Bit(b, 1) * 4 + Bit(b, 2) * 2 + Bit(b, 3) * 8 + Bit(b, 4) * 16 + Bit(b, 5) * 32
ModState(mask) == LET b == ModBits(mask) IN Bit(b, 6) * 2 + Bit(b, 7) * 4
Kind(k) == IF k = 2 THEN 2 ELSE IF k = 3 THEN 3 ELSE 1

\* parse_modifier_parameter: <<ok, mask, kind>>
ModParam(p) ==
  LET v == Split(p, 58)
      mask == ParseNum(v[1], 255)
      kind == IF Len(v) >= 2 THEN ParseNum(v[2], 255) ELSE 1
  IN IF mask < 0 \/ kind < 0 THEN <<FALSE, 0, 0>> ELSE <<TRUE, mask, kind>>

\* the optional second parameter of parse_modified_key / parse_special_key: <<ok, modifiers, kind, state>>
SecondParam(params) ==
  IF Len(params) < 2 THEN <<TRUE, 0, 1, 0>>
  ELSE LET mp == ModParam(params[2]) IN
       IF ~mp[1] THEN <<FALSE, 0, 1, 0>> ELSE <<TRUE, Modifiers(mp[2]), Kind(mp[3]), ModState(mp[2])>>

FinalKey(f) ==
  CASE f = 65 -> <<"Up", 0>> [] f = 66 -> <<"Down", 0>> [] f = 67 -> <<"Right", 0>> [] f = 68 -> <<"Left", 0>>
    [] f = 70 -> <<"End", 0>> [] f = 72 -> <<"Home", 0>> [] f = 80 -> <<"F", 1>> [] f = 81 -> <<"F", 2>>
    [] f = 82 -> <<"F", 3>> [] f = 83 -> <<"F", 4>> [] OTHER -> <<"", 0>>

ModifiedKey(body, f) ==
  IF ~Utf8Ok(body) THEN Err
  ELSE LET sp == SecondParam(Split(body, 59)) IN
       IF ~sp[1] THEN Err ELSE Got(KeyFull(FinalKey(f), sp[2], sp[3], sp[4]))

SpecialCode(v) ==
  CASE v \in {1, 7} -> <<"Home", 0>> [] v = 2 -> <<"Insert", 0>> [] v = 3 -> <<"Delete", 0>>
    [] v \in {4, 8} -> <<"End", 0>> [] v = 5 -> <<"PageUp", 0>> [] v = 6 -> <<"PageDown", 0>>
    [] v \in 11..15 -> <<"F", v - 10>> [] v \in 17..21 -> <<"F", v - 11>> [] v \in 23..26 -> <<"F", v - 12>>
    [] v \in 28..29 -> <<"F", v - 15>> [] v \in 31..34 -> <<"F", v - 17>> [] OTHER -> <<"", 0>>

SpecialKey(body) ==
  IF ~Utf8Ok(body) THEN Err
  ELSE LET params == Split(body, 59)
           first == ParseNum(params[1], 255)
           sp == SecondParam(params)
       IN IF first < 0 \/ ~sp[1] \/ SpecialCode(first) = <<"", 0>> THEN Err
          ELSE Got(KeyFull(SpecialCode(first), sp[2], sp[3], sp[4]))

\* functional_key / non_keypad_functional_key: <<code, state>> or <<>> (none)
KeypadChars == <<46, 47, 42, 45, 43>>                     \* 57409..57413  . / * - +
Functional(cp) ==
  CASE cp \in 57399..57408 -> <<<<"Char", 48 + (cp - 57399)>>, 1>>
    [] cp \in 57409..57413 -> <<<<"Char", KeypadChars[cp - 57408]>>, 1>>
    [] cp = 57414 -> <<<<"Enter", 0>>, 1>> [] cp = 57415 -> <<<<"Char", 61>>, 1>> [] cp = 57416 -> <<<<"Char", 44>>, 1>>
    [] cp = 57417 -> <<<<"Left", 0>>, 1>> [] cp = 57418 -> <<<<"Right", 0>>, 1>> [] cp = 57419 -> <<<<"Up", 0>>, 1>>
    [] cp = 57420 -> <<<<"Down", 0>>, 1>> [] cp = 57421 -> <<<<"PageUp", 0>>, 1>> [] cp = 57422 -> <<<<"PageDown", 0>>, 1>>
    [] cp = 57423 -> <<<<"Home", 0>>, 1>> [] cp = 57424 -> <<<<"End", 0>>, 1>> [] cp = 57425 -> <<<<"Insert", 0>>, 1>>
    [] cp = 57426 -> <<<<"Delete", 0>>, 1>> [] cp = 57427 -> <<<<"KeypadBegin", 0>>, 1>>
    [] cp = 57358 -> <<<<"CapsLock", 0>>, 0>> [] cp = 57359 -> <<<<"ScrollLock", 0>>, 0>> [] cp = 57360 -> <<<<"NumLock", 0>>, 0>>
    [] cp = 57361 -> <<<<"PrintScreen", 0>>, 0>> [] cp = 57362 -> <<<<"Pause", 0>>, 0>> [] cp = 57363 -> <<<<"Menu", 0>>, 0>>
    [] cp \in 57376..57398 -> <<<<"F", cp - 57363>>, 0>>
    [] cp \in 57428..57440 -> <<<<"Media", cp - 57428>>, 0>>
    [] cp \in 57441..57454 -> <<<<"Mod", cp - 57441>>, 0>>
    [] OTHER -> <<>>

\* modifier a Modifier key code stands for itself (index as in Functional): Shift Control Alt Super Hyper Meta, left then right
OwnModifier(i) == IF i >= 12 THEN 0 ELSE <<1, 2, 4, 8, 16, 32>>[(i % 6) + 1]
IsScalar(cp) == cp <= 1114111 /\ ~(cp \in 55296..57343)
\* char::is_uppercase for the characters of the alphabets used here
IsUpper(cp) == cp \in 65..90 \/ cp \in 192..214 \/ cp \in 216..222

KittyKey(body) ==
  IF ~Utf8Ok(body) THEN Err
  ELSE
  LET params == Split(body, 59)
      cps == Split(params[1], 58)
      cp == ParseNum(cps[1], 1999999999)
      mp == IF Len(params) >= 2 THEN ModParam(params[2]) ELSE <<TRUE, 1, 1>>
  IN IF cp < 0 \/ ~mp[1] THEN Err
     ELSE
     LET mods0 == Modifiers(mp[2])
         fk == Functional(cp)
     IN IF fk = <<>> /\ ~IsScalar(cp) THEN Err
        ELSE
        LET code == IF fk # <<>> THEN fk[1]
                    ELSE CASE cp = 27 -> <<"Esc", 0>> [] cp = 13 -> <<"Enter", 0>>
                           [] cp = 10 /\ ~RawMode -> <<"Enter", 0>>
                           [] cp = 9 -> (IF Bit(mods0, 0) = 1 THEN <<"BackTab", 0>> ELSE <<"Tab", 0>>)
                           [] cp = 127 -> <<"Backspace", 0>> [] OTHER -> <<"Char", cp>>
            state == ModState(mp[2]) + (IF fk # <<>> THEN fk[2] ELSE 0)
            mods1 == IF code[1] = "Mod" /\ OwnModifier(code[2]) # 0 THEN OrMask(mods0, OwnModifier(code[2])) ELSE mods0
            alt == IF Len(cps) >= 2 THEN ParseNum(cps[2], 1999999999) ELSE 0 - 1
            useAlt == Bit(mods1, 0) = 1 /\ alt >= 0 /\ IsScalar(alt)
        IN Got(KeyFull(IF useAlt THEN <<"Char", alt>> ELSE code, IF useAlt THEN ClearMask(mods1, 1) ELSE mods1, Kind(mp[3]), state))

\* parse_cb: <<ok, kind, button, modifiers>>
Cb(cb) ==
  LET button == (cb % 4) + ((cb \div 64) % 4) * 4
      drag == Bit(cb, 5) = 1
      mods == Bit(cb, 2) * 1 + Bit(cb, 3) * 4 + Bit(cb, 4) * 2
      B(i) == i                                     \* 0 left, 1 middle, 2 right, 3 none
  IN CASE button \in 0..2 /\ ~drag -> <<TRUE, "Down", B(button), mods>>
       [] button \in 0..2 /\ drag -> <<TRUE, "Drag", B(button), mods>>
       [] button = 3 /\ ~drag -> <<TRUE, "Up", 0, mods>>
       [] button \in 3..5 /\ drag -> <<TRUE, "Moved", 3, mods>>
       [] button = 4 /\ ~drag -> <<TRUE, "ScrollUp", 3, mods>>
       [] button = 5 /\ ~drag -> <<TRUE, "ScrollDown", 3, mods>>
       [] button = 6 /\ ~drag -> <<TRUE, "ScrollLeft", 3, mods>>
       [] button = 7 /\ ~drag -> <<TRUE, "ScrollRight", 3, mods>>
       [] OTHER -> <<FALSE, "", 3, 0>>

\* three decimal fields cb ; column ; row (offset = what is subtracted from cb)
MouseFields(text, cbOffset, final) ==
  IF ~Utf8Ok(text) THEN Err
  ELSE LET v == Split(text, 59) IN
  IF Len(v) < 3 THEN Err
  ELSE LET cb0 == ParseNum(v[1], 255)
           col == ParseNum(v[2], 65535)
           row == ParseNum(v[3], 65535)
       IN IF cb0 < cbOffset \/ col < 1 \/ row < 1 THEN Err
          ELSE LET c == Cb(cb0 - cbOffset) IN
               IF ~c[1] THEN Err
               ELSE Got(Mouse(IF final = 109 /\ c[2] = "Down" THEN "Up" ELSE c[2], c[3], col - 1, row - 1, c[4]))

NormalMouse(b4, b5, b6) ==
  IF b4 < 32 THEN Err
  ELSE LET c == Cb(b4 - 32) IN
       IF ~c[1] \/ b5 < 33 \/ b6 < 33 THEN Err ELSE Got(Mouse(c[2], c[3], b5 - 33, b6 - 33, c[4]))

\* the match of parse_csi on (body, final byte), arm by arm and in its order
ClassifyCsi(body, f) ==
  IF body = <<>> /\ f \in {65, 66, 67, 68, 70, 72, 80, 81, 83} THEN Got(Key(FinalKey(f), 0))
  ELSE IF body = <<>> /\ f = 73 THEN Got(Ev("focus", <<"Gained", 0>>, 0, 0, 0, <<>>))
  ELSE IF body = <<>> /\ f = 79 THEN Got(Ev("focus", <<"Lost", 0>>, 0, 0, 0, <<>>))
  ELSE IF body = <<>> /\ f = 90 THEN Got(Key(<<"BackTab", 0>>, SHIFT))
  ELSE IF f = 82 /\ Contains(body, 59) THEN Got(Ignored)
  ELSE IF f \in {65, 66, 67, 68, 70, 72, 80, 81, 82, 83} THEN ModifiedKey(body, f)
  ELSE IF f \in {77, 109} /\ StartsWith(body, <<60>>) THEN MouseFields(Tail(body), 0, f)
  ELSE IF f = 77 /\ Contains(body, 59) THEN MouseFields(body, 32, f)
  ELSE IF f = 126 THEN SpecialKey(body)
  ELSE IF f = 117 /\ StartsWith(body, <<63>>) THEN Got(Ignored)
  ELSE IF f = 117 THEN KittyKey(body)
  ELSE IF f = 99 /\ StartsWith(body, <<63>>) THEN Got(Ignored)
  ELSE Err

Ss3Key(x) ==
  IF x \in {65, 66, 67, 68, 70, 72} THEN Got(Key(FinalKey(x), 0))
  ELSE IF x \in 80..83 THEN Got(Key(<<"F", 1 + x - 80>>, 0))
  ELSE Err

CharKey(cp) == Got(Key(<<"Char", cp>>, IF IsUpper(cp) THEN SHIFT ELSE 0))

\* first byte is none of the ESC arms: the single byte arms of parse_event; <<>> = go on to parse_utf8
SingleByte(f) ==
  IF f = 13 THEN Got(Key(<<"Enter", 0>>, 0))
  ELSE IF f = 10 /\ ~RawMode THEN Got(Key(<<"Enter", 0>>, 0))
  ELSE IF f = 9 THEN Got(Key(<<"Tab", 0>>, 0))
  ELSE IF f = 127 THEN Got(Key(<<"Backspace", 0>>, 0))
  ELSE IF f = 0 THEN Got(Key(<<"Char", 32>>, CONTROL))
  ELSE IF f \in 1..26 THEN Got(Key(<<"Char", f - 1 + 97>>, CONTROL))
  ELSE IF f \in 28..31 THEN Got(Key(<<"Char", f - 28 + 52>>, CONTROL))
  ELSE More    \* placeholder: not a single byte arm

Utf8Width(f) == IF f < 128 THEN 1 ELSE IF f \in 194..223 THEN 2 ELSE IF f \in 224..239 THEN 3 ELSE IF f \in 240..244 THEN 4 ELSE 0

AddAlt(r) == IF r.r = "ev" /\ r.e.t = "key" THEN Got([r.e EXCEPT !.m = OrMask(@, ALT)]) ELSE r

\* ================================================================= code shaped: parse.rs
Idx(b, i) == IF i \in 1..Len(b) THEN b[i] ELSE 0 - 1          \* buffer[i-1]; -1 = index out of bounds (panic)

ParseUtf8(b) ==
  IF DecodeOne(b) >= 0 THEN CharKey(DecodeOne(b))
  ELSE IF Idx(b, 1) < 0 THEN Panic
  ELSE LET w == Utf8Width(b[1]) IN
       IF w = 0 THEN Err
       ELSE IF \E i \in 2..Len(b) : ~IsCont(b[i]) THEN Err
       ELSE IF Len(b) < w THEN More ELSE Err

ParsePlain(b) ==     \* parse_event with a first byte that is not ESC
  IF Idx(b, 1) < 0 THEN Panic
  ELSE LET s == SingleByte(b[1]) IN IF s.r = "ev" THEN s ELSE ParseUtf8(b)

ParseSs3(b) == IF Len(b) < 3 THEN More ELSE Ss3Key(b[3])

ParsePaste(b) ==
  IF ~EndsWith(b, PASTE_END) THEN More
  ELSE LET from == 6   to == Len(b) - 6 IN            \* &buffer[PASTE_START.len()..buffer.len() - PASTE_END.len()]
       IF Len(b) < 6 \/ from > to THEN Panic
       ELSE Got(Ev("paste", <<"", 0>>, 0, 0, 0, SubSeq(b, from + 1, to)))

ParseNormalMouse(b) ==
  IF Len(b) < (IF Mut = "mouse_len" THEN 5 ELSE 6) THEN More
  ELSE IF Idx(b, 4) < 0 \/ Idx(b, 5) < 0 \/ Idx(b, 6) < 0 THEN Panic
  ELSE NormalMouse(b[4], b[5], b[6])

ParseCsi(b) ==
  IF StartsWith(b, PASTE_START) THEN ParsePaste(b)
  ELSE IF StartsWith(b, <<27, 91, 77>>) THEN ParseNormalMouse(b)
  ELSE IF Len(b) = 2 /\ Mut # "no_len2" THEN More
  ELSE LET f == b[Len(b)] IN
       IF ~(f \in 64..126) THEN More
       ELSE IF Len(b) - 1 < 2 THEN Panic                \* &buffer[2..buffer.len() - 1]
       ELSE ClassifyCsi(SubSeq(b, 3, Len(b) - 1), f)

ParseEvent(b, avail) ==
  IF Len(b) = 0 THEN More
  ELSE IF b[1] = ESC /\ Len(b) = 1 THEN (IF avail THEN More ELSE Got(Key(<<"Esc", 0>>, 0)))
  ELSE IF b[1] = ESC THEN
       (IF Idx(b, 2) < 0 THEN Panic
        ELSE IF b[2] = LB THEN ParseCsi(b)
        ELSE IF b[2] = 79 THEN ParseSs3(b)
        ELSE IF b[2] = ESC /\ Mut # "esc_esc_keeps" THEN Got(Key(<<"Esc", 0>>, 0))
        ELSE AddAlt(ParsePlain(Tail(b))))
  ELSE ParsePlain(b)

\* Parser::advance, one iteration of its loop
Push(st, byte) ==
  LET b2 == Append(st.buf, byte)
      r == ParseEvent(b2, TRUE)
  IN CASE r.r = "ev" -> [st EXCEPT !.buf = IF Mut = "keep_after_event" THEN <<byte>> ELSE <<>>, !.out = Append(@, r.e)]
       [] r.r = "more" -> [st EXCEPT !.buf = b2]
       [] r.r = "err" -> [st EXCEPT !.buf = <<>>]
       [] OTHER -> [st EXCEPT !.panic = TRUE]

RECURSIVE Advance(_, _)
Advance(st, bytes) == IF bytes = <<>> \/ st.panic THEN st ELSE Advance(Push(st, Head(bytes)), Tail(bytes))

\* Parser::resolve_escape
Resolve(st) ==
  LET r == ParseEvent(st.buf, FALSE) IN
  CASE r.r = "ev" -> [st EXCEPT !.buf = <<>>, !.out = Append(@, r.e)]
    [] r.r = "more" -> st
    [] r.r = "err" -> [st EXCEPT !.buf = <<>>]
    [] OTHER -> [st EXCEPT !.panic = TRUE]

\* ================================================================= reference: the whole input at once
Tok(n, r) == [len |-> n, r |-> r]
Inc == [len |-> 0, r |-> More]

RefPlain(s, i) ==
  LET n == Len(s) - i + 1
      f == s[i]
      sb == SingleByte(f)
  IN IF sb.r = "ev" THEN Tok(1, sb)
     ELSE LET w == Utf8Width(f) IN
          IF w = 0 THEN Tok(1, Err)
          ELSE LET bad == {k \in 1..MinN(w - 1, n - 1) : ~IsCont(s[i + k])} IN
               IF bad # {} THEN Tok(Min(bad) + 1, Err)
               ELSE IF n < w THEN Inc
               ELSE LET cp == DecodeOne(SubSeq(s, i, i + w - 1)) IN Tok(w, IF cp >= 0 THEN CharKey(cp) ELSE Err)

RefCsi(s, i) ==
  LET n == Len(s) - i + 1 IN
  IF n >= 3 /\ s[i + 2] = 77 THEN (IF n < 6 THEN Inc ELSE Tok(6, NormalMouse(s[i + 3], s[i + 4], s[i + 5])))
  ELSE LET fins == {k \in 2..n - 1 : s[i + k] \in 64..126} IN
       IF fins = {} THEN Inc
       ELSE LET k == Min(fins) IN
            IF SubSeq(s, i, i + k) = PASTE_START THEN
               LET ends == {j \in 6..n - 6 : SubSeq(s, i + j, i + j + 5) = PASTE_END} IN
               IF ends = {} THEN Inc
               ELSE LET j == Min(ends) IN Tok(j + 6, Got(Ev("paste", <<"", 0>>, 0, 0, 0, SubSeq(s, i + 6, i + j - 1))))
            ELSE Tok(k + 1, ClassifyCsi(SubSeq(s, i + 2, i + k - 1), s[i + k]))

RefTok(s, i) ==
  LET n == Len(s) - i + 1 IN
  IF s[i] # ESC THEN RefPlain(s, i)
  ELSE IF n = 1 THEN Inc
  ELSE IF s[i + 1] = LB THEN RefCsi(s, i)
  ELSE IF s[i + 1] = 79 THEN (IF n < 3 THEN Inc ELSE Tok(3, Ss3Key(s[i + 2])))
  ELSE IF s[i + 1] = ESC THEN Tok(2, Got(Key(<<"Esc", 0>>, 0)))
  ELSE LET t == RefPlain(s, i + 1) IN IF t.len = 0 THEN Inc ELSE Tok(t.len + 1, AddAlt(t.r))

\* sequence of [end, r] of the complete tokens of s from position i on
RECURSIVE RefLex(_, _)
RefLex(s, i) ==
  IF i > Len(s) THEN <<>>
  ELSE LET t == RefTok(s, i) IN
       IF t.len = 0 THEN <<>> ELSE <<[end |-> i + t.len - 1, r |-> t.r]>> \o RefLex(s, i + t.len)

RECURSIVE EvsOf(_)
EvsOf(L) == IF L = <<>> THEN <<>> ELSE (IF L[1].r.r = "ev" THEN <<L[1].r.e>> ELSE <<>>) \o EvsOf(Tail(L))

\* ================================================================= the stream: reads, escape timer, end of input
\* A read of n bytes = n times ReadByte (one iteration of the loop of Parser::advance) and one ReadEnd
\* (update_escape_timer after ReadState::Data); the escape timer is looked at between reads only.
LexFrom(p) == RefLex(SubSeq(input, p + 1, Len(input)), 1)

Init == /\ input \in Inputs /\ pos = 0 /\ buf = <<>> /\ out = <<>> /\ panic = FALSE /\ rd = FALSE
        /\ timer = "none" /\ timerEsc = 0 /\ closed = FALSE /\ seg0 = 0 /\ nOutSeg = 0
        /\ ref = LexFrom(0)

ReadByte ==
  /\ ~closed /\ ~panic /\ pos < Len(input)
  /\ LET st == Push([buf |-> buf, out |-> out, panic |-> FALSE], input[pos + 1]) IN
     /\ buf' = st.buf /\ out' = st.out /\ panic' = st.panic
  /\ pos' = pos + 1 /\ rd' = TRUE
  /\ UNCHANGED <<input, closed, seg0, nOutSeg, timer, timerEsc, ref>>

\* update_escape_timer
ReadEnd ==
  /\ rd /\ ~panic
  /\ rd' = FALSE
  /\ IF buf # <<ESC>> THEN /\ timer' = "none" /\ timerEsc' = 0
     ELSE IF timer = "none" \/ FixStaleTimer THEN /\ timer' = "armed" /\ timerEsc' = pos
     ELSE UNCHANGED <<timer, timerEsc>>               \* StaleTimerKept: the timer of an earlier ESC goes on running
  /\ UNCHANGED <<input, pos, buf, out, panic, closed, seg0, nOutSeg, ref>>

\* the escape timer expires: poll_escape_timer -> Parser::resolve_escape
Timeout ==
  /\ timer = "armed" /\ ~rd /\ ~closed /\ ~panic
  /\ LET st == Resolve([buf |-> buf, out |-> out, panic |-> FALSE]) IN
     /\ buf' = st.buf /\ out' = st.out /\ panic' = st.panic
  /\ timer' = "none" /\ timerEsc' = 0 /\ rd' = FALSE
  /\ seg0' = pos /\ nOutSeg' = Len(out') /\ ref' = LexFrom(pos)
  /\ UNCHANGED <<input, pos, closed>>

\* ReadState::Closed (a zero length read): resolve_escape, the stream ends
Close ==
  /\ ~closed /\ ~rd /\ ~panic /\ pos = Len(input)
  /\ LET st == Resolve([buf |-> buf, out |-> out, panic |-> FALSE]) IN
     /\ buf' = st.buf /\ out' = st.out /\ panic' = st.panic
  /\ closed' = TRUE /\ timer' = "none" /\ timerEsc' = 0 /\ rd' = FALSE
  /\ UNCHANGED <<input, pos, seg0, nOutSeg, ref>>

Next == ReadByte \/ ReadEnd \/ Timeout \/ Close
Spec == Init /\ [][Next]_vars
FairSpec == Spec /\ WF_vars(ReadByte) /\ WF_vars(ReadEnd) /\ WF_vars(Close)

\* ---------------------------------------------------------------- properties
TypeOK == /\ pos \in 0..Len(input) /\ rd \in BOOLEAN /\ timer \in {"none", "armed"} /\ closed \in BOOLEAN /\ panic \in BOOLEAN
          /\ seg0 \in 0..pos /\ nOutSeg \in 0..Len(out)

NoPanic == ~panic

TimerOnlyForEsc == (timer = "armed" /\ ~rd) => buf = <<ESC>>
EscAlwaysTimed == (~closed /\ ~rd /\ buf = <<ESC>>) => timer = "armed"
\* strict: the running timer was started for the ESC that is waiting (violated by the pinned code: StaleTimerKept)
TimerFresh == (timer = "armed" /\ ~rd) => timerEsc = pos

\* the fragmentation property
CutIsNeedMore ==
  ~panic =>
  LET s == SubSeq(input, seg0 + 1, Len(input))
      L == ref
      done == SelectSeq(L, LAMBDA t : t.end <= pos - seg0)
      lastEnd == IF done = <<>> THEN 0 ELSE done[Len(done)].end
      rest == SubSeq(s, lastEnd + 1, pos - seg0)
      mine == SubSeq(out, nOutSeg + 1, Len(out))
  IN IF ~closed THEN EvsOf(done) = mine /\ buf = rest
     ELSE IF rest = <<ESC>> THEN mine = EvsOf(done) \o <<Key(<<"Esc", 0>>, 0)>> /\ buf = <<>>
     ELSE mine = EvsOf(done) /\ buf = rest

InPaste(b) == StartsWith(b, PASTE_START) \/ StartsWith(PASTE_START, b)
CsiParams(b) == Len(b) >= 2 /\ b[1] = ESC /\ b[2] = LB /\ \A i \in 3..Len(b) : ~(b[i] \in 64..126)
BufferBounded == Len(buf) <= MaxTok \/ InPaste(buf) \/ (AllowLongCsi /\ CsiParams(buf))
\* apart from a paste and a control sequence in progress the buffer holds at most ESC + one character
BufferShort == (buf # <<>> /\ ~InPaste(buf) /\ ~(Len(buf) >= 2 /\ buf[1] = ESC /\ buf[2] = LB)) => Len(buf) <= 4

\* every step consumes input, resolves the timer or ends the stream
Measure == (Len(input) - pos) * 8 + (IF rd THEN 4 ELSE 0) + (IF timer = "armed" THEN 1 ELSE 0) + (IF closed THEN 0 ELSE 2)
Progress == [][Measure' < Measure]_vars

Terminates == <>(closed \/ panic)
=============================================================================
