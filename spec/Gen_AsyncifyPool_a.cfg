CONSTANTS
  Limit = 1
  Jobs = {"j1", "j2"}
  Disp = {"D1"}
  NW = 2
  PanicJobs = {"j2"}
  Caught = FALSE
  DriverLoop = FALSE
  Fix = TRUE
  TimedFifo = TRUE
  MaxLen = 40
  NoTimeout = FALSE
SPECIFICATION ESpec
