\* registry: two racing named spawns (start-up may fail), lookups, stop
CONSTANTS
  Actors = {1, 2}
  Procs = {0, 1, 2}
  Names = {"N"}
  Caps = {1}
  Kinds = {}
  Spawners = {0, 1}
  Senders = {}
  Stoppers = {0}
  Lookers = {2}
  GSenders = {}
  Joiners = {}
  Prestarted = {}
  Prejoined = FALSE
  InitialActors = {1, 2}
  Replacements = {}
  MsgsPer = 0
  StopsPer = 1
  LooksPer = 2
  JoinsPer = 0
  SupChoices = {FALSE}
  SupProc = 99
  SupCap = 1
  PreMayFail = TRUE
  PostMayFail = TRUE
  StopHooksMayFail = FALSE
  DrainOnClose = FALSE
  ReportBeforeRelease = FALSE
  ReserveIgnoresStarting = FALSE
SPECIFICATION Spec
INVARIANTS TypeOK SerialFifo Conservation HandlingOnlyWhileRunning HookOrder CallSound RegistrySound FailedStartFreesName SupervisionSound GroupExactlyOne GroupLockSound GroupTriesEachOnce
