CONSTANTS
  Readers = {r1, r2}
  Writers = {w1, w2}
  MaxWrites = 2
  MaxReads = 2
  Perpetual = FALSE
  Muts <- MutsNone
SPECIFICATION FairSpec
INVARIANTS Safe
PROPERTIES StoreTerminates ReadTerminates
