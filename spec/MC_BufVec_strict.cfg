CONSTANTS
  N = 2
  Caps = {1, 2}
  MaxSteps = 3
SPECIFICATION Spec
INVARIANTS Contract
