CONSTANTS
  Setup = "hot"
  NW = 1
  SyncCap = 1
  MaxTicks = 2
  MaxJPolls = 2
  MaxWakes = 1
  JCmds = {"poll", "hdrop", "cancel"}
  HCmds = {"tick", "clear", "execdrop"}
  Spurious = TRUE
  Strict = TRUE
  Fix = {"D10a", "D10b", "D11", "D12"}
  MaxLen = 80
SPECIFICATION GSpec
INVARIANTS Emit
