CONSTANTS
  Setup = "hot"
  NW = 1
  SyncCap = 1
  MaxTicks = 2
  MaxJPolls = 2
  MaxWakes = 1
  JCmds = {"poll", "hdrop", "cancel"}
  HCmds = {"tick", "clear", "execdrop"}
  Spurious = TRUE
  Strict = FALSE
  Fix = {}
  MaxLen = 70
SPECIFICATION GSpec
INVARIANTS Emit
