CONSTANTS
  Threads = {1, 2}
  Layouts <- LayoutsTwoA
  Muts <- MutsNone
  Sigs = {"a", "b"}
  BadSigs = {"k"}
  MaxRaise = 2
  RaiseOn = {0, 1}
  SpuriousPolls = FALSE
  FixLeak = FALSE
  MaxNL = 3
SPECIFICATION Spec
INVARIANTS Safe CurrentAlive NoCross Delivered NoSpurious WakeBound RegisteredImpliesHandler DispConsistent SlabExactModuloKnown KeysRight LockBalanced MutexOwned HandlerWaitFree AliveBound
