CONSTANTS
  Threads = {1, 2}
  Layouts <- LayoutsGenRt
  Muts <- MutsNone
  Sigs = {"a", "b"}
  BadSigs = {"k"}
  MaxRaise = 2
  RaiseOn = {0, 1, 2}
  SpuriousPolls = FALSE
  FixLeak = FALSE
  MaxNL = 3
  MaxSteps = 6
  AutoPoll = TRUE
  AllowPark = FALSE
  EmitAll = TRUE
SPECIFICATION GSpec
INVARIANTS GenSafe Emit
VIEW CoverView
