CONSTANTS
  RW = {"a"}
  WW = {}
  Kinds = {"ready", "io"}
  TokModes = {"no"}
  MaxPW = 2
  MaxFill = 0
  AllowShut = TRUE
  Eager = TRUE
  Strict = FALSE
  Mut = "none"
  Driver = "any"
  MaxSteps = 12
SPECIFICATION GSpec
VIEW GView
INVARIANTS Emit NoErr
