CONSTANTS
  Cfgs <- CfgsQuick
  Side = "w"
  MaxSrc = 5
  MaxAcc = 6
  MaxSrcA = 5
  MaxAccA = 3
  Sizes = {0, 1, 3}
  Ks = {1, 2, 3}
  Fuel = 3
  Detail = TRUE
  OldReadLimit = FALSE
  WakeAll = TRUE
  MaxSteps = 40
  Cover = TRUE
  UninitSizes = {3}
SPECIFICATION GSpec
INVARIANTS ReadFifo WriteFifo WriteLimit ReadLimitStrict LimitReported RWakeCover WWakeCover Sane Emit
VIEW CoverView
