CONSTANTS
  K = 2
  EchoBuf = 1
  NIns = {0, 4, 6}
  NOuts = {0}
  NErrs = {0}
  WChunks = {0, 2}
  RChunks = {0, 1}
  IoStatuses = {"c0"}
  Codes = {"c0"}
  Sigs = {"s9"}
  Drivers = {"poll"}
  Impls = {"blocking"}
  Families = {"echo"}
  BlockingChildPipes = TRUE
SPECIFICATION Spec
INVARIANTS TypeOK NoDeadlockStrict
