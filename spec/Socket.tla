------------------------------- MODULE Socket -------------------------------
(* C14 - Socket transports deliver exactly what was sent.

   Three parts, selected by the constant Part in the exhaustive configurations and all
   available to the trace specification (Trace_Socket):

   "stream"  one connected stream socket pair (TCP / Unix stream). Per direction d the transport
             is a FIFO of bytes q[d]. Bytes are not modelled by value but by their position in
             the writer's pattern space: a run <<off, len>> stands for the bytes the writer put
             at offsets off .. off+len-1 (the recorder fills every buffer with bytes that encode
             exactly this offset, so loss, duplication, reordering and misplacement are visible).
             One action per operation kind whose code path differs in compio-net /
             compio-driver: plain, vectored, zero-copy send; plain, vectored, managed-buffer,
             ancillary (recvmsg) receive; multishot receive stream; shutdown; split halves.
   "dgram"   datagram sockets: per socket a queue of <<uid, len, src>>; receive cuts to the
             buffer capacity and flags the cut where the call reports flags.
   "listen"  a listener: backlog queue of established connections; single accept and the
             multishot incoming stream yield each connection exactly once.

   Recorded deviations of the pinned implementation (named, switchable, see notes/C14.md):
     DevMultiDrop     io_uring: dropping a multishot receive stream before its end discards the
                      bytes / datagrams that completed into the operation but were not yet
                      yielded (MultiDrop with a non-empty mq).
     DevIncomingDrop  io_uring: dropping the incoming stream closes connections that the
                      multishot accept already took from the backlog but did not yield.
     DevManagedEmpty  a zero length datagram received with a managed-buffer call that reports a
                      source is returned as "nothing" (None): its source address is not delivered.
     DevPollMultiLen  polling driver in a build with both drivers: the multishot items that carry
                      their own payload length (RecvFromMulti / RecvMsgMulti results) report an
                      empty payload although the receive consumed bytes (the length recorded by
                      set_result is not forwarded to the fallback operation).
   With a deviation switched off the corresponding action has the ideal effect. *)
EXTENDS Integers, Sequences, FiniteSets, TLC

CONSTANTS
  Drvs,             \* drivers explored: subset of {"iour", "poll"}
  PoolBuf,          \* length of one buffer of the managed buffer pool
  MaxDgram,         \* largest datagram payload the transport accepts
  DevMultiDrop, DevIncomingDrop, DevManagedEmpty, DevPollMultiLen,
  \* ---- bounds of the exhaustive configurations only (actions themselves are unbounded)
  Part,             \* "stream" | "dgram" | "listen"
  Feat,             \* operation groups enabled next to the plain ones: subset of {"vec", "zc", "managed", "msg", "multi", "split"}
  Sizes,            \* send sizes
  Caps,             \* receive buffer capacities / managed length arguments
  SockBuf,          \* bytes the transport queues per direction (sends beyond it are partial)
  MaxOff,           \* pattern space per direction: the sizes of all send buffers add up to at most this
  Dirs,             \* directions explored (subset of {1, 2})
  Conns,            \* connection ids of the listener part
  DgSocks,          \* sending sockets of the datagram part (the receiver is "b")
  MaxDg             \* datagrams sent per socket

VARIABLES
  drv,      \* driver of this run
  \* ---- stream part, per direction d (1: a -> b, 2: b -> a)
  q,        \* q[d]: runs queued in the transport (accepted from the writer, not yet delivered)
  mq,       \* mq[d]: chunks completed into an armed multishot receive (io_uring) and not yet yielded;
            \*        a chunk is a sequence of runs, <<>> is the end-of-stream completion
  marm,     \* marm[d]: "off" | "armed" (io_uring, operation in flight) | "idle" (polling, between items)
            \*        | "term" (io_uring, kernel terminated the multishot: resubmit on next poll)
  mlen,     \* mlen[d]: effective capacity of each multishot item
  manc,     \* manc[d]: the stream yields ancillary results (RecvMsgMulti) that carry their own payload length
  shut,     \* shut[d]: the writer half-closed
  eofseen,  \* eofseen[d]: the reader observed end of stream
  wnext,    \* wnext[d]: pattern offset of the first byte of the next send buffer
  zc,       \* zc[d]: "none" | "lent" (kernel may still read the buffer) | "released"
  hnd,      \* hnd[p]: live owned handles of peer p's descriptor (0 = closed)
  sent, seen, got, lost,   \* histories per direction (runs): accepted / left the transport / yielded / discarded
  \* ---- datagram part
  dq,       \* dq[s]: queue of datagrams <<uid, len, src>> waiting at socket s
  dmq,      \* dmq[s]: datagrams completed into an armed multishot receive, not yet yielded
  dmarm,    \* dmarm[s]: as marm
  dsent, dgot, dlost, duid,
  \* ---- listener part
  connecting, backlog, aq, inc, accepted, lostc,
  \* ---- observable result of the last operation (what the API returned)
  ret

svars == <<q, mq, marm, mlen, manc, shut, eofseen, wnext, zc, hnd, sent, seen, got, lost>>
dvars == <<dq, dmq, dmarm, dsent, dgot, dlost, duid>>
lvars == <<connecting, backlog, aq, inc, accepted, lostc>>
vars  == <<drv, svars, dvars, lvars, ret>>
mcview == <<drv, svars, dvars, lvars>>      \* exhaustive configurations: the last result is not part of the state identity

Min(a, b) == IF a <= b THEN a ELSE b
AllDirs == {1, 2}
Peers == {"a", "b"}
W(d) == IF d = 1 THEN "a" ELSE "b"      \* writer of direction d
R(d) == IF d = 1 THEN "b" ELSE "a"      \* reader of direction d

-----------------------------------------------------------------------------
(* Runs: normalised sequences of <<off, len>> with len > 0 and adjacent runs not contiguous. *)
RECURSIVE RLen(_)
RLen(rs) == IF rs = <<>> THEN 0 ELSE Head(rs)[2] + RLen(Tail(rs))

Push(rs, r) ==
  IF r[2] = 0 THEN rs
  ELSE IF rs # <<>> /\ rs[Len(rs)][1] >= 0 /\ rs[Len(rs)][1] + rs[Len(rs)][2] = r[1]
       THEN [rs EXCEPT ![Len(rs)] = <<@[1], @[2] + r[2]>>]
       ELSE Append(rs, r)

RECURSIVE RCat(_, _)
RCat(a, b) == IF b = <<>> THEN a ELSE RCat(Push(a, Head(b)), Tail(b))

RECURSIVE RTake(_, _)
RTake(rs, k) ==
  IF k = 0 \/ rs = <<>> THEN <<>>
  ELSE IF Head(rs)[2] <= k THEN <<Head(rs)>> \o RTake(Tail(rs), k - Head(rs)[2])
       ELSE << <<Head(rs)[1], k>> >>

RECURSIVE RDrop(_, _)
RDrop(rs, k) ==
  IF k = 0 \/ rs = <<>> THEN rs
  ELSE IF Head(rs)[2] <= k THEN RDrop(Tail(rs), k - Head(rs)[2])
       ELSE << <<Head(rs)[1] + k, Head(rs)[2] - k>> >> \o Tail(rs)

RECURSIVE Flat(_)
Flat(chunks) == IF chunks = <<>> THEN <<>> ELSE RCat(Head(chunks), Flat(Tail(chunks)))

(* Effective capacity of a managed / multishot receive with length argument len. *)
EffCap(len) == IF len = 0 THEN PoolBuf ELSE Min(len, PoolBuf)

NoRet == [op |-> "none"]

-----------------------------------------------------------------------------
(* ------------------------------- stream part ------------------------------ *)

(* The transport accepts the first k bytes of a buffer of n bytes whose first byte has pattern
   offset wnext[d]. The next buffer starts at wnext[d] + n whether or not everything was taken
   (the writer does not retry: what was not accepted is simply never sent). *)
Accept(d, n, k) ==
  /\ hnd[W(d)] > 0 /\ ~shut[d]
  /\ k \in 0..n /\ (n > 0 => k > 0)
  /\ q' = [q EXCEPT ![d] = Push(@, <<wnext[d], k>>)]
  /\ sent' = [sent EXCEPT ![d] = Push(@, <<wnext[d], k>>)]
  /\ wnext' = [wnext EXCEPT ![d] = @ + n]

(* op/send: Send (io_uring opcode::Send / send(2)), also SendMsg with one buffer *)
SendPlain(d, n, k) ==
  /\ Accept(d, n, k)
  /\ ret' = [op |-> "send", k |-> k, back |-> TRUE]
  /\ UNCHANGED <<drv, mq, marm, mlen, manc, shut, eofseen, zc, hnd, seen, got, lost, dvars, lvars>>

(* op/sendv: SendVectored / SendMsg - the members are laid out in order, the accepted bytes are
   a prefix of their concatenation *)
SendVectored(d, n1, n2, k) ==
  /\ Accept(d, n1 + n2, k)
  /\ ret' = [op |-> "sendv", k |-> k, back |-> TRUE,
             parts |-> <<Min(k, n1), k - Min(k, n1)>>]      \* bytes taken from each member
  /\ UNCHANGED <<drv, mq, marm, mlen, manc, shut, eofseen, zc, hnd, seen, got, lost, dvars, lvars>>

(* op/zc: SendZc - the result comes first, the buffer stays lent to the kernel until the
   notification (io_uring). The polling driver has no zero-copy: SendZc is Send, the buffer is
   released at once. *)
ZcSend(d, n, k) ==
  /\ zc[d] = "none"
  /\ Accept(d, n, k)
  /\ zc' = [zc EXCEPT ![d] = IF drv = "iour" THEN "lent" ELSE "released"]
  /\ ret' = [op |-> "zc", k |-> k, back |-> FALSE]
  /\ UNCHANGED <<drv, mq, marm, mlen, manc, shut, eofseen, hnd, seen, got, lost, dvars, lvars>>

(* op/zcv: SendVectoredZc / SendMsgZc with several members *)
ZcSendVectored(d, n1, n2, k) ==
  /\ zc[d] = "none"
  /\ Accept(d, n1 + n2, k)
  /\ zc' = [zc EXCEPT ![d] = IF drv = "iour" THEN "lent" ELSE "released"]
  /\ ret' = [op |-> "zcv", k |-> k, back |-> FALSE, parts |-> <<Min(k, n1), k - Min(k, n1)>>]
  /\ UNCHANGED <<drv, mq, marm, mlen, manc, shut, eofseen, hnd, seen, got, lost, dvars, lvars>>

(* zero-copy is not available for this socket (Unix sockets, io_uring): nothing is sent *)
ZcUnsupported(d, n) ==
  /\ zc[d] = "none" /\ drv = "iour" /\ hnd[W(d)] > 0 /\ ~shut[d]
  /\ wnext' = [wnext EXCEPT ![d] = @ + n]
  /\ zc' = [zc EXCEPT ![d] = "released"]
  /\ ret' = [op |-> "zc", k |-> 0, back |-> FALSE, unsupported |-> TRUE]
  /\ UNCHANGED <<drv, q, mq, marm, mlen, manc, shut, eofseen, hnd, sent, seen, got, lost, dvars, lvars>>

(* kernel: the second completion of the zero-copy send *)
ZcNotify(d) ==
  /\ zc[d] = "lent"
  /\ zc' = [zc EXCEPT ![d] = "released"]
  /\ UNCHANGED <<drv, q, mq, marm, mlen, manc, shut, eofseen, wnext, hnd, sent, seen, got, lost, dvars, lvars, ret>>

(* the Zerocopy future resolves: the buffer is handed back, only after the notification *)
ZcReturn(d) ==
  /\ zc[d] = "released"
  /\ zc' = [zc EXCEPT ![d] = "none"]
  /\ ret' = [op |-> "zcwait", back |-> TRUE, d |-> d]
  /\ UNCHANGED <<drv, q, mq, marm, mlen, manc, shut, eofseen, wnext, hnd, sent, seen, got, lost, dvars, lvars>>

(* op/shutdown: ShutdownSocket(Write) *)
Shutdown(d) ==
  /\ hnd[W(d)] > 0 /\ ~shut[d]
  /\ shut' = [shut EXCEPT ![d] = TRUE]
  /\ ret' = [op |-> "shutdown"]
  /\ UNCHANGED <<drv, q, mq, marm, mlen, manc, eofseen, wnext, zc, hnd, sent, seen, got, lost, dvars, lvars>>

(* k bytes leave the head of the queue into a buffer of capacity cap. Zero only for a zero
   capacity or at the end of the stream (half-closed and drained). *)
Deliver(d, cap, k) ==
  /\ hnd[R(d)] > 0 /\ marm[d] = "off"
  /\ k \in 0..cap /\ k <= RLen(q[d])
  /\ (k = 0 => (cap = 0 \/ (q[d] = <<>> /\ shut[d])))
  /\ q' = [q EXCEPT ![d] = RDrop(@, k)]
  /\ seen' = [seen EXCEPT ![d] = RCat(@, RTake(q[d], k))]
  /\ got' = [got EXCEPT ![d] = RCat(@, RTake(q[d], k))]
  /\ eofseen' = [eofseen EXCEPT ![d] = @ \/ (k = 0 /\ cap > 0)]

(* op/recv: Recv; the buffer comes back with length k (map_advanced) *)
RecvPlain(d, cap, k) ==
  /\ Deliver(d, cap, k)
  /\ ret' = [op |-> "recv", k |-> k, runs |-> RTake(q[d], k), len |-> k, eof |-> (k = 0 /\ cap > 0)]
  /\ UNCHANGED <<drv, mq, marm, mlen, manc, shut, wnext, zc, hnd, sent, lost, dvars, lvars>>

(* op/recvv: RecvVectored; the first member is filled before the second (map_vec_advanced) *)
RecvVectored(d, c1, c2, k) ==
  /\ Deliver(d, c1 + c2, k)
  /\ ret' = [op |-> "recvv", k |-> k, runs |-> RTake(q[d], k), len |-> k,
             lens |-> <<Min(k, c1), k - Min(k, c1)>>, eof |-> (k = 0 /\ c1 + c2 > 0)]
  /\ UNCHANGED <<drv, mq, marm, mlen, manc, shut, wnext, zc, hnd, sent, lost, dvars, lvars>>

(* op/managed: RecvManaged; capacity from the pool, "nothing" (None) instead of zero bytes *)
RecvManaged(d, len, k) ==
  /\ Deliver(d, EffCap(len), k)
  /\ ret' = [op |-> "managed", k |-> k, runs |-> RTake(q[d], k), len |-> k, none |-> (k = 0), eof |-> (k = 0)]
  /\ UNCHANGED <<drv, mq, marm, mlen, manc, shut, wnext, zc, hnd, sent, lost, dvars, lvars>>

(* op/msg: RecvMsg with a control buffer; a stream never reports a truncated message *)
RecvMsg(d, c1, c2, k) ==
  /\ Deliver(d, c1 + c2, k)
  /\ ret' = [op |-> "msg", k |-> k, runs |-> RTake(q[d], k), len |-> k,
             lens |-> <<Min(k, c1), k - Min(k, c1)>>, trunc |-> FALSE, eof |-> (k = 0 /\ c1 + c2 > 0)]
  /\ UNCHANGED <<drv, mq, marm, mlen, manc, shut, wnext, zc, hnd, sent, lost, dvars, lvars>>

(* the pool has no free buffer: the managed call fails without consuming anything *)
RecvNoBufs(d) ==
  /\ hnd[R(d)] > 0
  /\ ret' = [op |-> "nobufs"]
  /\ UNCHANGED <<drv, svars, dvars, lvars>>

(* op/multi: first poll of the multishot receive stream (SubmitMultiStream creates the
   operation): io_uring arms RecvMulti / RecvMsgMulti, the polling driver has no operation
   between items. cap = payload capacity of one item; anc = ancillary results (RecvMsgMulti) *)
MultiOpen(d, cap, anc) ==
  /\ hnd[R(d)] > 0 /\ marm[d] = "off"
  /\ marm' = [marm EXCEPT ![d] = IF drv = "iour" THEN "armed" ELSE "idle"]
  /\ mlen' = [mlen EXCEPT ![d] = cap]
  /\ manc' = [manc EXCEPT ![d] = anc]
  /\ ret' = [op |-> "mopen"]
  /\ UNCHANGED <<drv, q, mq, shut, eofseen, wnext, zc, hnd, sent, seen, got, lost, dvars, lvars>>

(* kernel (io_uring): the armed multishot completes once more into a pool buffer *)
KernelPrefetch(d, k) ==
  /\ drv = "iour" /\ marm[d] = "armed"
  /\ k \in 1..Min(mlen[d], RLen(q[d]))
  /\ q' = [q EXCEPT ![d] = RDrop(@, k)]
  /\ mq' = [mq EXCEPT ![d] = Append(@, RTake(q[d], k))]
  /\ UNCHANGED <<drv, marm, mlen, manc, shut, eofseen, wnext, zc, hnd, sent, seen, got, lost, dvars, lvars, ret>>

(* kernel (io_uring): the multishot terminates - end of stream (zero result) or no buffer left *)
KernelTerminate(d, eof) ==
  /\ drv = "iour" /\ marm[d] = "armed"
  /\ (eof => (q[d] = <<>> /\ shut[d]))
  /\ marm' = [marm EXCEPT ![d] = "term"]
  /\ mq' = [mq EXCEPT ![d] = IF eof THEN Append(@, <<>>) ELSE @]
  /\ UNCHANGED <<drv, q, mlen, manc, shut, eofseen, wnext, zc, hnd, sent, seen, got, lost, dvars, lvars, ret>>

(* the stream yields the next item: the oldest completed chunk (io_uring), or a fresh single
   receive (polling); kk bytes leave the transport with it. A plain buffer stream ends at a
   zero length item (Ready(None)); a stream of ancillary results yields the empty item and goes
   on (the consumer sees the end of the byte stream as empty items). DevPollMultiLen (lenlost):
   on the polling driver an ancillary item reports no payload, the kk bytes it consumed are
   gone; the pinned code does this for every such item (PollLenLost). *)
PollLenLost(d, kk) == manc[d] /\ drv = "poll" /\ DevPollMultiLen /\ kk > 0

MultiNext(d, kk, lenlost) ==
  /\ hnd[R(d)] > 0
  /\ (lenlost => manc[d] /\ drv = "poll" /\ DevPollMultiLen /\ kk > 0)
  /\ LET chunk == IF drv = "iour" THEN Head(mq[d]) ELSE RTake(q[d], kk)
         ends == ~manc[d] /\ kk = 0
     IN
     /\ \/ /\ drv = "iour" /\ marm[d] \in {"armed", "term"} /\ mq[d] # <<>>
           /\ kk = RLen(Head(mq[d]))
           /\ mq' = [mq EXCEPT ![d] = Tail(@)]
           /\ UNCHANGED q
        \/ /\ drv = "poll" /\ marm[d] = "idle"
           /\ kk \in 0..mlen[d] /\ kk <= RLen(q[d])
           /\ (kk = 0 => (q[d] = <<>> /\ shut[d]))
           /\ q' = [q EXCEPT ![d] = RDrop(@, kk)]
           /\ UNCHANGED mq
     /\ seen' = [seen EXCEPT ![d] = RCat(@, chunk)]
     /\ IF lenlost
          THEN lost' = [lost EXCEPT ![d] = RCat(@, chunk)] /\ UNCHANGED got
          ELSE got' = [got EXCEPT ![d] = RCat(@, chunk)] /\ UNCHANGED lost
     /\ ret' = [op |-> "mitem", k |-> IF lenlost THEN 0 ELSE kk, runs |-> IF lenlost THEN <<>> ELSE chunk,
                len |-> IF lenlost THEN 0 ELSE kk, end |-> ends, lost |-> IF lenlost THEN kk ELSE 0]
     /\ marm' = [marm EXCEPT ![d] = IF ends THEN "off" ELSE @]
     /\ eofseen' = [eofseen EXCEPT ![d] = @ \/ (kk = 0)]
  /\ UNCHANGED <<drv, mlen, manc, shut, wnext, zc, hnd, sent, dvars, lvars>>

(* the terminated multishot is submitted again on the next poll (SubmitMultiStream: op = None
   -> factory.create()) when everything it completed has been yielded *)
MultiResubmit(d) ==
  /\ drv = "iour" /\ marm[d] = "term" /\ mq[d] = <<>> /\ hnd[R(d)] > 0
  /\ marm' = [marm EXCEPT ![d] = "armed"]
  /\ UNCHANGED <<drv, q, mq, mlen, manc, shut, eofseen, wnext, zc, hnd, sent, seen, got, lost, dvars, lvars, ret>>

(* the consumer drops the stream before its end: the operation is cancelled. *)
MultiDropBase(d) ==
  /\ marm[d] # "off"
  /\ marm' = [marm EXCEPT ![d] = "off"]
  /\ mq' = [mq EXCEPT ![d] = <<>>]
  /\ UNCHANGED <<drv, mlen, manc, shut, eofseen, wnext, zc, hnd, sent, got, dvars, lvars>>

(* nothing had completed into the operation (or the ideal implementation: what completed stays
   receivable) *)
MultiDropClean(d) ==
  /\ MultiDropBase(d)
  /\ (Flat(mq[d]) = <<>> \/ ~DevMultiDrop)
  /\ q' = [q EXCEPT ![d] = RCat(Flat(mq[d]), @)]
  /\ ret' = [op |-> "mdrop", lost |-> 0]
  /\ UNCHANGED <<lost, seen>>

(* DevMultiDrop: chunks that completed but were not yielded are discarded with the operation *)
MultiDropDiscards(d) ==
  /\ MultiDropBase(d)
  /\ DevMultiDrop /\ Flat(mq[d]) # <<>>
  /\ lost' = [lost EXCEPT ![d] = RCat(@, Flat(mq[d]))]
  /\ seen' = [seen EXCEPT ![d] = RCat(@, Flat(mq[d]))]
  /\ ret' = [op |-> "mdrop", lost |-> RLen(Flat(mq[d]))]
  /\ UNCHANGED q

MultiDrop(d) == MultiDropClean(d) \/ MultiDropDiscards(d)

(* split.rs / tcp.rs into_split: a second owned handle of the same descriptor *)
SplitOwned(p) ==
  /\ hnd[p] = 1
  /\ hnd' = [hnd EXCEPT ![p] = 2]
  /\ ret' = [op |-> "split"]
  /\ UNCHANGED <<drv, q, mq, marm, mlen, manc, shut, eofseen, wnext, zc, sent, seen, got, lost, dvars, lvars>>

(* dropping one owned half: the descriptor stays open while the other half lives. Dropping the
   last handle closes it: what the peer did not read yet stays readable for the peer, the
   own direction ends (as a shutdown). Borrowed halves (split(&self)) are references: dropping
   one changes nothing. *)
DropHalf(p) ==
  /\ hnd[p] > 0
  /\ hnd' = [hnd EXCEPT ![p] = @ - 1]
  /\ LET d == IF p = "a" THEN 1 ELSE 2 IN
       shut' = [shut EXCEPT ![d] = @ \/ hnd[p] = 1]
  /\ ret' = [op |-> "drophalf", open |-> (hnd[p] > 1)]
  /\ UNCHANGED <<drv, q, mq, marm, mlen, manc, eofseen, wnext, zc, sent, seen, got, lost, dvars, lvars>>

-----------------------------------------------------------------------------
(* ------------------------------ datagram part ----------------------------- *)

(* op/sendto: SendTo / SendToVectored / SendMsg (+Zc): one datagram, never partial *)
DgSend(s, t, uid, n) ==
  /\ n <= MaxDgram
  /\ dq' = [dq EXCEPT ![t] = Append(@, <<uid, n, s>>)]
  /\ dsent' = dsent \cup {<<uid, n, s, t>>}
  /\ duid' = duid + 1
  /\ ret' = [op |-> "dgsend", k |-> n, uid |-> uid]
  /\ UNCHANGED <<drv, svars, dmq, dmarm, dgot, dlost, lvars>>

DgSendTooBig(s, n) ==
  /\ n > MaxDgram
  /\ ret' = [op |-> "dgsend", err |-> "EMSGSIZE"]
  /\ UNCHANGED <<drv, svars, dvars, lvars>>

(* the kernel drops a queued datagram (receive buffer overflow): allowed for datagrams *)
DgOverflow(t) ==
  /\ dq[t] # <<>>
  /\ dq' = [dq EXCEPT ![t] = Tail(@)]
  /\ dlost' = dlost \cup {Head(dq[t])[1]}
  /\ UNCHANGED <<drv, svars, dmq, dmarm, dsent, dgot, duid, lvars, ret>>

DgResult(h, cap, withsrc, withflags) ==
  [uid |-> h[1], k |-> Min(h[2], cap), cap |-> cap, wsrc |-> withsrc, lenlost |-> FALSE,
   src |-> IF withsrc THEN h[3] ELSE "-",
   trunc |-> IF withflags THEN (IF h[2] > cap THEN 1 ELSE 0) ELSE -1]

(* op/recvfrom: Recv / RecvFrom / RecvFromVectored / RecvMsg: the oldest datagram, cut to the
   capacity (never beyond it), with its source where the call reports one and the truncation
   flag where the call reports flags *)
DgRecv(t, cap, withsrc, withflags) ==
  /\ dq[t] # <<>> /\ dmarm[t] = "off"
  /\ dq' = [dq EXCEPT ![t] = Tail(@)]
  /\ dgot' = [dgot EXCEPT ![t] = Append(@, DgResult(Head(dq[t]), cap, withsrc, withflags))]
  /\ ret' = [op |-> "dgrecv", none |-> FALSE] @@ DgResult(Head(dq[t]), cap, withsrc, withflags)
  /\ UNCHANGED <<drv, svars, dmq, dmarm, dsent, dlost, duid, lvars>>

(* op/fmanaged: RecvManaged / RecvFromManaged / RecvMsgManaged: capacity from the pool; zero
   bytes are returned as "nothing": the source of an empty datagram is not delivered
   (DevManagedEmpty) *)
DgRecvManaged(t, len, withsrc, withflags) ==
  /\ dq[t] # <<>> /\ dmarm[t] = "off"
  /\ LET h == Head(dq[t])
         r == DgResult(h, EffCap(len), withsrc, withflags)
         none == (r.k = 0)
         rr == IF none /\ DevManagedEmpty THEN [r EXCEPT !.src = "-", !.trunc = -1] ELSE r
     IN /\ dgot' = [dgot EXCEPT ![t] = Append(@, rr)]
        /\ ret' = [op |-> "dgrecv", none |-> none] @@ rr
  /\ dq' = [dq EXCEPT ![t] = Tail(@)]
  /\ UNCHANGED <<drv, svars, dmq, dmarm, dsent, dlost, duid, lvars>>

DgMultiOpen(t) ==
  /\ dmarm[t] = "off"
  /\ dmarm' = [dmarm EXCEPT ![t] = IF drv = "iour" THEN "armed" ELSE "idle"]
  /\ ret' = [op |-> "mopen"]
  /\ UNCHANGED <<drv, svars, dq, dmq, dsent, dgot, dlost, duid, lvars>>

DgKernelPrefetch(t) ==
  /\ drv = "iour" /\ dmarm[t] = "armed" /\ dq[t] # <<>>
  /\ dq' = [dq EXCEPT ![t] = Tail(@)]
  /\ dmq' = [dmq EXCEPT ![t] = Append(@, Head(dq[t]))]
  /\ UNCHANGED <<drv, svars, dmarm, dsent, dgot, dlost, duid, lvars, ret>>

(* next item of a multishot datagram stream; payload capacity cap. A plain buffer stream
   (recv_multi) ends at an empty datagram (endonempty), the others (ownlen: results that carry
   their own payload length) yield it. DevPollMultiLen: on the polling driver such a result
   reports an empty payload. *)
DgLenLost(h, cap, ownlen) == ownlen /\ drv = "poll" /\ DevPollMultiLen /\ Min(h[2], cap) > 0
DgItem(h, cap, withsrc, withflags, lenlost) ==
  LET r == DgResult(h, cap, withsrc, withflags) IN
  IF lenlost THEN [r EXCEPT !.k = 0, !.lenlost = TRUE] ELSE r

DgMultiNext(t, cap, withsrc, withflags, ownlen, lenlost) ==
  /\ (lenlost => \/ (drv = "iour" /\ dmq[t] # <<>> /\ DgLenLost(Head(dmq[t]), cap, ownlen))
                 \/ (drv = "poll" /\ dq[t] # <<>> /\ DgLenLost(Head(dq[t]), cap, ownlen)))
  /\ \/ /\ drv = "iour" /\ dmarm[t] = "armed" /\ dmq[t] # <<>>
        /\ LET r == DgItem(Head(dmq[t]), cap, withsrc, withflags, lenlost) IN
             /\ dgot' = [dgot EXCEPT ![t] = Append(@, r)]
             /\ ret' = [op |-> "dgmitem", end |-> (~ownlen /\ r.k = 0)] @@ r
             /\ dmarm' = [dmarm EXCEPT ![t] = IF ~ownlen /\ r.k = 0 THEN "off" ELSE @]
        /\ dmq' = [dmq EXCEPT ![t] = Tail(@)]
        /\ UNCHANGED dq
     \/ /\ drv = "poll" /\ dmarm[t] = "idle" /\ dq[t] # <<>>
        /\ LET r == DgItem(Head(dq[t]), cap, withsrc, withflags, lenlost) IN
             /\ dgot' = [dgot EXCEPT ![t] = Append(@, r)]
             /\ ret' = [op |-> "dgmitem", end |-> (~ownlen /\ r.k = 0)] @@ r
             /\ dmarm' = [dmarm EXCEPT ![t] = IF ~ownlen /\ r.k = 0 THEN "off" ELSE @]
        /\ dq' = [dq EXCEPT ![t] = Tail(@)]
        /\ UNCHANGED dmq
  /\ UNCHANGED <<drv, svars, dsent, dlost, duid, lvars>>

(* dropping the stream discards what completed but was not yielded (datagrams may be lost) *)
DgMultiDrop(t) ==
  /\ dmarm[t] # "off"
  /\ dmarm' = [dmarm EXCEPT ![t] = "off"]
  /\ dlost' = dlost \cup {dmq[t][i][1] : i \in 1..Len(dmq[t])}
  /\ dmq' = [dmq EXCEPT ![t] = <<>>]
  /\ ret' = [op |-> "mdrop", lost |-> Len(dmq[t])]
  /\ UNCHANGED <<drv, svars, dq, dsent, dgot, duid, lvars>>

-----------------------------------------------------------------------------
(* ------------------------------ listener part ----------------------------- *)

Connect(c) ==
  /\ c \notin connecting
  /\ connecting' = connecting \cup {c}
  /\ ret' = [op |-> "connect", conn |-> c]
  /\ UNCHANGED <<drv, svars, dvars, backlog, aq, inc, accepted, lostc>>

(* kernel: the handshake completes, the connection enters the backlog (possibly after the
   client's connect call returned) *)
Establish(c) ==
  /\ c \in connecting
  /\ c \notin {backlog[i] : i \in 1..Len(backlog)} \cup {aq[i] : i \in 1..Len(aq)}
  /\ c \notin {accepted[i] : i \in 1..Len(accepted)} \cup lostc
  /\ backlog' = Append(backlog, c)
  /\ UNCHANGED <<drv, svars, dvars, connecting, aq, inc, accepted, lostc, ret>>

(* op/accept: Accept *)
AcceptSingle ==
  /\ backlog # <<>> /\ inc # "armed"
  /\ backlog' = Tail(backlog)
  /\ accepted' = Append(accepted, Head(backlog))
  /\ ret' = [op |-> "accept", conn |-> Head(backlog)]
  /\ UNCHANGED <<drv, svars, dvars, connecting, aq, inc, lostc>>

(* incoming(): first poll submits AcceptMulti *)
IncomingOpen ==
  /\ inc = "off"
  /\ inc' = IF drv = "iour" THEN "armed" ELSE "idle"
  /\ ret' = [op |-> "incopen"]
  /\ UNCHANGED <<drv, svars, dvars, connecting, backlog, aq, accepted, lostc>>

(* kernel (io_uring): the armed multishot accept takes the next connection *)
KernelAccept ==
  /\ drv = "iour" /\ inc = "armed" /\ backlog # <<>>
  /\ backlog' = Tail(backlog)
  /\ aq' = Append(aq, Head(backlog))
  /\ UNCHANGED <<drv, svars, dvars, connecting, inc, accepted, lostc, ret>>

IncomingNext ==
  /\ \/ /\ drv = "iour" /\ inc = "armed" /\ aq # <<>>
        /\ aq' = Tail(aq)
        /\ accepted' = Append(accepted, Head(aq))
        /\ ret' = [op |-> "accept", conn |-> Head(aq)]
        /\ UNCHANGED backlog
     \/ /\ drv = "poll" /\ inc = "idle" /\ backlog # <<>>
        /\ backlog' = Tail(backlog)
        /\ accepted' = Append(accepted, Head(backlog))
        /\ ret' = [op |-> "accept", conn |-> Head(backlog)]
        /\ UNCHANGED aq
  /\ UNCHANGED <<drv, svars, dvars, connecting, inc, lostc>>

(* dropping the incoming stream cancels the multishot accept *)
IncomingDropClean ==
  /\ inc # "off" /\ (aq = <<>> \/ ~DevIncomingDrop)
  /\ inc' = "off" /\ aq' = <<>>
  /\ backlog' = aq \o backlog
  /\ ret' = [op |-> "incdrop", lost |-> 0]
  /\ UNCHANGED <<drv, svars, dvars, connecting, accepted, lostc>>

(* DevIncomingDrop: connections the multishot accept took but did not yield are closed with the
   operation *)
IncomingDropCloses ==
  /\ inc # "off" /\ aq # <<>> /\ DevIncomingDrop
  /\ inc' = "off" /\ aq' = <<>>
  /\ lostc' = lostc \cup {aq[i] : i \in 1..Len(aq)}
  /\ ret' = [op |-> "incdrop", lost |-> Len(aq)]
  /\ UNCHANGED <<drv, svars, dvars, connecting, accepted, backlog>>

IncomingDrop == IncomingDropClean \/ IncomingDropCloses

-----------------------------------------------------------------------------
InitVars(dr) ==
  /\ drv = dr
  /\ q = [d \in AllDirs |-> <<>>] /\ mq = [d \in AllDirs |-> <<>>]
  /\ marm = [d \in AllDirs |-> "off"] /\ mlen = [d \in AllDirs |-> 0] /\ manc = [d \in AllDirs |-> FALSE]
  /\ shut = [d \in AllDirs |-> FALSE] /\ eofseen = [d \in AllDirs |-> FALSE]
  /\ wnext = [d \in AllDirs |-> 0] /\ zc = [d \in AllDirs |-> "none"]
  /\ hnd = [p \in Peers |-> 1]
  /\ sent = [d \in AllDirs |-> <<>>] /\ seen = [d \in AllDirs |-> <<>>]
  /\ got = [d \in AllDirs |-> <<>>] /\ lost = [d \in AllDirs |-> <<>>]
  /\ dq = [s \in {"a", "b", "c"} |-> <<>>] /\ dmq = [s \in {"a", "b", "c"} |-> <<>>]
  /\ dmarm = [s \in {"a", "b", "c"} |-> "off"]
  /\ dsent = {} /\ dgot = [s \in {"a", "b", "c"} |-> <<>>] /\ dlost = {} /\ duid = 0
  /\ connecting = {} /\ backlog = <<>> /\ aq = <<>> /\ inc = "off" /\ accepted = <<>> /\ lostc = {}
  /\ ret = NoRet

Init == \E dr \in Drvs : InitVars(dr)

(* a new run on fresh sockets (used by the trace specification between programs) *)
Reset(dr) ==
  /\ drv' = dr
  /\ q' = [d \in AllDirs |-> <<>>] /\ mq' = [d \in AllDirs |-> <<>>]
  /\ marm' = [d \in AllDirs |-> "off"] /\ mlen' = [d \in AllDirs |-> 0] /\ manc' = [d \in AllDirs |-> FALSE]
  /\ shut' = [d \in AllDirs |-> FALSE] /\ eofseen' = [d \in AllDirs |-> FALSE]
  /\ wnext' = [d \in AllDirs |-> 0] /\ zc' = [d \in AllDirs |-> "none"]
  /\ hnd' = [p \in Peers |-> 1]
  /\ sent' = [d \in AllDirs |-> <<>>] /\ seen' = [d \in AllDirs |-> <<>>]
  /\ got' = [d \in AllDirs |-> <<>>] /\ lost' = [d \in AllDirs |-> <<>>]
  /\ dq' = [s \in {"a", "b", "c"} |-> <<>>] /\ dmq' = [s \in {"a", "b", "c"} |-> <<>>]
  /\ dmarm' = [s \in {"a", "b", "c"} |-> "off"]
  /\ dsent' = {} /\ dgot' = [s \in {"a", "b", "c"} |-> <<>>] /\ dlost' = {} /\ duid' = 0
  /\ connecting' = {} /\ backlog' = <<>> /\ aq' = <<>> /\ inc' = "off" /\ accepted' = <<>> /\ lostc' = {}
  /\ ret' = NoRet

(* ---- next-state relations of the exhaustive configurations ---- *)
Free(d) == SockBuf - RLen(q[d])

WriterStep(d) ==
  \/ \E n \in Sizes, k \in 0..SockBuf :
       /\ k <= Free(d) /\ wnext[d] + n <= MaxOff
       /\ \/ SendPlain(d, n, k)
          \/ "vec" \in Feat /\ SendVectored(d, n \div 2, n - (n \div 2), k)
          \/ "zc" \in Feat /\ ZcSend(d, n, k)
          \/ "zc" \in Feat /\ "vec" \in Feat /\ ZcSendVectored(d, n \div 2, n - (n \div 2), k)
  \/ ZcReturn(d)
  \/ Shutdown(d)

ReaderStep(d) ==
  \/ \E c \in Caps, k \in 0..SockBuf :
       \/ RecvPlain(d, c, k)
       \/ "vec" \in Feat /\ RecvVectored(d, c \div 2, c - (c \div 2), k)
       \/ "managed" \in Feat /\ RecvManaged(d, c, k)
       \/ "msg" \in Feat /\ RecvMsg(d, c, 0, k)
       \/ MultiNext(d, k, PollLenLost(d, k))
  \/ "multi" \in Feat /\ \E c \in Caps, anc \in BOOLEAN : MultiOpen(d, EffCap(c), anc)
  \/ MultiDrop(d)
  \/ MultiResubmit(d)

KernelStep(d) ==
  \/ ZcNotify(d)
  \/ \E k \in 1..SockBuf : KernelPrefetch(d, k)
  \/ \E e \in BOOLEAN : KernelTerminate(d, e)

HandleStep == "split" \in Feat /\ \E p \in Peers : SplitOwned(p) \/ DropHalf(p)

NextStream == (\E d \in Dirs : WriterStep(d) \/ ReaderStep(d) \/ KernelStep(d)) \/ HandleStep

(* the exhaustive configuration sends from the sockets in DgSocks to socket "b" *)
Reports == {<<TRUE, TRUE>>, <<TRUE, FALSE>>, <<FALSE, FALSE>>}     \* <<source reported, flags reported>>
NextDgram ==
  \/ \E s \in DgSocks, n \in Sizes : duid < MaxDg /\ (DgSend(s, "b", duid + 1, n) \/ DgSendTooBig(s, n))
  \/ \E c \in Caps, w \in Reports :
       \/ DgRecv("b", c, w[1], w[2])
       \/ DgRecvManaged("b", c, w[1], w[2])
       \/ \E ol \in BOOLEAN :
            DgMultiNext("b", EffCap(c), w[1], w[2], ol, dq["b"] # <<>> /\ DgLenLost(Head(dq["b"]), EffCap(c), ol))
  \/ DgMultiOpen("b") \/ DgKernelPrefetch("b") \/ DgMultiDrop("b") \/ DgOverflow("b")

NextListen ==
  \/ \E c \in Conns : Connect(c) \/ Establish(c)
  \/ AcceptSingle \/ IncomingOpen \/ KernelAccept \/ IncomingNext \/ IncomingDrop

Next == CASE Part = "stream" -> NextStream
          [] Part = "dgram"  -> NextDgram
          [] Part = "listen" -> NextListen

Spec == Init /\ [][Next]_vars
SpecStream == Init /\ [][NextStream]_vars
SpecDgram == Init /\ [][NextDgram]_vars
SpecListen == Init /\ [][NextListen]_vars

(* ---- fairness: the kernel keeps working and a reader that is able to take bytes (or the end
   of the stream) eventually does; an acceptor that can accept eventually does ---- *)
Consume(d) ==
  \/ \E c \in Caps \ {0}, k \in 0..SockBuf : (k > 0 \/ (q[d] = <<>> /\ shut[d])) /\ RecvPlain(d, c, k)
  \/ \E k \in 0..SockBuf : MultiNext(d, k, PollLenLost(d, k))

KernelProgress(d) == (\E k \in 1..SockBuf : KernelPrefetch(d, k)) \/ KernelTerminate(d, TRUE)

FairSpec ==
  /\ Spec
  /\ \A d \in Dirs : /\ WF_vars(ZcNotify(d)) /\ SF_vars(KernelProgress(d))
                     /\ WF_vars(MultiResubmit(d)) /\ SF_vars(Consume(d))
  /\ WF_vars(\E c \in Conns : Establish(c)) /\ WF_vars(KernelAccept)
  /\ SF_vars(AcceptSingle \/ IncomingNext)
  /\ WF_vars(DgKernelPrefetch("b"))

FairListen ==
  /\ SpecListen
  /\ WF_vars(\E c \in Conns : Establish(c)) /\ WF_vars(KernelAccept)
  /\ SF_vars(AcceptSingle \/ IncomingNext)

-----------------------------------------------------------------------------
(* ------------------------------- properties ------------------------------- *)

(* what left the transport towards the reader is a prefix of what the transport accepted *)
StreamPrefix == \A d \in AllDirs : seen[d] = RTake(sent[d], RLen(seen[d]))

(* nothing is in two places, nothing vanishes: accepted = left ++ completed-not-yielded ++ queued *)
Conservation == \A d \in AllDirs : sent[d] = RCat(RCat(seen[d], Flat(mq[d])), q[d])

(* what the reader was given is exactly what left the transport, unless the recorded deviation
   discarded something *)
StreamExact == \A d \in AllDirs :
  /\ RLen(got[d]) + RLen(lost[d]) = RLen(seen[d])
  /\ (lost[d] = <<>> => got[d] = seen[d])
  /\ (~DevMultiDrop /\ ~DevPollMultiLen => lost[d] = <<>>)

(* end of stream only after half-close, and then the reader has been given everything *)
EofComplete == \A d \in AllDirs :
  eofseen[d] => /\ shut[d] /\ q[d] = <<>> /\ Flat(mq[d]) = <<>>
                /\ RLen(seen[d]) = RLen(sent[d])

(* the last result is laid out in order across vectored members *)
LayoutOk ==
  /\ (ret.op \in {"recvv", "msg"} => ret.lens[1] + ret.lens[2] = ret.k /\ (ret.lens[2] > 0 => ret.lens[1] > 0 \/ ret.k = ret.lens[2]))
  /\ (ret.op \in {"recv", "recvv", "managed", "msg", "mitem"} => ret.len = ret.k /\ RLen(ret.runs) = ret.k)

(* a lent zero-copy buffer is not handed back *)
ZcOk == /\ (ret.op = "zcwait" => zc[ret.d] = "none")
        /\ \A d \in AllDirs : drv = "poll" => zc[d] # "lent"

(* the descriptor is open exactly while an owned handle lives *)
HandleOk == \A p \in Peers : hnd[p] \in 0..2

(* each received datagram equals one sent datagram (cut, flagged), at most once *)
DgMatch(t, r) ==
  \E s \in dsent :
    /\ s[1] = r.uid /\ s[4] = t
    /\ (r.k = Min(s[2], r.cap) \/ r.lenlost)   \* cut to the capacity, never beyond it
    /\ r.k <= r.cap
    /\ (r.src # "-" => r.src = s[3])
    /\ (r.trunc # -1 => (r.trunc = 1) = (s[2] > r.cap))
DgExact ==
  \A t \in DOMAIN dgot :
    /\ \A i \in 1..Len(dgot[t]) : DgMatch(t, dgot[t][i])
    /\ \A i, j \in 1..Len(dgot[t]) : i # j => dgot[t][i].uid # dgot[t][j].uid
(* the payload is delivered: holds only without DevPollMultiLen *)
DgPayloadDelivered ==
  \A t \in DOMAIN dgot : \A i \in 1..Len(dgot[t]) : ~dgot[t][i].lenlost

(* where the call reports a source it is delivered: holds only without DevManagedEmpty *)
DgSourceDelivered ==
  \A t \in DOMAIN dgot : \A i \in 1..Len(dgot[t]) : dgot[t][i].wsrc => dgot[t][i].src # "-"

(* each connection at most once, only connections that were made; none lost unless the
   recorded deviation *)
AcceptOnce ==
  /\ \A i, j \in 1..Len(accepted) : i # j => accepted[i] # accepted[j]
  /\ \A i \in 1..Len(accepted) : accepted[i] \in connecting
  /\ (~DevIncomingDrop => lostc = {})
  /\ lostc \cap {accepted[i] : i \in 1..Len(accepted)} = {}
NoLostConnection == lostc = {}
NoLostBytes == \A d \in AllDirs : lost[d] = <<>>

TypeOk ==
  /\ drv \in Drvs
  /\ \A d \in AllDirs : marm[d] \in {"off", "armed", "idle", "term"} /\ zc[d] \in {"none", "lent", "released"}

(* liveness on FairSpec *)
Queued(d) == RLen(q[d]) + RLen(Flat(mq[d]))
Drains == \A d \in Dirs : (Queued(d) > 0 /\ hnd[R(d)] > 0) ~> (Queued(d) = 0 \/ hnd[R(d)] = 0)
EofArrives == \A d \in Dirs : (shut[d] /\ hnd[R(d)] > 0) ~> (eofseen[d] \/ hnd[R(d)] = 0)
AllAccepted == \A c \in Conns : (c \in connecting) ~> (c \in {accepted[i] : i \in 1..Len(accepted)} \cup lostc)
=============================================================================
