--------------------------- MODULE Gen_CompatLoop ---------------------------
(* Schedule printer for CompatLoop (Eager kernel, current-thread host): a behaviour is the sequence of turns the
   harness bin x03_replay grants.  "R" turns: the thread that runs RuntimeCompat::execute is parked at a site
   (hook of the driver or point of the harness' wrapper adapter / futures) and is let run to its next site;
   the record carries what the model expects to observe there.  "E" turns: while R is parked the harness makes
   one thing happen outside (a whole cross-thread wake, a descriptor becomes readable, a blocking job finishes,
   a deadline passes) and waits until its effect has reached the runtime.

   Sites and the segment of the real code that follows them:
     x.main       poll of the future given to execute()                     XPollMain (+ drain_sync of the tick)
     x.task       poll of a spawned task                                    XRunTask (+ XJoinWake)
     drv.flush    Proactor::flush .. choice of the timeout                  XFlushArm .. XFlushReset + ADecide
     x.wait.enter Adapter::wait(timeout) of the real adapter                AWaitPoll (+ HTurn, AWakeReady or AWakeTimeout)
     x.clear      Adapter::clear(), poll_blocking                           AClear (+ XPollBlocking, XTimers)
     awake.reset  Proactor::poll: reset, arm, submit                        XReset, XArm, XEnter, XLeave / XLeaveTimedOut
     awake.set    first: poll_entries; second: end of poll, timers          XAwake1 (+ XClearN, XEntries), XAwake2 (+ XTimers) *)
EXTENDS CompatLoop, Json

(* One configuration per driver serves every program: the constants describe the superset program
     wakers w1 -> main, w2 -> t1;  reads o1 (main), o2 (t1);  timers s1 (main), s2 (t1);
     jobs j1 (main), j2 (t1), j3 (nobody waits for it);  one task t1
   and the initial state chooses a plan = (the subset that exists, the window the outside events are confined to).
   What does not exist is born finished. *)
CONSTANTS w1, w2, MaxLen,
          Plans        \* set of records [act |-> set of names, win |-> "any" | "dev1" | "dev2" | "win"]
TgtMT == (w1 :> "main") @@ (w2 :> "t1")
OwnAll == ("o1" :> "main") @@ ("o2" :> "t1") @@ ("s1" :> "main") @@ ("s2" :> "t1")
          @@ ("j1" :> "main") @@ ("j2" :> "t1") @@ ("j3" :> "none")
WName(w) == IF w = w1 THEN "w1" ELSE "w2"
P(act, win) == [act |-> act, win |-> win]
\* the programs of the seeded simulation ...
PlansGeneral == {P({"w1", "w2", "o1", "o2", "s1"}, "any"), P({"w2", "o1", "s2"}, "any"), P({"w1", "o2", "j1"}, "any"),
                 P({"o1", "s2", "j2"}, "any"), P({"w1", "o1", "j3"}, "any"), P({"w1", "w2", "o2"}, "any"),
                 P({"s1", "s2", "o1"}, "any"), P({"w1", "w2", "o1", "o2", "s1"}, "win"), P({"w2", "o1", "o2", "j2"}, "win")}
\* ... and the schedules aimed at the windows of the two repaired defects (a blocking job's completion between the two
\* set_awake of poll; completion entries in the queue when poll_blocking delivers an entry that wakes nobody)
PlansTargeted == {P({"o1", "j1"}, "dev1"), P({"o2", "j2"}, "dev1"), P({"w1", "o1", "j3"}, "dev2")}

VARIABLES hist, plan,
          hit1,        \* the schedule passed through the window of fixed finding C03-compat-blocking-completion-wake-wiped:
                       \* flush() reported work ONLY because an entry waited in the completed channel
          hit2         \* ... of C03-compat-iour-poll-blocking-skips-drain: poll_blocking delivered entries while completion
                       \* entries were in the queue (the drain that follows is what the old code skipped)
gvars == <<allvars, hist, plan, hit1, hit2>>
Act == plan.act
Has(x) == x \in Act
JobLast == plan.win = "dev1"
JobAt == IF plan.win = "dev1" THEN {"awake2"} ELSE IF plan.win = "dev2" THEN {"flush", "pollMain"} ELSE {}
OpAt == IF plan.win = "dev2" THEN {"flush", "pollMain", "clear"}
        ELSE IF plan.win = "win" THEN {"clear", "reset", "awake1", "awake2"} ELSE {}
WakeAt == IF plan.win = "win" THEN {"flush", "clear", "reset", "awake1", "awake2"} ELSE {}

\* ---- where the runtime thread is
Pos == IF xpc = "run" THEN pcR ELSE IF xpc = "pset2" THEN "awake2" ELSE xpc
At(W) == W = {} \/ Pos \in W
JobOK == ~JobLast \/ ((\A w \in Wakers : pcW[w] = "done") /\ (\A o \in Ops : opSt[o] = "done"))
WakerBusy == \E w \in Wakers : pcW[w] \notin {"begin", "done"}
JobBusy == \E j \in Jobs : jobSt[j] \in {"sent", "write"}
CanTurn == host = "tokio" /\ hEdge /\ xpc = "parked"
CanWakeNow == xpc = "parked" /\ ((IF host = "tokio" THEN hReady ELSE Level) \/ TimeoutNow)
Internal == WakerBusy \/ JobBusy \/ CanTurn
\* the next action of the runtime thread starts at a site
AtSite == \/ (xpc = "run" /\ pcR = "pollMain" /\ ~done)
          \/ (xpc = "run" /\ pcR = "runTask" /\ ~fin[Head(hot)])
          \/ (xpc = "run" /\ pcR = "flush" /\ ~done)
          \/ xpc = "wait"
          \/ xpc = "clear"
          \/ (xpc = "run" /\ pcR = "reset")
          \/ (xpc = "run" /\ pcR = "awake1")
          \/ (xpc = "run" /\ pcR = "awake2" /\ opBatch = {})
          \/ xpc = "pset2"
\* asleep in the host with nothing on its way
Asleep == xpc = "parked" /\ ~CanWakeNow /\ ~CanTurn
EnvOK == ~Internal /\ (AtSite \/ Asleep)

ObsOf(T) == {s \in Srcs : Has(s) /\ Owner[s] = T /\ got'[s]}
            \cup {WName(w) : w \in {x \in Wakers : Has(WName(x)) /\ Target[x] = T /\ seen'[x]}}
RT(site, arg, obs, blk) == hist' = Append(hist, [r |-> "R", site |-> site, arg |-> arg, obs |-> obs, blocks |-> blk, at |-> Pos])
\* at = "parked": R sleeps in the host while this happens; otherwise R stands at a site (the harness waits for it)
ET(ev, id) == hist' = Append(hist, [r |-> "E", site |-> ev, arg |-> id, obs |-> {}, blocks |-> FALSE, at |-> Pos])
Quietly == UNCHANGED hist

FlushFirst == pcR = "flush" /\ (XFlushArm \/ XFlush \/ XFlushReset)
WillBlock == xpc' = "parked" /\ ~((IF host = "tokio" THEN hReady' \/ (hEdge' /\ Level') ELSE Level') \/ TimeoutNow')

GInit ==
  /\ plan \in Plans /\ hist = <<>> /\ hit1 = FALSE /\ hit2 = FALSE
  \* Wakeup!Init, a waking thread that does not exist has finished
  /\ flag = IDLE /\ efd = FALSE /\ armed = (Driver = "poll") /\ sqNotif = FALSE /\ needPush = (Driver = "iour")
  /\ cq = 0 /\ batch = 0 /\ owed = 0 /\ syncq = <<>> /\ pending = 0
  /\ sched = [t \in Tasks |-> TRUE] /\ scheduling = [t \in Tasks |-> FALSE] /\ hot = TaskSeq /\ reg = {}
  /\ cond = [w \in Wakers |-> ~Has(WName(w))] /\ seen = [w \in Wakers |-> ~Has(WName(w))]
  /\ pcW = [w \in Wakers |-> IF Has(WName(w)) THEN "begin" ELSE "done"] /\ wNotified = [w \in Wakers |-> FALSE]
  /\ pcR = "pollMain" /\ needWait = FALSE /\ drained = 0 /\ inKernel = FALSE
  /\ lastPopped = "none" /\ extNotified = FALSE /\ lastOv = FALSE
  \* CompatLoop!XInit, what does not exist has been delivered
  /\ host \in Hosts /\ mut = "none" /\ xpc = "run"
  /\ opSt = [o \in Ops |-> IF Has(o) THEN "new" ELSE "done"] /\ opBatch = {}
  /\ tmSt = [t \in Timers |-> IF Has(t) THEN "new" ELSE "fired"]
  /\ jobSt = [j \in Jobs |-> IF Has(j) THEN "new" ELSE "woke"]
  /\ jobTaken = [j \in Jobs |-> ~Has(j)]
  /\ got = [x \in Srcs |-> ~Has(x)]
  /\ regSig = FALSE /\ hEdge = FALSE /\ hReady = FALSE /\ tmo = "none" /\ wres = "none"
  /\ fin = [t \in Tasks |-> FALSE] /\ done = FALSE /\ skipped = FALSE /\ hasC = FALSE
GNext ==
  /\ Len(hist) < MaxLen /\ ~Finished /\ UNCHANGED plan
  /\ IF Internal
       THEN \* the rest of a wake / of a pool thread's completion, the host's reactor: not turns of their own
            /\ Quietly
            /\ \/ \E w \in Wakers : pcW[w] \notin {"begin", "done"} /\ XWStep(w)
               \/ (~WakerBusy /\ \E j \in Jobs : jobSt[j] \in {"sent", "write"} /\ JStep(j))
               \/ (~WakerBusy /\ ~JobBusy /\ HTurn)
       ELSE IF AtSite
         THEN \/ XPollMain /\ RT("x.main", "main", ObsOf("main"), FALSE)
              \/ XRunTask /\ RT("x.task", Head(hot), ObsOf(Head(hot)), FALSE)
              \/ FlushFirst /\ RT("drv.flush", "", {}, FALSE)
              \/ AWaitPoll /\ RT("x.wait.enter", tmo, {}, WillBlock)
              \/ AClear /\ RT("x.clear", wres, {}, FALSE)
              \/ XReset /\ RT("awake.reset", "", {}, FALSE)
              \/ XAwake1 /\ RT("awake.set", "1", {}, FALSE)
              \/ XAwake2 /\ RT("awake.set", "2", {}, FALSE)
              \/ XPollSet2 /\ RT("awake.set", "2", {}, FALSE)
              \* the outside world moves while R is parked at the site
              \/ \E w \in Wakers : At(WakeAt) /\ pcW[w] = "begin" /\ XWStep(w) /\ ET("wake", WName(w))
              \/ \E o \in Ops : At(OpAt) /\ KOpReady(o) /\ ET("op", o)
              \/ \E j \in Jobs : At(JobAt) /\ JobOK /\ JSend(j) /\ ET("job", j)
         ELSE IF Asleep
           THEN \/ \E w \in Wakers : At(WakeAt) /\ pcW[w] = "begin" /\ XWStep(w) /\ ET("wake", WName(w))
                \/ \E o \in Ops : At(OpAt) /\ KOpReady(o) /\ ET("op", o)
                \/ \E j \in Jobs : At(JobAt) /\ JobOK /\ JSend(j) /\ ET("job", j)
                \* time passes only while everything sleeps
                \/ (tmo = "timer" /\ \E t \in Timers : TimeDue(t) /\ ET("due", t))
           ELSE \* in the middle of a segment
                /\ Quietly
                /\ \/ XRunTask      \* the stale id of a task that has finished: nothing is polled
                   \/ LiftR(RDrainLoad) \/ LiftR(RPopped) \/ LiftR(RDrainSub) \/ XJoinWake
                   \/ (pcR # "flush" /\ (XFlush \/ XFlushReset)) \/ XFlushLeave \/ ADecide
                   \/ AWakeReady \/ (~(host = "tokio" /\ hReady) /\ AWakeTimeout)   \* a pending event wins over the timer
                   \/ XPollBlocking \/ XPollNoBlocking \/ XArm \/ XEnter \/ XLeaveTimedOut \/ XLeave \/ XClearN \/ XEntries \/ XTimers
  \* (after the step: the primed variables are known)
  /\ hit1' = (hit1 \/ (xpc = "decide" /\ xpc' = "wait" /\ hot = <<>> /\ ~extNotified /\ hasC))
  /\ hit2' = (hit2 \/ (xpc = "pollb" /\ xpc' # "pollb" /\ Driver = "iour" /\ SentUntaken # {}
                        /\ (cq' > 0 \/ \E o \in Ops : opSt[o] = "cqe")))
GSpec == GInit /\ [][GNext]_gvars

\* nothing can move any more although the future is not ready: the model's prediction of a lost completion
Dead == ~Finished /\ ~Internal /\ Asleep
        /\ (\A w \in Wakers : pcW[w] = "done") /\ (\A o \in Ops : opSt[o] # "kernel")
        /\ (\A j \in Jobs : jobSt[j] # "running") /\ ~(tmo = "timer" /\ \E t \in Timers : tmSt[t] = "armed")
Done == Finished \/ Dead \/ Len(hist) >= MaxLen
Prog == [wakers |-> [w \in {WName(x) : x \in Wakers} \cap Act |-> Target[CHOOSE x \in Wakers : WName(x) = w]],
         ops |-> [o \in Ops \cap Act |-> Owner[o]], timers |-> [t \in Timers \cap Act |-> Owner[t]],
         jobs |-> [j \in Jobs \cap Act |-> Owner[j]], tasks |-> TaskSeq]
EmitInv == Done => PrintT(<<"REPLAY", ToJson([driver |-> Driver, host |-> host, prog |-> Prog, win |-> plan.win,
                                              complete |-> Finished, dead |-> Dead,
                                              dev1 |-> hit1, dev2 |-> hit2, steps |-> hist])>>)
=============================================================================
