--------------------------- MODULE SecureLayerWs ---------------------------
(* C15, WebSocket part: compio-ws WebSocketStream over a descriptor-backed transport.

   compio-ws/src/lib.rs wraps async-tungstenite (which drives tungstenite's WebSocketContext
   through a Pending -> WouldBlock shim of its own) and adds one rule:
     Stream::poll_next  keeps the item it got from the inner stream in next_item and, before it
                        yields it, completes  inner.poll_flush  (protocol level: tungstenite
                        flush) and then  poll_flush of the transport ;
     Sink::poll_flush   the same two flushes in the same order.
   tungstenite answers a Ping / a Close by queueing the reply in additional_send; the reply is
   written by the next flush (read() tries one first and tolerates WouldBlock). When a SERVER has
   answered a Close, _write writes the out buffer, sets Terminated and returns ConnectionClosed
   WITHOUT flushing the stream; async-tungstenite maps that to Ok. So without the two flushes of
   compio-ws a reply may still sit in additional_send (no protocol flush) or in a buffering
   transport - TLS session buffer - (no transport flush) when the application gets the item, and
   an application that does not read again never sends it.

   Scenario (the one replay_ws runs): A sends a message, B echoes; A pings and waits for the pong
   while B, having been handed the Ping, does not touch the stream; A sends Close and waits for
   the reply while B, having been handed the Close, does not touch the stream.
   Frames are atomic here (partial transfers are the business of SecureLayer); the transport may
   answer any call with Pending (MaxPend times) and, in the buffering variant, holds written
   frames until flushed.                                                                       *)
EXTENDS Integers, Sequences, FiniteSets, TLC

CONSTANTS Servers,            \* subset of {"A", "B"}: which side has Role::Server
          Bufferings,         \* subset of BOOLEAN
          MaxPend,
          FlushBeforeYield,   \* poll_next completes the protocol flush before yielding (code: TRUE)
          TransportFlush      \* ... and the transport flush after it (code: TRUE)

E == {"A", "B"}
Peer(e) == IF e = "A" THEN "B" ELSE "A"

VARIABLES srv, buffering,
          pc,        \* program counter of the application
          op,        \* where inside the layer the current call is
          ctx,       \* who called the flush: "send" (Sink::poll_flush), "next" (poll_next), "read" (tungstenite read)
          task,      \* "run" | "park" | "done"
          st,        \* tungstenite WebSocketState
          addl,      \* additional_send: "none" | "pong" | "close"
          outb,      \* frame.out_buffer
          unfl,      \* unflushed_additional
          item,      \* compio-ws next_item ("none" or the message kind)
          held, wire,
          got,       \* what the application of A / B was handed, in order
          budget

vars == <<srv, buffering, pc, op, ctx, task, st, addl, outb, unfl, item, held, wire, got, budget>>

IsServer(e) == srv = e
CanRead(e) == st[e] \in {"active", "closed_by_us"}

ProgA == <<"send_msg", "read_echo", "send_ping", "read_pong", "send_close", "read_close", "done">>
ProgB == <<"read_msg", "send_echo", "read_ping", "idle_ping", "read_close", "idle_close", "done">>
Prog(e) == IF e = "A" THEN ProgA ELSE ProgB
Idx(e) == CHOOSE i \in 1..7 : Prog(e)[i] = pc[e]
NextPc(e) == Prog(e)[Idx(e) + 1]
Sends(e) == pc[e] \in {"send_msg", "send_echo", "send_ping", "send_close"}
Reads(e) == pc[e] \in {"read_msg", "read_echo", "read_ping", "read_pong", "read_close"}
Frame(p) == CASE p = "send_msg" -> "msg" [] p = "send_echo" -> "msg" [] p = "send_ping" -> "ping"
              [] OTHER -> "close"
Expect(p) == CASE p = "read_msg" -> "msg" [] p = "read_echo" -> "msg" [] p = "read_ping" -> "ping"
               [] p = "read_pong" -> "pong" [] OTHER -> "close"

Init ==
  /\ srv \in Servers /\ buffering \in Bufferings
  /\ pc = [e \in E |-> Prog(e)[1]]
  /\ op = [e \in E |-> "idle"] /\ ctx = [e \in E |-> "send"]
  /\ task = [e \in E |-> "run"]
  /\ st = [e \in E |-> "active"]
  /\ addl = [e \in E |-> "none"] /\ outb = [e \in E |-> <<>>] /\ unfl = [e \in E |-> FALSE]
  /\ item = [e \in E |-> "none"]
  /\ held = [e \in E |-> <<>>] /\ wire = [e \in E |-> <<>>]
  /\ got = [e \in E |-> <<>>]
  /\ budget = MaxPend

Woken(p) == [task EXCEPT ![p] = IF @ = "park" THEN "run" ELSE @]
CanPend(p) == p => budget > 0
Spend(p) == budget' = IF p THEN budget - 1 ELSE budget

Run(e) == task[e] = "run"

\* ---- Sink: send(msg) = poll_ready, start_send (tungstenite write: frame into the out buffer,
\*      a Close moves the state to ClosedByUs), then compio-ws Sink::poll_flush ----------------
WS_start_send(e) ==
  /\ Run(e) /\ Sends(e) /\ op[e] = "idle"
  /\ outb' = [outb EXCEPT ![e] = Append(@, Frame(pc[e]))]
  /\ st' = [st EXCEPT ![e] = IF pc[e] = "send_close" /\ @ = "active" THEN "closed_by_us" ELSE @]
  /\ op' = [op EXCEPT ![e] = "f_write"] /\ ctx' = [ctx EXCEPT ![e] = "send"]
  /\ UNCHANGED <<srv, buffering, pc, task, addl, unfl, item, held, wire, got, budget>>

\* ---- Stream: poll_next with next_item = None calls inner.poll_next = tungstenite read() -----
TG_read_top(e) ==
  /\ Run(e) /\ Reads(e) /\ op[e] = "idle" /\ item[e] = "none"
  /\ IF addl[e] # "none" \/ unfl[e]
     THEN \* reply to a ping / close even during read; WouldBlock is tolerated
          /\ op' = [op EXCEPT ![e] = "f_write"] /\ ctx' = [ctx EXCEPT ![e] = "read"]
          /\ UNCHANGED <<st, item>>
     ELSE IF IsServer(e) /\ ~CanRead(e)
          THEN /\ st' = [st EXCEPT ![e] = "terminated"]
               /\ item' = [item EXCEPT ![e] = "closed"]      \* ConnectionClosed -> stream ended
               /\ op' = [op EXCEPT ![e] = "got_item"] /\ UNCHANGED ctx
          ELSE op' = [op EXCEPT ![e] = "rd"] /\ UNCHANGED <<ctx, st, item>>
  /\ UNCHANGED <<srv, buffering, pc, task, addl, outb, unfl, held, wire, got, budget>>

\* read_message_frame
TG_read_frame(e, p) ==
  /\ Run(e) /\ op[e] = "rd" /\ CanPend(p) /\ Spend(p)
  /\ IF p
     THEN UNCHANGED <<task, wire, st, addl, item, op>>        \* Pending, polled again
     ELSE IF wire[Peer(e)] = <<>>
          THEN task' = [task EXCEPT ![e] = "park"] /\ UNCHANGED <<wire, st, addl, item, op>>
          ELSE LET f == Head(wire[Peer(e)]) IN
               /\ wire' = [wire EXCEPT ![Peer(e)] = Tail(@)]
               /\ item' = [item EXCEPT ![e] = f]
               /\ op' = [op EXCEPT ![e] = "got_item"]
               /\ addl' = [addl EXCEPT ![e] = CASE f = "ping" /\ st[e] = "active" -> "pong"
                                                [] f = "close" /\ st[e] = "active" -> "close"
                                                [] OTHER -> @]
               /\ st' = [st EXCEPT ![e] = CASE f = "close" /\ @ = "active" -> "closed_by_peer"
                                            [] f = "close" /\ @ = "closed_by_us" -> "close_ack"
                                            [] OTHER -> @]
               /\ UNCHANGED task
  /\ UNCHANGED <<srv, buffering, pc, ctx, outb, unfl, held, got>>

\* compio-ws poll_next: *this.next_item = Some(item); loop -> the flushes, then yield
WS_poll_next_got_item(e) ==
  /\ Run(e) /\ op[e] = "got_item"
  /\ IF FlushBeforeYield
     THEN op' = [op EXCEPT ![e] = "f_write"] /\ ctx' = [ctx EXCEPT ![e] = "next"]
     ELSE op' = [op EXCEPT ![e] = "yield"] /\ UNCHANGED ctx
  /\ UNCHANGED <<srv, buffering, pc, task, st, addl, outb, unfl, item, held, wire, got, budget>>

\* ---- tungstenite flush(): _write(None); write_out_buffer; stream.flush() --------------------
TG__write(e) ==
  /\ Run(e) /\ op[e] = "f_write"
  /\ outb' = [outb EXCEPT ![e] = IF addl[e] = "none" THEN @ ELSE Append(@, addl[e])]
  /\ addl' = [addl EXCEPT ![e] = "none"]
  /\ op' = [op EXCEPT ![e] = IF IsServer(e) /\ ~CanRead(e) THEN "f_out_term" ELSE "f_out"]
  /\ UNCHANGED <<srv, buffering, pc, ctx, task, st, unfl, item, held, wire, got, budget>>

AfterBlocked(e) ==   \* a WouldBlock inside flush
  IF ctx[e] = "read"
  THEN unfl' = [unfl EXCEPT ![e] = TRUE] /\ op' = [op EXCEPT ![e] = "rd"]
  ELSE UNCHANGED <<unfl, op>>                               \* poll_flush returns Pending, polled again

TG_write_out_buffer(e, p) ==
  /\ Run(e) /\ op[e] \in {"f_out", "f_out_term"} /\ CanPend(p) /\ (p => outb[e] # <<>>)
  /\ IF p
     THEN AfterBlocked(e) /\ UNCHANGED <<outb, held, wire, task, st, item>>
     ELSE /\ outb' = [outb EXCEPT ![e] = <<>>]
          /\ IF buffering
             THEN held' = [held EXCEPT ![e] = @ \o outb[e]] /\ UNCHANGED <<wire, task>>
             ELSE /\ wire' = [wire EXCEPT ![e] = @ \o outb[e]] /\ UNCHANGED held
                  /\ task' = IF outb[e] # <<>> THEN Woken(Peer(e)) ELSE task
          /\ IF op[e] = "f_out_term"
             THEN \* the server has answered the Close: Terminated, Err(ConnectionClosed), and
                  \* NO stream.flush(). async-tungstenite poll_flush maps it to Ok(()).
                  /\ st' = [st EXCEPT ![e] = "terminated"]
                  /\ IF ctx[e] = "read"
                     THEN item' = [item EXCEPT ![e] = "closed"] /\ op' = [op EXCEPT ![e] = "got_item"]
                     ELSE op' = [op EXCEPT ![e] = "t_flush"] /\ UNCHANGED item
                  /\ UNCHANGED unfl
             ELSE op' = [op EXCEPT ![e] = "f_flush"] /\ UNCHANGED <<st, item, unfl>>
  /\ Spend(p)
  /\ UNCHANGED <<srv, buffering, pc, ctx, addl, got>>

TFlush(e) ==
  /\ wire' = [wire EXCEPT ![e] = @ \o held[e]]
  /\ held' = [held EXCEPT ![e] = <<>>]
  /\ task' = IF held[e] # <<>> THEN Woken(Peer(e)) ELSE task

TG_stream_flush(e, p) ==
  /\ Run(e) /\ op[e] = "f_flush" /\ CanPend(p) /\ Spend(p)
  /\ IF p
     THEN AfterBlocked(e) /\ UNCHANGED <<held, wire, task>>
     ELSE /\ TFlush(e)
          /\ unfl' = [unfl EXCEPT ![e] = FALSE]
          /\ op' = [op EXCEPT ![e] = IF ctx[e] = "read" THEN "rd" ELSE "t_flush"]
  /\ UNCHANGED <<srv, buffering, pc, ctx, st, addl, outb, item, got>>

\* ---- compio-ws: poll_flush of the transport after the protocol flush ------------------------
WS_transport_flush(e, p) ==
  /\ Run(e) /\ op[e] = "t_flush" /\ CanPend(p) /\ Spend(p)
  /\ IF ~TransportFlush
     THEN /\ ~p
          /\ UNCHANGED <<held, wire, task>>
          /\ op' = [op EXCEPT ![e] = IF ctx[e] = "send" THEN "sent" ELSE "yield"]
     ELSE IF p
          THEN UNCHANGED <<held, wire, task, op>>
          ELSE /\ TFlush(e)
               /\ op' = [op EXCEPT ![e] = IF ctx[e] = "send" THEN "sent" ELSE "yield"]
  /\ UNCHANGED <<srv, buffering, pc, ctx, st, addl, outb, unfl, item, got>>

\* ---- the application --------------------------------------------------------------------
App_sent(e) ==
  /\ Run(e) /\ op[e] = "sent"
  /\ pc' = [pc EXCEPT ![e] = NextPc(e)] /\ op' = [op EXCEPT ![e] = "idle"]
  /\ UNCHANGED <<srv, buffering, ctx, task, st, addl, outb, unfl, item, held, wire, got, budget>>

App_item(e) ==
  /\ Run(e) /\ op[e] = "yield"
  /\ got' = [got EXCEPT ![e] = Append(@, item[e])]
  /\ item' = [item EXCEPT ![e] = "none"]
  /\ op' = [op EXCEPT ![e] = "idle"]
  /\ pc' = [pc EXCEPT ![e] = IF item[e] = Expect(pc[e]) THEN NextPc(e) ELSE "failed"]
  /\ UNCHANGED <<srv, buffering, ctx, task, st, addl, outb, unfl, held, wire, budget>>

\* B stays away from the stream until A has the reply
App_idle_over(e) ==
  /\ Run(e) /\ e = "B"
  /\ \/ (pc[e] = "idle_ping" /\ pc["A"] \in {"send_close", "read_close", "done"})
     \/ (pc[e] = "idle_close" /\ pc["A"] = "done")
  /\ pc' = [pc EXCEPT ![e] = NextPc(e)]
  /\ UNCHANGED <<srv, buffering, op, ctx, task, st, addl, outb, unfl, item, held, wire, got, budget>>

App_done(e) ==
  /\ Run(e) /\ pc[e] \in {"done", "failed"}
  /\ task' = [task EXCEPT ![e] = "done"]
  /\ UNCHANGED <<srv, buffering, pc, op, ctx, st, addl, outb, unfl, item, held, wire, got, budget>>

Step(e) == \/ WS_start_send(e) \/ TG_read_top(e) \/ WS_poll_next_got_item(e) \/ TG__write(e)
           \/ App_sent(e) \/ App_item(e) \/ App_idle_over(e) \/ App_done(e)
           \/ \E p \in BOOLEAN : \/ TG_read_frame(e, p) \/ TG_write_out_buffer(e, p)
                                 \/ TG_stream_flush(e, p) \/ WS_transport_flush(e, p)

AllDone == \A e \in E : task[e] = "done"
Terminal == AllDone \/ ~(\E e \in E : ENABLED Step(e))
Next == (\E e \in E : Step(e)) \/ (Terminal /\ UNCHANGED vars)
Spec == Init /\ [][Next]_vars
FairSpec == Spec /\ \A e \in E : WF_vars(Step(e))

\* ---- properties ---------------------------------------------------------------------------
TypeOK == /\ budget \in 0..MaxPend
          /\ \A e \in E : Len(outb[e]) <= 2 /\ Len(held[e]) <= 3 /\ Len(wire[e]) <= 3

\* nobody can move and the scenario is not finished (peer waits for a reply that never left)
NoDeadlock == AllDone \/ \E e \in E : ENABLED Step(e)
NoFailure == \A e \in E : pc[e] # "failed"
\* when the application holds the Ping / the Close, the reply is on its way to the peer
RepliesFlushedBeforeYield ==
  pc["B"] \in {"idle_ping", "idle_close"} =>
     addl["B"] = "none" /\ outb["B"] = <<>> /\ held["B"] = <<>> /\ ~unfl["B"]
\* messages in order, exactly once
InOrder == /\ \E n \in 0..3 : got["A"] = SubSeq(<<"msg", "pong", "close">>, 1, n)
           /\ \E n \in 0..3 : got["B"] = SubSeq(<<"msg", "ping", "close">>, 1, n)
Finished == AllDone => \A e \in E : pc[e] = "done" /\ Len(got[e]) = 3 /\ held[e] = <<>>

CloseCompletes == <>(AllDone /\ \A e \in E : pc[e] = "done")
PongArrives == <>(Len(got["A"]) >= 2)
=============================================================================
