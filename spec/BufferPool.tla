---------------------------- MODULE BufferPool ----------------------------
(* C07 - managed buffer pool of compio-driver: exclusive ownership and conservation.

   Implementation-shaped model of
     compio-driver/src/buffer_pool.rs            slot table (Inner::bufs), take / Shared::reset, release
     compio-driver/src/sys/buffer_pool/iour.rs   provided-buffer ring (Kind = "ring"): the kernel consumes at
                                                 the head, BufControl::reset appends at the tail
     compio-driver/src/sys/buffer_pool/fallback.rs  free list (Kind = "fallback"): pop_front / push_back
     compio-driver/src/sys/op/managed/iour.rs    set_result adopts the selected buffer (take), push_multishot
                                                 queues MultishotResult + BufferGuard, pop_multishot leaks the guard
     compio-driver/src/sys/op/managed/fallback.rs   the op pops its buffer when it is created
     compio-runtime/src/future/stream.rs         SubmitMulti / SubmitMultiManaged: pop queue first, then final result
     compio-driver/src/lib.rs                    Proactor::cancel, Drop for Proactor (release, then the driver drops its ops)

   Every operation slot o has its own source (pipe, socket, file). The unit of data is a chunk = what one
   buffer receives. The kernel is the environment: it can only pick buffers out of "provided". *)
EXTENDS Naturals, Sequences, FiniteSets, TLC

CONSTANTS
  N,                 \* number of buffers (BufferPoolRoot::new rounds the request up to a power of two)
  Kind,              \* "ring" | "fallback"
  Ops,               \* operation slots (strings)
  FileOps,           \* slots whose source is a regular file: never blocks, empty means end of file, single reads only
  SrcType,           \* the other sources: "pipe" (read), "stream" (recv on a stream socket), "dgram" (recv on a datagram socket)
  MaxPend,           \* bound on readable chunks per source
  MaxH,              \* user handle slots
  \* the mechanisms of the code; all TRUE is the code as written, one FALSE is a control (must violate)
  ResetProvides,     \* Shared::reset re-provides the buffer (ctrl.reset)
  TakeEmptiesSlot,   \* Shared::take leaves None in the slot
  DropReturnsQueued, \* dropping an op returns the buffers of its queued multishot results (BufferGuard)
  \* recorded defect of the code (TRUE = the code as written), see KeyRefcountRace
  KeyRaceDev

Bufs  == 0..(N-1)
NoBuf == N
Hs    == 1..MaxH

VARIABLES
  slot,      \* [Bufs -> BOOLEAN]  TRUE = Some(ptr) in Inner::bufs
  provided,  \* Seq(Bufs): ring entries between kernel head and tail / fallback queue, oldest first
  mem,       \* [Bufs -> {"live","freed","double","lost"}] allocation state of the buffer memory
  alive,     \* poolAlive: FALSE after Proactor drop (BufferPoolRoot::release + Rc dropped)
  ost,       \* [Ops -> {"idle","armed","done","zombie","orphan","orphan_pool"}]
  okind,     \* [Ops -> {"single","multi"}]
  ink,       \* [Ops -> BOOLEAN] the kernel / reactor still owns the request (no final completion posted)
  creq,      \* [Ops -> BOOLEAN] cancellation requested
  fresh,     \* [Ops -> BOOLEAN] ring: submitted, the kernel has not made its first issue attempt yet
  cq,        \* [Ops -> Seq(CQE)] completions posted, not yet processed by Driver::poll
  mq,        \* [Ops -> Seq(CQE)] multishot results pushed into the op (BufferGuard), not popped
  fin,       \* [Ops -> CQE] final result stored by set_result (res = "none": not yet)
  obuf,      \* [Ops -> Bufs \cup {NoBuf}] BufferRef held inside the op
  pend,      \* [Ops -> 0..MaxPend] chunks readable on the source
  eof,       \* [Ops -> BOOLEAN] writer closed
  hand       \* [Hs -> Bufs \cup {NoBuf}] BufferRef handles held by the user

vars == <<slot, provided, mem, alive, ost, okind, ink, creq, fresh, cq, mq, fin, obuf, pend, eof, hand>>
opvars == <<ost, okind, ink, creq, fresh, cq, mq, fin, obuf>>

Cqe(r, b, m) == [res |-> r, buf |-> b, more |-> m]
NoRes == Cqe("none", NoBuf, FALSE)

Range(s) == {s[i] : i \in 1..Len(s)}
Count(s, b) == Cardinality({i \in 1..Len(s) : s[i] = b})
BufsOf(q) == LET f == SelectSeq(q, LAMBDA c : c.buf # NoBuf) IN [i \in 1..Len(f) |-> f[i].buf]

----------------------------------------------------------------------------
(* Shared::reset for a sequence of buffers, in order *)
RECURSIVE ReturnAll(_, _, _)
ReturnAll(sl, pr, bs) ==
  IF bs = <<>> THEN <<sl, pr>>
  ELSE ReturnAll([sl EXCEPT ![Head(bs)] = TRUE],
                 IF ResetProvides THEN Append(pr, Head(bs)) ELSE pr, Tail(bs))

RECURSIVE FreeAll(_, _)
FreeAll(m, bs) ==
  IF bs = <<>> THEN m
  ELSE FreeAll([m EXCEPT ![Head(bs)] = IF m[Head(bs)] = "live" THEN "freed" ELSE "double"], Tail(bs))

(* what an op gives back when it is dropped: its BufferRef first (field order), then the guards of the
   queued results. A guard only acts while the slot is still Some (BufferPool::reset = take + reset). *)
Adopted(o) == IF obuf[o] # NoBuf THEN <<obuf[o]>> ELSE <<>>
Queued(o)  == IF DropReturnsQueued THEN SelectSeq(BufsOf(mq[o]), LAMBDA b : slot[b]) ELSE <<>>

(* dropping BufferRefs `refs` (slot None) and guards `guards` *)
DropBufs(refs, guards) ==
  IF alive
    THEN LET r == ReturnAll(slot, provided, refs \o guards)
         IN slot' = r[1] /\ provided' = r[2] /\ UNCHANGED mem
    ELSE \* pool released: a BufferRef frees its own memory, a guard finds no pool and does nothing
         /\ mem' = FreeAll(mem, refs)
         /\ UNCHANGED <<slot, provided>>

ClearOp(o, st) ==
  /\ ost' = [ost EXCEPT ![o] = st]
  /\ ink' = [ink EXCEPT ![o] = FALSE]
  /\ creq' = [creq EXCEPT ![o] = FALSE]
  /\ fresh' = [fresh EXCEPT ![o] = FALSE]
  /\ cq' = [cq EXCEPT ![o] = <<>>]
  /\ mq' = [mq EXCEPT ![o] = <<>>]
  /\ fin' = [fin EXCEPT ![o] = NoRes]
  /\ obuf' = [obuf EXCEPT ![o] = NoBuf]
  /\ UNCHANGED okind

FreeHandle == IF \E h \in Hs : hand[h] = NoBuf THEN CHOOSE h \in Hs : hand[h] = NoBuf /\ \A g \in Hs : g < h => hand[g] # NoBuf ELSE 0

----------------------------------------------------------------------------
Init ==
  /\ slot = [b \in Bufs |-> TRUE]
  /\ provided = [i \in 1..N |-> i - 1]
  /\ mem = [b \in Bufs |-> "live"]
  /\ alive = TRUE
  /\ ost = [o \in Ops |-> "idle"]
  /\ okind = [o \in Ops |-> "single"]
  /\ ink = [o \in Ops |-> FALSE]
  /\ creq = [o \in Ops |-> FALSE]
  /\ fresh = [o \in Ops |-> FALSE]
  /\ cq = [o \in Ops |-> <<>>]
  /\ mq = [o \in Ops |-> <<>>]
  /\ fin = [o \in Ops |-> NoRes]
  /\ obuf = [o \in Ops |-> NoBuf]
  /\ pend = [o \in Ops |-> 0]
  /\ eof = [o \in Ops |-> FALSE]
  /\ hand = [h \in Hs |-> NoBuf]

(* ---- submitter --------------------------------------------------------- *)
(* ReadManaged::new / RecvManaged::new ... + Proactor::push.
   ring: nothing is taken now (BUFFER_SELECT, the kernel picks at completion).
   fallback: pool.pop() takes the head of the free list now, or fails with ResourceBusy. *)
Submit(o, k) ==
  /\ alive /\ ost[o] = "idle"
  /\ (o \in FileOps => k = "single")
  /\ (Kind = "fallback" => provided # <<>>)
  /\ okind' = [okind EXCEPT ![o] = k]
  /\ ost' = [ost EXCEPT ![o] = "armed"]
  /\ ink' = [ink EXCEPT ![o] = TRUE]
  /\ fresh' = [fresh EXCEPT ![o] = (Kind = "ring")]
  /\ IF Kind = "fallback"
       THEN /\ provided' = Tail(provided)
            /\ slot' = [slot EXCEPT ![Head(provided)] = ~TakeEmptiesSlot]
            /\ obuf' = [obuf EXCEPT ![o] = Head(provided)]
       ELSE UNCHANGED <<provided, slot, obuf>>
  /\ UNCHANGED <<mem, alive, creq, cq, mq, fin, pend, eof, hand>>
SubmitManaged(o) == Submit(o, "single")
SubmitMulti(o) == Submit(o, "multi")

(* fallback: pool.pop() on an empty free list: the error is returned by the constructor, no op exists *)
ExhaustedAtSubmit(o) ==
  /\ alive /\ ost[o] = "idle" /\ Kind = "fallback" /\ provided = <<>>
  /\ UNCHANGED vars

(* the user obtains the next result of op o. Multishot: queue first (SubmitMulti::poll_next). *)
YieldQueued(o) ==     \* pop_multishot (guard leaked) + BufferPool::take(buffer_id)
  /\ alive /\ ost[o] \in {"armed", "done"} /\ mq[o] # <<>> /\ FreeHandle # 0
  /\ LET b == Head(mq[o]).buf IN
       /\ mq' = [mq EXCEPT ![o] = Tail(@)]
       /\ IF b # NoBuf /\ slot[b]
            THEN /\ slot' = [slot EXCEPT ![b] = ~TakeEmptiesSlot]
                 /\ hand' = [hand EXCEPT ![FreeHandle] = b]
            ELSE UNCHANGED <<slot, hand>>
  /\ UNCHANGED <<provided, mem, alive, ost, okind, ink, creq, fresh, cq, fin, obuf, pend, eof>>

FinalReady(o) == alive /\ ost[o] = "done" /\ mq[o] = <<>>

(* final result carries the adopted buffer to the user (ResultTakeBuffer / stream terminated branch) *)
YieldHandle(o) ==
  /\ FinalReady(o) /\ FreeHandle # 0
  /\ obuf[o] # NoBuf
  /\ (fin[o].res = "ok" \/ (fin[o].res = "eof" /\ okind[o] = "multi"))
  /\ hand' = [hand EXCEPT ![FreeHandle] = obuf[o]]
  /\ ClearOp(o, "idle")
  /\ UNCHANGED <<slot, provided, mem, alive, pend, eof>>

(* final result without a handle: end of data (a single read of 0 bytes drops the op and its buffer),
   ENOBUFS / ResourceBusy (Exhausted), cancelled *)
FinalNoHandle(o, rs) ==
  /\ FinalReady(o)
  /\ fin[o].res \in rs
  /\ ~(obuf[o] # NoBuf /\ (fin[o].res = "ok" \/ (fin[o].res = "eof" /\ okind[o] = "multi")))
  /\ DropBufs(Adopted(o), <<>>)
  /\ ClearOp(o, "idle")
  /\ UNCHANGED <<alive, pend, eof, hand>>
Exhausted(o) == FinalNoHandle(o, {"enobufs"})
NextEnd(o)   == FinalNoHandle(o, {"eof", "ok", "cancelled"})

(* BufferRef::drop while the pool lives: Shared::reset = slot + re-provide *)
HandleDrop(h) ==
  /\ alive /\ hand[h] # NoBuf
  /\ DropBufs(<<hand[h]>>, <<>>)
  /\ hand' = [hand EXCEPT ![h] = NoBuf]
  /\ UNCHANGED <<alive, pend, eof>> /\ UNCHANGED opvars

(* Proactor::cancel(key) / drop of Submit, SubmitMulti, SubmitMultiManaged (StreamDrop) *)
Cancel(o) ==
  /\ alive /\ ost[o] \in {"armed", "done"}
  /\ IF ost[o] = "done"
       THEN \* unique key with a result: the op comes back and is dropped with everything in it
            /\ DropBufs(Adopted(o), Queued(o))
            /\ ClearOp(o, "idle")
       ELSE /\ ost' = [ost EXCEPT ![o] = "zombie"]
            /\ creq' = [creq EXCEPT ![o] = TRUE]
            /\ IF Kind = "fallback" /\ ink[o] /\ o \notin FileOps
                 THEN \* poll driver: cancel_one removes the interest and queues the cancelled entry
                      /\ ink' = [ink EXCEPT ![o] = FALSE]
                      /\ cq' = [cq EXCEPT ![o] = Append(@, Cqe("cancelled", NoBuf, FALSE))]
                 ELSE UNCHANGED <<ink, cq>>
            /\ UNCHANGED <<slot, provided, mem, okind, fresh, mq, fin, obuf>>
  /\ UNCHANGED <<alive, pend, eof, hand>>
StreamDrop(o) == Cancel(o)

(* ---- environment: data --------------------------------------------------- *)
FeedN(o, k) ==      \* the peer writes k chunks in one go (a payload that spans k buffers)
  /\ ~eof[o] /\ k >= 1 /\ pend[o] + k <= MaxPend
  /\ pend' = [pend EXCEPT ![o] = @ + k]
  /\ UNCHANGED <<slot, provided, mem, alive, eof, hand>> /\ UNCHANGED opvars
Feed(o) == \E k \in 1..MaxPend : FeedN(o, k)
Close(o) ==
  /\ ~eof[o] /\ o \notin FileOps
  /\ eof' = [eof EXCEPT ![o] = TRUE]
  /\ UNCHANGED <<slot, provided, mem, alive, pend, hand>> /\ UNCHANGED opvars

(* ---- kernel / reactor -------------------------------------------------- *)
AtEnd(o) == pend[o] = 0 /\ (eof[o] \/ o \in FileOps)
Post(o, c) == cq' = [cq EXCEPT ![o] = Append(@, c)]
EofKeepsBuffer(o) == o \in FileOps \/ SrcType = "pipe"
(* after a multishot completion on a datagram socket the kernel cannot tell whether more is queued and
   issues the request again at once (which needs a buffer) *)
RetryAfterMore(o) == SrcType = "dgram" /\ o \notin FileOps

(* data is readable: the kernel selects the buffer at the head of the ring (never anything else),
   or reports ENOBUFS; a multishot request stays armed after a successful completion *)
KernelSelect(o) ==
  /\ alive /\ ink[o] /\ pend[o] > 0
  /\ (Kind = "fallback" => ~creq[o] \/ o \in FileOps)
  /\ IF Kind = "ring"
       THEN /\ provided # <<>>
            /\ provided' = Tail(provided)
            /\ Post(o, Cqe("ok", Head(provided), okind[o] = "multi"))
            /\ ink' = [ink EXCEPT ![o] = (okind[o] = "multi")]
       ELSE /\ Post(o, Cqe("ok", NoBuf, FALSE))
            /\ ink' = [ink EXCEPT ![o] = FALSE]
            /\ UNCHANGED provided
  /\ pend' = [pend EXCEPT ![o] = @ - 1]
  /\ fresh' = [fresh EXCEPT ![o] = (Kind = "ring" /\ okind[o] = "multi" /\ RetryAfterMore(o))]
  /\ UNCHANGED <<slot, mem, alive, ost, okind, creq, mq, fin, obuf, eof, hand>>

KernelNoBufs(o) ==
  /\ alive /\ ink[o] /\ Kind = "ring" /\ provided = <<>>
  /\ (fresh[o] \/ pend[o] > 0 \/ AtEnd(o))
  /\ Post(o, Cqe("enobufs", NoBuf, FALSE))
  /\ ink' = [ink EXCEPT ![o] = FALSE]
  /\ fresh' = [fresh EXCEPT ![o] = FALSE]
  /\ UNCHANGED <<slot, provided, mem, alive, ost, okind, creq, mq, fin, obuf, pend, eof, hand>>

(* ring: first issue attempt with a buffer available and nothing to read: the buffer is recycled, the
   request is armed on the file's readiness *)
KernelArm(o) ==
  /\ alive /\ ink[o] /\ fresh[o] /\ Kind = "ring" /\ provided # <<>> /\ pend[o] = 0 /\ ~AtEnd(o)
  /\ fresh' = [fresh EXCEPT ![o] = FALSE]
  /\ UNCHANGED <<slot, provided, mem, alive, ost, okind, ink, creq, cq, mq, fin, obuf, pend, eof, hand>>

(* end of data. ring, single read(2)-type request: the kernel has already selected a buffer and reports 0
   with it; ring, recv or multishot: the buffer is recycled, 0 without a buffer. fallback: 0 into the op's
   own buffer *)
KernelEof(o) ==
  /\ alive /\ ink[o] /\ AtEnd(o)
  /\ (Kind = "fallback" => ~creq[o] \/ o \in FileOps)
  /\ IF Kind = "ring" /\ okind[o] = "single" /\ EofKeepsBuffer(o)
       THEN /\ provided # <<>>
            /\ provided' = Tail(provided)
            /\ Post(o, Cqe("eof", Head(provided), FALSE))
       ELSE /\ (Kind = "ring" => provided # <<>>)
            /\ Post(o, Cqe("eof", NoBuf, FALSE))
            /\ UNCHANGED provided
  /\ ink' = [ink EXCEPT ![o] = FALSE]
  /\ fresh' = [fresh EXCEPT ![o] = FALSE]
  /\ UNCHANGED <<slot, mem, alive, ost, okind, creq, mq, fin, obuf, pend, eof, hand>>

KernelCancel(o) ==     \* AsyncCancel reaches a request that is still armed
  /\ alive /\ ink[o] /\ creq[o] /\ Kind = "ring"
  /\ Post(o, Cqe("cancelled", NoBuf, FALSE))
  /\ ink' = [ink EXCEPT ![o] = FALSE]
  /\ fresh' = [fresh EXCEPT ![o] = FALSE]
  /\ UNCHANGED <<slot, provided, mem, alive, ost, okind, creq, mq, fin, obuf, pend, eof, hand>>

(* ---- Driver::poll processes one completion -------------------------------- *)
PushMultishot(o) ==    \* CQE flagged MORE: push_multishot, the buffer stays in its slot under a guard
  /\ alive /\ cq[o] # <<>> /\ Head(cq[o]).more
  /\ mq' = [mq EXCEPT ![o] = Append(@, Head(cq[o]))]
  /\ cq' = [cq EXCEPT ![o] = Tail(@)]
  /\ UNCHANGED <<slot, provided, mem, alive, ost, okind, ink, creq, fresh, fin, obuf, pend, eof, hand>>

(* final CQE: Entry::notify -> set_result: the selected buffer is adopted (take). The user still holds the key. *)
Adopt(o) ==
  /\ alive /\ cq[o] # <<>> /\ ~Head(cq[o]).more /\ ost[o] = "armed"
  /\ LET c == Head(cq[o]) IN
       /\ fin' = [fin EXCEPT ![o] = c]
       /\ IF c.buf # NoBuf
            THEN /\ slot' = [slot EXCEPT ![c.buf] = ~TakeEmptiesSlot]
                 /\ obuf' = [obuf EXCEPT ![o] = c.buf]
            ELSE UNCHANGED <<slot, obuf>>
  /\ cq' = [cq EXCEPT ![o] = Tail(@)]
  /\ ost' = [ost EXCEPT ![o] = "done"]
  /\ UNCHANGED <<provided, mem, alive, okind, ink, creq, fresh, mq, pend, eof, hand>>

(* final CQE of an op whose key the user gave up: adopted as well, then the last reference goes away and
   the op is dropped with its BufferRef and its queued results *)
AdoptAndFree(o) ==
  /\ alive /\ cq[o] # <<>> /\ ~Head(cq[o]).more /\ ost[o] = "zombie"
  /\ LET c == Head(cq[o])
         refs == Adopted(o) \o (IF c.buf # NoBuf THEN <<c.buf>> ELSE <<>>)
     IN DropBufs(refs, Queued(o))
  /\ ClearOp(o, "idle")
  /\ UNCHANGED <<alive, pend, eof, hand>>

(* ---- Proactor drop ------------------------------------------------------- *)
(* release(): ring unregistered, every buffer still in its slot is deallocated, the slot vector emptied;
   then the driver drops its operations. Ops whose key the user still holds survive as orphans. *)
(* polling driver: the read of a regular file runs on the thread pool; its completion entry has not reached
   the driver yet *)
JobInPool(o) == Kind = "fallback" /\ o \in FileOps /\ ink[o]

PoolRelease ==
  /\ alive
  /\ alive' = FALSE
  /\ provided' = <<>>
  /\ slot' = [b \in Bufs |-> FALSE]
  /\ LET inSlots == {b \in Bufs : slot[b]}
         zrefs == {obuf[o] : o \in {p \in Ops : ost[p] = "zombie" /\ obuf[p] # NoBuf}}
     IN mem' = [b \in Bufs |-> IF b \in inSlots \/ b \in zrefs
                                 THEN (IF mem[b] = "live" /\ ~(b \in inSlots /\ b \in zrefs) THEN "freed" ELSE "double")
                                 ELSE mem[b]]
  /\ ost' = [o \in Ops |-> IF ost[o] \in {"armed", "done"}
                             THEN (IF JobInPool(o) THEN "orphan_pool" ELSE "orphan") ELSE "idle"]
  /\ ink' = [o \in Ops |-> FALSE]
  /\ creq' = [o \in Ops |-> FALSE]
  /\ fresh' = [o \in Ops |-> FALSE]
  /\ cq' = [o \in Ops |-> <<>>]
  /\ mq' = [o \in Ops |-> <<>>]
  /\ fin' = [o \in Ops |-> NoRes]
  /\ obuf' = [o \in Ops |-> IF ost[o] \in {"armed", "done"} THEN obuf[o] ELSE NoBuf]
  /\ UNCHANGED <<okind, pend, eof, hand>>

KeyDropAfterRelease(o) ==
  /\ ~alive /\ ost[o] \in {"orphan", "orphan_pool"}
  /\ DropBufs(Adopted(o), <<>>)
  /\ ClearOp(o, "idle")
  /\ UNCHANGED <<alive, pend, eof, hand>>

(* NAMED DEVIATION (known finding C07-key-refcount-race). The driver is gone, so the pool thread's
   `completed.send(Entry)` fails and the entry - a reference to the op - is dropped on the pool thread. The
   reference count of the op is a thin_cell::unsync (non-atomic) counter: when the user drops the key at the
   same moment one decrement is lost, the op is never dropped and its BufferRef never frees the buffer. *)
KeyRefcountRace(o) ==
  /\ KeyRaceDev
  /\ ~alive /\ ost[o] = "orphan_pool" /\ obuf[o] # NoBuf
  /\ mem' = [mem EXCEPT ![obuf[o]] = "lost"]
  /\ ClearOp(o, "idle")
  /\ UNCHANGED <<slot, provided, alive, pend, eof, hand>>

HandleDropAfterRelease(h) ==
  /\ ~alive /\ hand[h] # NoBuf
  /\ DropBufs(<<hand[h]>>, <<>>)
  /\ hand' = [hand EXCEPT ![h] = NoBuf]
  /\ UNCHANGED <<alive, pend, eof>> /\ UNCHANGED opvars

----------------------------------------------------------------------------
Kernel(o) == KernelSelect(o) \/ KernelNoBufs(o) \/ KernelArm(o) \/ KernelEof(o) \/ KernelCancel(o)
Driver(o) == PushMultishot(o) \/ Adopt(o) \/ AdoptAndFree(o)
User(o) == SubmitManaged(o) \/ SubmitMulti(o) \/ ExhaustedAtSubmit(o) \/ YieldQueued(o) \/ YieldHandle(o)
           \/ Exhausted(o) \/ NextEnd(o) \/ Cancel(o) \/ KeyDropAfterRelease(o) \/ KeyRefcountRace(o)
Env(o) == Feed(o) \/ Close(o)

Next ==
  \/ \E o \in Ops : User(o) \/ Env(o) \/ Kernel(o) \/ Driver(o)
  \/ \E h \in Hs : HandleDrop(h) \/ HandleDropAfterRelease(h)
  \/ PoolRelease

Spec == Init /\ [][Next]_vars
FairSpec == Spec /\ \A o \in Ops : WF_vars(Kernel(o)) /\ WF_vars(Driver(o))

----------------------------------------------------------------------------
TypeOK ==
  /\ slot \in [Bufs -> BOOLEAN]
  /\ \A i \in 1..Len(provided) : provided[i] \in Bufs
  /\ \A o \in Ops : ost[o] \in {"idle", "armed", "done", "zombie", "orphan", "orphan_pool"} /\ pend[o] \in 0..MaxPend
  /\ \A h \in Hs : hand[h] \in Bufs \cup {NoBuf}

(* every party that holds buffer b, with multiplicity *)
Holders(b) ==
    Count(provided, b)
  + Cardinality({o \in Ops : obuf[o] = b})
  + Cardinality({<<o, i>> \in Ops \X (1..N+1) : i <= Len(mq[o]) /\ mq[o][i].buf = b})
  + Cardinality({<<o, i>> \in Ops \X (1..N+1) : i <= Len(cq[o]) /\ cq[o][i].buf = b})
  + Cardinality({h \in Hs : hand[h] = b})

(* exactly one owner at any time: never two (aliasing), never none (a buffer in limbo is a shrunken pool) *)
ExclusiveOwner == alive => \A b \in Bufs : Holders(b) = 1
(* slot[b] = None exactly while a BufferRef (inside an op or in the user's hands) owns b *)
SlotMeaning == alive => \A b \in Bufs :
                  (~slot[b]) <=> ((\E o \in Ops : obuf[o] = b) \/ (\E h \in Hs : hand[h] = b))
(* the OS only ever sees buffers nobody else holds *)
ProvidedIsPool == \A b \in Range(provided) :
                    slot[b] /\ (\A h \in Hs : hand[h] # b) /\ (\A o \in Ops : obuf[o] # b)
NoAlias == \A h1, h2 \in Hs : h1 # h2 /\ hand[h1] # NoBuf => hand[h1] # hand[h2]
Quiet == (\A o \in Ops : ost[o] = "idle") /\ (\A h \in Hs : hand[h] = NoBuf)
Conservation == alive /\ Quiet => Len(provided) = N /\ Range(provided) = Bufs
NoDoubleFree == \A b \in Bufs : mem[b] # "double"
LiveWhileAlive == alive => \A b \in Bufs : mem[b] = "live"
ReleasedAllFreedStrict == ~alive /\ Quiet => \A b \in Bufs : mem[b] = "freed"
(* modulo the recorded deviation: only KeyRefcountRace loses a buffer *)
ReleasedAllFreed == ~alive /\ Quiet => \A b \in Bufs : mem[b] \in {"freed", "lost"}
HeldIsLive == \A h \in Hs : hand[h] # NoBuf => mem[hand[h]] = "live"
(* exhaustion is an action of the kernel / constructor, never a disabled request *)
NoStuck == \A o \in Ops : alive /\ ink[o] /\ (pend[o] > 0 \/ AtEnd(o)) /\ ~(Kind = "fallback" /\ creq[o] /\ o \notin FileOps)
                            => ENABLED Kernel(o)

Safe == /\ TypeOK /\ ExclusiveOwner /\ SlotMeaning /\ ProvidedIsPool /\ NoAlias /\ Conservation
        /\ NoDoubleFree /\ LiveWhileAlive /\ ReleasedAllFreed /\ HeldIsLive /\ NoStuck

SafeStrict == Safe /\ ReleasedAllFreedStrict

(* no hang: a request with readable data (or at end of data) gets a result - a buffer or an error - whatever
   the number of free buffers; a cancelled request is reaped *)
Answered(o) == (alive /\ ost[o] = "armed" /\ (pend[o] > 0 \/ AtEnd(o))) ~> (~alive \/ ost[o] # "armed" \/ mq[o] # <<>>)
Reaped(o)   == (alive /\ ost[o] = "zombie") ~> (~alive \/ ost[o] # "zombie")
Live == \A o \in Ops : Answered(o) /\ Reaped(o)
=============================================================================
