\* Limit 3, two dispatching threads, five jobs (two of them panicking raw jobs)
CONSTANTS
  Limit = 3
  Jobs = {"j1", "j2", "j3", "j4", "j5"}
  Disp = {"D1", "D2"}
  NW = 5
  PanicJobs = {"j2", "j5"}
  Caught = FALSE
  DriverLoop = FALSE
  Fix = TRUE
  TimedFifo = FALSE
SPECIFICATION Spec
INVARIANTS Safety Bounded ThreadsBounded NoDeviation
