SPECIFICATION Spec
CONSTANTS
  RawMode = TRUE
  Inputs <- InputsHostileThorough
  FixStaleTimer = FALSE
  AllowLongCsi = TRUE
  MaxTok = 24
  Mut = ""
INVARIANTS
  TypeOK
  NoPanic
  TimerOnlyForEsc
  EscAlwaysTimed
  CutIsNeedMore
  BufferBounded
  BufferShort
PROPERTIES
  Progress
