CONSTANTS
  MaxTasks = 1
  MaxWorkers = 1
  MaxSenders = 1
  NWChoices = {1}
  ModeChoices = {TRUE, FALSE}
  FaultChoices = {"none"}
  PoolChoices = {1}
  KindChoices = {"async"}
  BodyPanics = FALSE
  BodyUsesPool = TRUE
  JoinerOnPool = TRUE
  ReceiverDrops = FALSE
  SkipIfReceiverGone = FALSE
SPECIFICATION FairSpec
PROPERTIES JoinReturns
