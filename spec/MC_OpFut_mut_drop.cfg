CONSTANTS
  Driver = "poll"
  Shapes <- ShapesCtl
  MaxSteps = 6
  MaxCancel = 2
  MaxFeed = 2
  Eager = FALSE
  FixListen = FALSE
  FixFFStream = FALSE
  MutPersDropsCancel = FALSE
  MutNoDropCancel = TRUE
  MutNoWaker = FALSE
SPECIFICATION Spec
INVARIANTS DropCancels
