CONSTANTS
  Cap = 4
  InitLens = {0, 2, 4}
  Kinds = {"exact", "grow", "fixed"}
  MaxDepth = 3
  MaxSteps = 4
SPECIFICATION Spec
INVARIANTS ContractModuloKnown AlwaysInside
