\* non-vacuity control for EncloseTruncates: RoundTrip itself must be violated
\* RoundTrip holds; the strict variant (RoundTrip) must be violated.
CONSTANTS
  FixExtractOverflow = TRUE
  FixFramerError = TRUE
  Lfls = {1}
  HostLfls = {1}
  Endians = {TRUE, FALSE}
  DelimKinds = {}
  HostDelimKinds = {}
  WithNoop = FALSE
  WithLim = FALSE
  Codecs = {"bytes"}
  PayAlpha = {}
  MaxPay = 0
  MaxFrames = 1
  BigPays = {255, 256}
  WideFrom = 3
  WideMaxPay = 0
  WideMaxFrames = 0
  WideHostAlpha = {}
  WideHostExtra = 0
  Modes = {"rt"}
  HostAlpha = {}
  HostExtra = 0
  ChunkMin = 16
  ChunkMax = 16
  WLimits = {16}
  ZeroReads = 0
  MaxErr = 0
  AfterDone = 0
SPECIFICATION Spec
INVARIANTS SinkExact RoundTrip InRange PosInside NoPanic
