\* control with the pinned (unrepaired) extract: FixExtractOverflow = FALSE must violate NoPanic
CONSTANTS
  FixExtractOverflow = FALSE
  FixFramerError = TRUE
  Lfls = {8}
  HostLfls = {8}
  Endians = {TRUE, FALSE}
  DelimKinds = {}
  HostDelimKinds = {}
  WithNoop = FALSE
  WithLim = FALSE
  Codecs = {"bytes"}
  PayAlpha = {1}
  MaxPay = 0
  MaxFrames = 0
  BigPays = {}
  WideFrom = 3
  WideMaxPay = 0
  WideMaxFrames = 0
  WideHostAlpha = {0, 255}
  WideHostExtra = 0
  Modes = {"hostlazy"}
  HostAlpha = {0, 255}
  HostExtra = 0
  ChunkMin = 1
  ChunkMax = 16
  WLimits = {16}
  ZeroReads = 0
  MaxErr = 0
  AfterDone = 0
SPECIFICATION Spec
INVARIANTS NoPanic
