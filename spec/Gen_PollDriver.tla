--------------------------- MODULE Gen_PollDriver ---------------------------
(* Behaviour printer for PollDriver: schedules of submitter commands and harness-caused
   readiness (feed) with the hook events expected per step; replayed on the real polling
   driver by harness bin drv_replay. *)
EXTENDS PollDriver, Json

CONSTANTS o1, o2, o3, MaxLen
KindDef == (o1 :> "single") @@ (o2 :> "single") @@ (o3 :> "blocking")
FdDef == (o1 :> 1) @@ (o2 :> 1) @@ (o3 :> 2)
KindDef2 == (o1 :> "single") @@ (o2 :> "single") @@ (o3 :> "single")
FdAll1 == (o1 :> 1) @@ (o2 :> 1) @@ (o3 :> 1)
DirR == (o1 :> "r") @@ (o2 :> "r") @@ (o3 :> "r")
DirRW == (o1 :> "r") @@ (o2 :> "w") @@ (o3 :> "r")
DirRRW == (o1 :> "r") @@ (o2 :> "r") @@ (o3 :> "w")
OpName(o) == IF o = o1 THEN "o1" ELSE IF o = o2 THEN "o2" ELSE "o3"

VARIABLE hist
gvars == <<vars, hist>>

EvJ(evs) == [i \in 1..Len(evs) |-> [ev |-> evs[i].ev, op |-> OpName(evs[i].op), a |-> evs[i].a, fd |-> evs[i].fd]]
Step(a, o, f) == hist' = Append(hist, [act |-> a, op |-> OpName(o), fd |-> f, evs |-> EvJ(last')])

GInit == Init /\ hist = <<>>
GNext ==
  /\ (Len(hist) < MaxLen \/ (drv = "gone" /\ jobs = {} /\ chan # <<>>))
  /\ IF Len(hist) >= MaxLen
       THEN DropChan /\ Step("dropchan", o1, 0)
       ELSE \/ \E o \in Ops :
                 \/ Push(o) /\ Step("push", o, FdOf[o])
                 \/ PushBlocking(o) /\ Step("push", o, 0)
                 \/ PoolRun(o) /\ Step("poolrun", o, 0)
                 \/ Pop(o) /\ Step("pop", o, 0)
                 \/ Cancel(o) /\ Step("cancel", o, 0)
                 \/ MakeToken(o) /\ Step("token", o, 0)
                 \/ FireToken(o) /\ Step("fire", o, 0)
                 \/ KeyDrop(o) /\ Step("keydrop", o, 0)
            \* readiness is only caused while somebody waits for it (otherwise nothing could be submitted on that
            \* descriptor any more: the harness submits receivers on empty and senders on full sockets)
            \/ \E f \in Fds : q[f].r # <<>> /\ Feed(f) /\ Step("feed", o1, f)
            \/ \E f \in Fds : q[f].w # <<>> /\ Drain(f) /\ Step("drain", o1, f)
            \/ Poll /\ Step("poll", o1, 0)
            \/ DropDriver /\ Step("dropdrv", o1, 0)
            \/ DropChan /\ Step("dropchan", o1, 0)
            \/ End /\ Step("end", o1, 0)
GSpec == GInit /\ [][GNext]_gvars

Done == (mon.ended \/ Len(hist) >= MaxLen) /\ ~(drv = "gone" /\ jobs = {} /\ chan # <<>>)
EmitInv == Done => PrintT(<<"REPLAY", ToJson([driver |-> "poll", sqcap |-> 8,
                                              kinds |-> [o1 |-> Kind[o1], o2 |-> Kind[o2], o3 |-> Kind[o3]],
                                              fds |-> [o1 |-> FdOf[o1], o2 |-> FdOf[o2], o3 |-> FdOf[o3]],
                                              dirs |-> [o1 |-> Dir[o1], o2 |-> Dir[o2], o3 |-> Dir[o3]],
                                              steps |-> hist])>>)
=============================================================================
