---------------------------- MODULE TermStream ----------------------------
(* compio-term EventSource::poll_next / EventStream (src/event/sys/unix/mod.rs, input/multishot.rs, stream.rs):
   which source wakes a pending next().  Check X05 part 2.
   One poll_next is atomic (single threaded); between polls the kernel completes the multishot read, the escape timer
   fires, SIGWINCH arrives.  The parser is abstracted to three buffer classes (empty, lone ESC, unfinished control
   sequence) and four chunks: k = a key, e = ESC, p = ESC [, f = a final byte.  Every source has a "registered waker"
   bit: a source that becomes ready wakes the task only if the last poll left the task's waker with it.
   PL = the loop of poll_next, arm by arm in the order of the code. *)
EXTENDS Integers, Sequences, FiniteSets, TLC, Json

CONSTANTS MaxFeed, MaxWinch, MaxDrop,
          Eager,     \* generator: kernel, wake and polls are composed into every environment step
          Mut        \* "" | "no_escape_poll" | "no_timer_poll" (harmless: the loop polls the timer again) | "no_resize_repoll" | "no_input_waker"

VARIABLES s,         \* the stream, the kernel side of its sources and the task
          inq,       \* chunks in the terminal's input queue (not yet read by anybody)
          nfeed, nwinch, ndrop, steps
vars == <<s, inq, nfeed, nwinch, ndrop, steps>>

Chunks == {"k", "e", "p", "f"}
\* Parser::advance on a chunk: <<buffer class, events>>
Adv(b, c) ==
  CASE b = "empty" /\ c = "k" -> <<"empty", <<"k">>>>   [] b = "empty" /\ c = "e" -> <<"esc", <<>>>>
    [] b = "empty" /\ c = "p" -> <<"part", <<>>>>       [] b = "empty" /\ c = "f" -> <<"empty", <<"f">>>>
    [] b = "esc" /\ c = "k" -> <<"empty", <<"ak">>>>    [] b = "esc" /\ c = "e" -> <<"empty", <<"Esc">>>>
    [] b = "esc" /\ c = "p" -> <<"empty", <<"Esc", "[">>>>  [] b = "esc" /\ c = "f" -> <<"empty", <<"af">>>>
    [] b = "part" /\ c = "k" -> <<"empty", <<>>>>       [] b = "part" /\ c = "e" -> <<"part", <<>>>>
    [] b = "part" /\ c = "p" -> <<"empty", <<>>>>       [] b = "part" /\ c = "f" -> <<"empty", <<"Up">>>>

Fresh == [live |-> TRUE, pbuf |-> "empty", pev |-> <<>>, cq |-> <<>>, op |-> FALSE, inW |-> FALSE,
          tmr |-> "none", tmrW |-> FALSE, rsz |-> FALSE, rszW |-> FALSE, task |-> "ready", woken |-> FALSE, ret |-> "", polled |-> FALSE, lostw |-> FALSE]

\* update_escape_timer
UpdTimer(x) ==
  IF x.pbuf # "esc" THEN [x EXCEPT !.tmr = "none", !.tmrW = FALSE]
  ELSE IF x.tmr = "none" THEN [x EXCEPT !.tmr = "armed", !.tmrW = (Mut # "no_timer_poll")]   \* let _ = Pin::new(&mut timer).poll(cx)
  ELSE x

RECURSIVE PL(_)
PL(x) ==
  IF x.pev # <<>> THEN [x EXCEPT !.ret = Head(x.pev), !.pev = Tail(x.pev)]
  ELSE
  LET x1 == IF Mut = "no_escape_poll" THEN x ELSE IF x.tmr = "fired"                                                   \* poll_escape_timer
            THEN [x EXCEPT !.tmr = "none", !.tmrW = FALSE,
                           !.pev = IF x.pbuf = "esc" THEN <<"Esc">> ELSE <<>>,
                           !.pbuf = IF x.pbuf = "esc" THEN "empty" ELSE x.pbuf]
            ELSE IF x.tmr = "armed" THEN [x EXCEPT !.tmrW = TRUE] ELSE x
  IN IF x1.pev # <<>> THEN [x1 EXCEPT !.ret = Head(x1.pev), !.pev = Tail(x1.pev)]
     ELSE IF x1.cq # <<>>                                                        \* Input::poll_read -> Data
     THEN LET a == Adv(x1.pbuf, Head(x1.cq)) IN
          PL(UpdTimer([x1 EXCEPT !.cq = Tail(x1.cq), !.pbuf = a[1], !.pev = a[2]]))
     ELSE LET x2 == [x1 EXCEPT !.op = TRUE, !.inW = (Mut # "no_input_waker"), !.polled = TRUE] IN   \* Pending: submitted, waker stored
          IF x2.rsz                                                              \* poll_resize
          THEN [x2 EXCEPT !.rsz = FALSE, !.rszW = (Mut # "no_resize_repoll"), !.ret = "Resize"]
          ELSE [UpdTimer([x2 EXCEPT !.rszW = TRUE]) EXCEPT !.ret = "pending"]

\* the task polls until Pending; <<stream, items>>
RECURSIVE Settle(_)
Settle(x) == LET r == PL(x) IN
             IF r.ret = "pending" THEN <<[r EXCEPT !.task = "parked", !.woken = FALSE], <<>>>>
             ELSE LET n == Settle(r) IN <<n[1], <<r.ret>> \o n[2]>>

Bytes(c) == CASE c = "k" -> <<97>> [] c = "e" -> <<27>> [] c = "p" -> <<27, 91>> [] c = "f" -> <<65>>
KeyEv(cp, m) == [t |-> "key", c |-> <<"Char", cp>>, m |-> m, k |-> 1, s |-> 0, p |-> <<>>]
EvOf(i, w) == CASE i = "k" -> KeyEv(97, 0) [] i = "ak" -> KeyEv(97, 4) [] i = "f" -> KeyEv(65, 1) [] i = "af" -> KeyEv(65, 5)
                [] i = "[" -> KeyEv(91, 0)
                [] i = "Esc" -> [t |-> "key", c |-> <<"Esc", 0>>, m |-> 0, k |-> 1, s |-> 0, p |-> <<>>]
                [] i = "Up" -> [t |-> "key", c |-> <<"Up", 0>>, m |-> 0, k |-> 1, s |-> 0, p |-> <<>>]
                [] i = "Resize" -> [t |-> "resize", c |-> <<"", 0>>, m |-> 0, k |-> 80 + w, s |-> 24 + w, p |-> <<>>]
Evs(items, w) == [j \in 1..Len(items) |-> EvOf(items[j], w)]

Init == /\ s = Fresh /\ inq = <<>> /\ nfeed = 0 /\ nwinch = 0 /\ ndrop = 0 /\ steps = <<>>

\* ---------------------------------------------------------------- free running (model checking)
Poll == /\ ~Eager /\ s.live /\ s.task = "ready"
        /\ LET r == PL(s) IN
           s' = IF r.ret = "pending" THEN [r EXCEPT !.task = "parked", !.woken = FALSE] ELSE r
        /\ UNCHANGED <<inq, nfeed, nwinch, ndrop, steps>>
Wake == /\ ~Eager /\ s.live /\ s.task = "parked" /\ s.woken
        /\ s' = [s EXCEPT !.task = "ready"]
        /\ UNCHANGED <<inq, nfeed, nwinch, ndrop, steps>>
Feed(c) == /\ ~Eager /\ nfeed < MaxFeed /\ nfeed' = nfeed + 1 /\ inq' = Append(inq, c)
           /\ UNCHANGED <<s, nwinch, ndrop, steps>>
\* the multishot read completes into a pool buffer; the stored waker stays with the operation
KernelRead == /\ ~Eager /\ s.live /\ s.op /\ inq # <<>>
              /\ s' = [s EXCEPT !.cq = s.cq \o inq, !.woken = (s.woken \/ s.inW)]
              /\ inq' = <<>> /\ UNCHANGED <<nfeed, nwinch, ndrop, steps>>
TimerFire == /\ ~Eager /\ s.live /\ s.tmr = "armed"
             /\ s' = [s EXCEPT !.tmr = "fired", !.woken = (s.woken \/ s.tmrW)]
             /\ UNCHANGED <<inq, nfeed, nwinch, ndrop, steps>>
\* SIGWINCH: only a registered listener notices it (the one shot listener is consumed)
Winch == /\ ~Eager /\ nwinch < MaxWinch /\ nwinch' = nwinch + 1
         /\ s' = IF s.live /\ s.rszW THEN [s EXCEPT !.rsz = TRUE, !.rszW = FALSE, !.woken = TRUE]
                 ELSE IF s.live /\ s.polled /\ ~s.rsz THEN [s EXCEPT !.lostw = TRUE] ELSE s
         /\ UNCHANGED <<inq, nfeed, ndrop, steps>>
\* drop: the read is cancelled; completed buffers, the parser buffer and parsed events go with the stream, the
\* terminal's queue stays
Drop == /\ ~Eager /\ s.live /\ ndrop < MaxDrop /\ ndrop' = ndrop + 1
        /\ s' = [Fresh EXCEPT !.live = FALSE]
        /\ UNCHANGED <<inq, nfeed, nwinch, steps>>
New == /\ ~Eager /\ ~s.live /\ s' = Fresh /\ UNCHANGED <<inq, nfeed, nwinch, ndrop, steps>>

\* ---------------------------------------------------------------- generator: one harness step = environment event,
\* kernel completion, wake, polls until Pending
Run(x) == IF x.live /\ x.woken THEN Settle(x) ELSE <<x, <<>>>>
ERead(c) == /\ Eager /\ nfeed < MaxFeed /\ nfeed' = nfeed + 1
            /\ IF s.live /\ s.op
               THEN LET r == Run([s EXCEPT !.cq = s.cq \o inq \o <<c>>, !.woken = s.inW]) IN
                    /\ s' = r[1] /\ inq' = <<>>
                    /\ steps' = Append(steps, [a |-> "read", b |-> Bytes(c), ev |-> Evs(r[2], 0), cols |-> 0, rows |-> 0])
               ELSE /\ inq' = Append(inq, c) /\ s' = s
                    /\ steps' = Append(steps, [a |-> "read", b |-> Bytes(c), ev |-> <<>>, cols |-> 0, rows |-> 0])
            /\ UNCHANGED <<nwinch, ndrop>>
ETimeout == /\ Eager /\ s.live /\ s.tmr = "armed"
            /\ LET r == Run([s EXCEPT !.tmr = "fired", !.woken = s.tmrW]) IN
               /\ s' = r[1] /\ steps' = Append(steps, [a |-> "timeout", b |-> <<>>, ev |-> Evs(r[2], 0), cols |-> 0, rows |-> 0])
            /\ UNCHANGED <<inq, nfeed, nwinch, ndrop>>
\* (no resize, second stream or drop while the escape timer runs: the replay cannot order them against real time)
EWinch == /\ Eager /\ s.live /\ s.rszW /\ s.tmr # "armed" /\ nwinch < MaxWinch /\ nwinch' = nwinch + 1
          /\ LET r == Run([s EXCEPT !.rsz = TRUE, !.rszW = FALSE, !.woken = TRUE]) IN
             /\ s' = r[1]
             /\ steps' = Append(steps, [a |-> "winch", b |-> <<>>, ev |-> Evs(r[2], nwinch'), cols |-> 80 + nwinch', rows |-> 24 + nwinch'])
          /\ UNCHANGED <<inq, nfeed, ndrop>>
ESecond == /\ Eager /\ s.live /\ s.tmr # "armed" /\ Len(steps) > 0 /\ steps[Len(steps)].a # "new"
           /\ steps' = Append(steps, [a |-> "new", b |-> <<>>, ev |-> <<[t |-> "err", e |-> "AlreadyExists"]>>, cols |-> 0, rows |-> 0])
           /\ UNCHANGED <<s, inq, nfeed, nwinch, ndrop>>
EDrop == /\ Eager /\ s.live /\ s.tmr # "armed" /\ ndrop < MaxDrop /\ ndrop' = ndrop + 1
         /\ s' = [Fresh EXCEPT !.live = FALSE]
         /\ steps' = Append(steps, [a |-> "drop", b |-> <<>>, ev |-> <<>>, cols |-> 0, rows |-> 0])
         /\ UNCHANGED <<inq, nfeed, nwinch>>
\* a new stream: first poll submits the read, the kernel completes it with what waits in the terminal
ENew == /\ Eager /\ ~s.live
        /\ LET first == Settle(Fresh)
               r == IF inq = <<>> THEN first ELSE Run([first[1] EXCEPT !.cq = inq, !.woken = first[1].inW]) IN
           /\ s' = r[1] /\ inq' = <<>>
           /\ steps' = Append(steps, [a |-> "new", b |-> <<>>, ev |-> Evs(first[2] \o r[2], 0), cols |-> 0, rows |-> 0])
        /\ UNCHANGED <<nfeed, nwinch, ndrop>>
EStart == /\ Eager /\ steps = <<>> /\ s.task = "ready"
          /\ s' = Settle(s)[1]
          /\ steps' = <<[a |-> "new", b |-> <<>>, ev |-> <<>>, cols |-> 0, rows |-> 0]>>
          /\ UNCHANGED <<inq, nfeed, nwinch, ndrop>>

Next == \/ Poll \/ Wake \/ KernelRead \/ TimerFire \/ Winch \/ Drop \/ New \/ (\E c \in Chunks : Feed(c))
        \/ EStart \/ (steps # <<>> /\ ((\E c \in Chunks : ERead(c)) \/ ETimeout \/ EWinch \/ ESecond \/ EDrop \/ ENew))
Spec == Init /\ [][Next]_vars
FairSpec == Spec /\ WF_vars(Poll) /\ WF_vars(Wake) /\ WF_vars(KernelRead) /\ WF_vars(TimerFire) /\ WF_vars(New)

\* ---------------------------------------------------------------- properties
TypeOK == /\ s.pbuf \in {"empty", "esc", "part"} /\ s.tmr \in {"none", "armed", "fired"} /\ s.task \in {"ready", "parked"}
\* a parked task that was not woken has nothing to do: no completed read, no expired timer, no signal
NoLostWake == (s.live /\ s.task = "parked" /\ ~s.woken) => (s.cq = <<>> /\ s.tmr # "fired" /\ ~s.rsz)
\* a parked task has its waker with every source it waits for, and a lone ESC always has a timer
Registered == (s.live /\ s.task = "parked") =>
                 /\ s.op /\ (s.inW \/ s.woken) /\ (s.rszW \/ s.rsz) /\ (s.tmr = "armed" => s.tmrW)
                 /\ (s.pbuf = "esc" => s.tmr \in {"armed", "fired"})
TimerOnlyForEsc == (s.live /\ s.tmr # "none" /\ s.task = "parked") => s.pbuf = "esc"
\* a SIGWINCH that arrives after the first poll of a live stream always finds a listener (or an unreported resize)
NoLostWinch == ~s.lostw
\* liveness: input is parsed, a lone ESC is resolved, a resize is reported
InputConsumed == (s.live /\ (inq # <<>> \/ s.cq # <<>>)) ~> (~s.live \/ (inq = <<>> /\ s.cq = <<>>))
EscResolves == (s.live /\ s.pbuf = "esc") ~> (~s.live \/ s.pbuf # "esc")
ResizeReported == (s.live /\ s.rsz) ~> (~s.live \/ ~s.rsz)

Emit == (Eager /\ nfeed = MaxFeed /\ Len(steps) > 1) => PrintT(<<"REPLAY", ToJson([k |-> "stream", raw |-> TRUE, steps |-> steps])>>)
\* one printed path for every distinct state and kind of the step that led to it
View == <<s, inq, nfeed, nwinch, ndrop, IF steps = <<>> THEN "" ELSE steps[Len(steps)].a>>
=============================================================================
