SPECIFICATION Spec
CONSTANTS
  RawMode = TRUE
  Inputs <- InputsStale
  FixStaleTimer = TRUE
  AllowLongCsi = TRUE
  MaxTok = 24
  Mut = ""
INVARIANTS
  TypeOK
  NoPanic
  TimerOnlyForEsc
  EscAlwaysTimed
  CutIsNeedMore
  BufferBounded
  BufferShort
  TimerFresh
PROPERTIES
  Progress
