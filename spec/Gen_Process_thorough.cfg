CONSTANTS
  K = 2
  EchoBuf = 1
  NIns = {0, 1, 2, 3, 4, 6, 8}
  NOuts = {0, 1, 2, 3, 4}
  NErrs = {0, 1, 3, 4}
  WChunks = {0, 1, 2, 3}
  RChunks = {0, 1, 2}
  IoStatuses = {"c0"}
  Codes = {"c0", "c1", "c3", "c255"}
  Sigs = {"s15", "s9", "s2"}
  Drivers = {"iour", "poll"}
  Impls = {"blocking", "pidfd"}
  Families = {"echo", "consumer", "producer", "exit", "status", "held"}
  BlockingChildPipes = FALSE
SPECIFICATION Spec
INVARIANTS Emit TypeOK InOrder Conservation WaitSafe CompleteAtEnd NoDeadlockStrict LiveAtTerminal
