SPECIFICATION FairSpec
CONSTANTS
  MaxFeed = 3
  MaxWinch = 1
  MaxDrop = 1
  Eager = FALSE
  Mut = ""
VIEW View
PROPERTIES
  InputConsumed
  EscResolves
  ResizeReported
