CONSTANTS
  Handles = {"h1", "h2", "h3", "o1"}
  Ops = {"o1"}
  InitLive = {}
  Variant = "unsync"
  AllowClone = TRUE
  AllowTake2 = TRUE
  AllowCancel = TRUE
  AllowSpurious = TRUE
  FileLayer = FALSE
  SilentRelease = FALSE
  ForgetsHandle = FALSE
  MaxMigrate = 2
  RegisterOnce = FALSE
SPECIFICATION FairSpec
INVARIANTS Safe NoStrand SlotIsLatest
PROPERTIES Live NoLeakLive
