CONSTANTS
  Driver = "iour"
  Shapes <- ShapesCtl2
  MaxSteps = 6
  MaxCancel = 2
  MaxFeed = 2
  Eager = FALSE
  FixListen = FALSE
  FixFFStream = FALSE
  MutPersDropsCancel = FALSE
  MutNoDropCancel = FALSE
  MutNoWaker = FALSE
SPECIFICATION Spec
INVARIANTS ListenCoversPast NoPanic
