CONSTANTS
  Threads = {1, 2}
  Layouts <- LayoutsGenThree
  Muts <- MutsNone
  Sigs = {"a", "b"}
  BadSigs = {"k"}
  MaxRaise = 4
  RaiseOn = {0, 1, 2}
  SpuriousPolls = TRUE
  FixLeak = FALSE
  MaxNL = 3
  MaxSteps = 12
  AutoPoll = FALSE
  AllowPark = TRUE
  EmitAll = FALSE
SPECIFICATION GSpec
INVARIANTS GenSafe Emit
