CONSTANTS
  NS = 2
  Units = 2
  Lens = {2}
  Wins = {1}
  ConnWin = 2
  MaxStreamss = {1}
  NDg = 0
  DgCap = 1
  DgReaders = 1
  DgWakeAll = TRUE
  FinishWakes = TRUE
  AllowReset = FALSE
  AllowStop = FALSE
  AllowLoss = FALSE
  Extra = {}
  CloseKinds = {}
  Deviations = {}
SPECIFICATION Spec
INVARIANTS TypeOK InOrderExactlyOnce FinAfterLastByte FlowControl NoStrandedFutureStrict NoLostWakeup ClosedTablesEmpty ClosedNobodyPending AbsInv
PROPERTIES ErrorAfterClose Independence AbsRefines
