------------------------- MODULE Gen_AsyncifyPool -------------------------
(* Schedule generator for AsyncifyPool (C17); replayed by harness bin pool_replay.

   ESpec  prints every edge of the labelled state graph once (exhaustive run): lib/checks/c17.py
          builds the graph and computes an edge-covering path set (quick tier).
   GSpec  carries the schedule as a history variable and prints one JSON line per behaviour
          (-simulate, seeded: thorough tier).
   Every step carries the role that moves, the job, and the complete model state after the step;
   the harness projects the real threads onto the same record (hook site per role, counter at the
   load hook, started/finished jobs) and compares after every step.
   Real-time feasibility: TimedFifo = TRUE in the configs (all receivers have the same timeout). *)
EXTENDS AsyncifyPool, Json

CONSTANTS MaxLen, NoTimeout

VARIABLE hist
gvars == <<vars, hist>>

SR == [pcD |-> pcD, cur |-> cur, pcW |-> pcW, wjob |-> wjob, waiting |-> waiting, sending |-> sending,
       counter |-> counter, ran |-> ran, fin |-> fin, over |-> over, orphan |-> orphan, todo |-> todo]

Cfg == [limit |-> Limit, jobs |-> Jobs, disp |-> Disp, nw |-> NW, panic |-> PanicJobs, caught |-> Caught,
        loop |-> DriverLoop]

\* labelled next-state relation: L(action name, role, job) is evaluated with all primed variables known
LNext(L(_, _, _)) ==
  \/ \E d \in Disp : \E j \in Jobs : DCall(d, j) /\ L("DCall", d, j)
  \/ \E d \in Disp :
       \/ DTry(d) /\ L("DTry", d, cur[d])
       \/ DLoadReject(d) /\ L("DLoadReject", d, cur[d])
       \/ DLoadPass(d) /\ L("DLoadPass", d, cur[d])
       \/ DLoadPassLagged(d) /\ L("DLoadPassLagged", d, cur[d])
       \/ DReserve(d) /\ L("DReserve", d, cur[d])
       \/ DSpawn(d) /\ L("DSpawn", d, cur[d])
       \/ DSend(d) /\ L("DSend", d, cur[d])
  \/ \E w \in Workers :
       \/ WInc(w) /\ L("WInc", w, NoJob)
       \/ WRecv(w) /\ L("WRecv", w, NoJob)
       \/ WRun(w) /\ L("WRun", w, wjob[w])
       \/ WDone(w) /\ L("WDone", w, wjob[w])
       \/ (~NoTimeout /\ WTimeout(w) /\ L("WTimeout", w, NoJob))
       \/ WExit(w) /\ L("WExit", w, NoJob)

EdgeL(a, r, j) ==
  /\ hist' = hist
  /\ PrintT(<<"EDGE", ToJson([act |-> a, role |-> r, job |-> j, from |-> SR, to |-> SR'])>>)
ENext == LNext(EdgeL)
EInit == Init /\ hist = <<>>
ESpec == EInit /\ [][ENext]_gvars
EmitCfg == PrintT(<<"EDGE", ToJson([cfg |-> Cfg, init |-> SR])>>)

HistL(a, r, j) == hist' = Append(hist, [act |-> a, role |-> r, job |-> j, to |-> SR'])
GNext == Len(hist) < MaxLen /\ LNext(HistL)
GSpec == EInit /\ [][GNext]_gvars
Quiet == /\ todo = {} /\ \A d \in Disp : pcD[d] = "idle"
         /\ \A w \in Workers : pcW[w] \in {"unborn", "dead"}
Emit == (Len(hist) = MaxLen \/ (Quiet /\ hist # <<>>)) =>
          PrintT(<<"REPLAY", ToJson([cfg |-> Cfg, steps |-> hist])>>)
=============================================================================
