\* thorough: exhaustive safety, two futures of any kind, up to three timers per program
CONSTANTS
  N = 2
  Deadlines = {0, 1, 2}
  Periods = {2}
  Kinds = {"sleep", "timeout", "interval"}
  NW = 1
  MaxNow = 3
  MaxGen = 3
  Mut = "none"
SPECIFICATION Spec
INVARIANTS TypeOK WheelExact WakerOwner NeverEarly AlwaysFires ReadyWhenDue MinTimeoutCorrect IdleSleepBound TimeoutExact IntervalAligned
