-------------------------- MODULE Gen_SecureLayer --------------------------
(* Behaviour printer for SecureLayer. The decisions the transport took at the successive transport
   calls of each endpoint (per-call limit, Pending or Ready) are carried as a history variable;
   at the end of the behaviour the schedule is printed together with the parameters TLC chose
   (buffering, payload class, initiating role, which endpoint moved first) and what the model
   concluded for its own backend / handshake shape. The harness binaries replay_tls and replay_ws
   apply the schedule, cyclically, to the transport calls of the real layers.                  *)
EXTENDS SecureLayer, Json

CONSTANT MaxSched          \* longest schedule recorded per endpoint

VARIABLES sch, first, cap     \* cap: length at which this behaviour's schedule is cut (it is replayed cyclically)
gvars == <<vars, sch, first, cap>>

Rec(e, l, p) ==
  /\ sch' = [sch EXCEPT ![e] = IF Len(@) < cap THEN Append(@, [l |-> l, p |-> p]) ELSE @]
  /\ first' = IF first = "" THEN e ELSE first
  /\ UNCHANGED cap

GInit == Init /\ sch = [e \in E |-> <<>>] /\ first = "" /\ cap \in 1..MaxSched

GNext == \E e \in E :
           \/ (Ctl(e) /\ UNCHANGED <<sch, first, cap>>)
           \/ \E l \in Limits, p \in BOOLEAN : TrSized(e, l, p) /\ Rec(e, l, p)
           \/ \E p \in BOOLEAN : TrFlush(e, p) /\ Rec(e, 0, p)

GSpec == GInit /\ [][GNext]_gvars

ModelOk == AllDone /\ \A e \in E : pc[e] = "done" /\ eof[e] /\ Len(recv[e]) = payload

Emit == Terminal =>
          PrintT(<<"REPLAY", ToJson([buffering |-> buffering, payload |-> payload, init |-> init,
                                     first |-> (IF first = "" THEN "c" ELSE first),
                                     sched |-> sch,
                                     model |-> [backend |-> backend, shape |-> shape, ok |-> ModelOk,
                                                dev |-> dev]])>>)
=============================================================================
