--------------------------- MODULE Gen_Ancillary ---------------------------
(* Behaviour printer for Ancillary: one JSON line per finished build-then-iterate run;
   replayed by the harness binary replay_ancillary on the real AncillaryBuilder /
   AncillaryIter over AncillaryBuf<N> and an aligned heap buffer. *)
EXTENDS Ancillary, Json

VARIABLES reqs0
gvars == <<vars, reqs0>>

GInit == Init /\ reqs0 = reqs
GNext == Next /\ UNCHANGED reqs0
GSpec == GInit /\ [][GNext]_gvars

Emit == phase \in {"done", "panic"} =>
  PrintT(<<"REPLAY", ToJson([cap |-> cap, sizes |-> reqs0, res |-> res, blen |-> blen,
                             msgs |-> msgs, got |-> got, phase |-> phase, where |-> where,
                             hdr |-> Hdr, align |-> Align])>>)
=============================================================================
