\* non-vacuity control: without the named deviation DataSliceIncludesHeader the model must violate DataSliceExact
CONSTANTS
  Caps = {16, 24, 32}
  Sizes = {0, 1, 8}
  MaxMsgs = 2
  Hdr = 16
  Align = 8
SPECIFICATION Spec
INVARIANTS DataSliceExact
