\* control with the pinned (unrepaired) decode_data: FixDataSlice = FALSE must violate DataSliceExact
CONSTANTS
  FixIterShort = TRUE
  FixDataSlice = FALSE
  Caps = {16, 24, 32}
  Sizes = {0, 1, 8}
  MaxMsgs = 2
  Hdr = 16
  Align = 8
SPECIFICATION Spec
INVARIANTS DataSliceExact
