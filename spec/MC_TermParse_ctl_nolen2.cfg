SPECIFICATION Spec
CONSTANTS
  RawMode = TRUE
  Inputs <- InputsCtl
  FixStaleTimer = FALSE
  AllowLongCsi = TRUE
  MaxTok = 24
  Mut = "no_len2"
INVARIANTS
  NoPanic
PROPERTIES
  Progress
