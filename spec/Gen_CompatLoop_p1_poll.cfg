CONSTANTS
  w1 = w1
  w2 = w2
  Wakers = {w1}
  Target <- TgtW1T1
  Tasks = {"t1"}
  QCap = 2
  Mode = "external"
  Driver = "poll"
  Eager = TRUE
  ArmInFlush = TRUE
  WakeAfterPush = TRUE
  Overflow = FALSE
  Hosts = {"tokio","futures"}
  Muts = {"none"}
  Ops = {"o1"}
  Timers = {"s1"}
  Jobs = {}
  Owner <- OwnP1
  AnyTurn = FALSE
  MaxLen = 400
  JobLast = FALSE
  JobAt = {}
  OpAt = {}
  WakeAt = {}
SPECIFICATION GSpec
INVARIANTS EmitInv
