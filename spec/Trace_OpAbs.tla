----------------------------- MODULE Trace_OpAbs -----------------------------
(* Trace validation for C01/C02/C05: the events recorded from the real compio-driver
   (hooks + harness API events, one ndjson line each, runs separated by reset lines)
   drive the OpAbs monitor; TLC evaluates the contract invariant after every event.

   The trace spec accepts every well-formed event sequence (the monitor is total); a
   violated contract shows up as a violated invariant whose last state names the event,
   a line the monitor does not know ends the behaviour early and fails the postcondition. *)
EXTENDS OpAbs, Json, IOUtils

Rec == ndJsonDeserialize(IOEnv.TRACE)

VARIABLES l, mon, bad
tvars == <<l, mon, bad>>

TInit == l = 1 /\ mon = MonInit /\ bad = {}

Known == {"alloc", "free", "result", "cancelled", "submit", "cqe", "dropcqe", "cancelreq", "ringclosed",
          "dropfree", "psubmit", "ppop", "pcancel", "pevent", "bdispatch", "bstart", "bdone",
          "hsub", "htake", "hpending", "hready", "hbufdrop", "hdrvdrop", "hend", "hsetw", "hwoken", "hwchk", "reset"}

TNext ==
  /\ l <= Len(Rec)
  /\ Rec[l].ev \in Known
  /\ Rec[l].op \in Ops
  /\ l' = l + 1
  /\ IF Rec[l].ev = "reset"
       THEN mon' = MonInit /\ bad' = bad
       ELSE LET m2 == Ev(mon, Rec[l]) IN
              /\ mon' = [m2 EXCEPT !.viol = {}]       \* keep checking after a reported violation
              /\ bad' = bad \cup {<<l, v[1], v[2]>> : v \in m2.viol}

TSpec == TInit /\ [][TNext]_tvars

\* every violation is reported with its line number; the run is accepted when all lines were consumed
Accepted ==
  IF TLCGet("stats").diameter - 1 = Len(Rec)
    THEN PrintT(<<"TRACE_ACCEPTED", Len(Rec)>>)
    ELSE PrintT(<<"TRACE_REJECTED_AT", TLCGet("stats").diameter, Rec[TLCGet("stats").diameter]>>)

\* violations are collected (not an invariant) so that one run reports all of them:
\* printed from the final state
Report == (l = Len(Rec) + 1) => PrintT(<<"TRACE", ToJson([violations |-> bad])>>)
=============================================================================
