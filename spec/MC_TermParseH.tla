---------------------------- MODULE MC_TermParseH ----------------------------
(* the large hostile family of the thorough tier, apart from MC_TermParse because TLC evaluates every constant
   definition of a module when it starts *)
EXTENDS MC_TermParse
SigmaMid == {27, 91, 79, 77, 60, 59, 49, 126, 117, 65, 195, 169, 255, 63}
InputsHostileThorough == Strings(SigmaMid, 4) \ {<<>>}
=============================================================================
