CONSTANTS
  o1 = o1
  o2 = o2
  o3 = o3
  Ops = {o1, o2, o3}
  Kind <- KindZ
  SQCAP = 1
  MaxMore = 2
  MaxLen = 14
  Eager = TRUE
  FixCancelPush = TRUE
  FixDrainMore = TRUE
SPECIFICATION GSpec
INVARIANTS EmitInv
