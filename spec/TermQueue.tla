---------------------------- MODULE TermQueue ----------------------------
(* compio-term CommandQueue (src/command/mod.rs, multi.rs), check X05 part 3.
   State of the code: buffer (ANSI of the queued commands), written (how much of it the writer took), the writer.
   One action per step of the code: append (queue / queue_many: render into the buffer, truncate to the old length
   when a command fails), the loop of flush write by write (take the buffer, slice(written..), write, put it back;
   Ok(0) -> WriteZero, Ok(n) -> written += n, more than given -> InvalidData, Interrupted -> again, other error ->
   return), then clear + writer.flush().  CancelFlush = the flush future is dropped while a write is pending: the
   taken buffer is gone with the operation, `written` keeps its value (named deviation of the pinned code).
   The history (steps) is what Gen prints; the model checking configurations hide it with VIEW. *)
EXTENDS Integers, Sequences, FiniteSets, TLC, Json

CONSTANTS MaxCalls,     \* queue / queue_many calls
          MaxFlush,     \* flush calls
          MaxIntr,      \* Interrupted results per flush
          AllowCancel,  \* the environment may drop a flush future whose write is pending
          AllowLie,     \* the writer may claim more bytes than it was given
          FixCancel     \* FALSE = pinned code

VARIABLES buffer, written, sink, ref, fl, calls, flushes, intr, lying, cancelled, lastr, steps, script
core == <<buffer, written, sink, ref, fl, calls, flushes, intr, lying, cancelled, lastr>>
vars == <<core, steps, script>>

Bytes(i, l) == SubSeq(<<65 + i, 97 + i, 48 + i>>, 1, l)
Cmd(i, l, f) == [cmd |-> i, len |-> l, fail |-> f]
RECURSIVE Render(_)
Render(cs) == IF cs = <<>> THEN <<>> ELSE Bytes(cs[1].cmd, cs[1].len) \o Render(Tail(cs))
AnyFail(cs) == \E i \in 1..Len(cs) : cs[i].fail = 1
Pending == SubSeq(buffer, written + 1, Len(buffer))
Buffered == Len(buffer) - written           \* buffered_len(): usize subtraction, panics (debug) when written > len

Init == /\ buffer = <<>> /\ written = 0 /\ sink = <<>> /\ ref = <<>> /\ fl = "idle" /\ calls = 0 /\ flushes = 0
        /\ intr = 0 /\ lying = FALSE /\ cancelled = FALSE /\ lastr = "" /\ steps = <<>> /\ script = <<>>

\* CommandQueue::append: all or nothing
Append1(cs, many) ==
  /\ fl = "idle" /\ calls < MaxCalls
  /\ calls' = calls + 1
  /\ IF AnyFail(cs) THEN UNCHANGED <<buffer, ref>> /\ lastr' = "err"
     ELSE /\ buffer' = buffer \o Render(cs) /\ ref' = ref \o Render(cs) /\ lastr' = "ok"
  /\ steps' = Append(steps, IF many THEN [a |-> "queue_many", cmds |-> cs, r |-> lastr', buffered |-> Len(buffer') - written]
                            ELSE [a |-> "queue", cmd |-> cs[1].cmd, len |-> cs[1].len, fail |-> cs[1].fail, r |-> lastr',
                                  buffered |-> Len(buffer') - written])
  /\ UNCHANGED <<written, sink, fl, flushes, intr, lying, cancelled, script>>

Queue == \E l \in 1..3, f \in {0, 1} : Append1(<<Cmd(calls + 1, l, f)>>, FALSE)
QueueMany == \E l1 \in 1..2, f1 \in {0, 1}, f2 \in {0, 1} : Append1(<<Cmd(calls + 1, l1, f1), Cmd(calls + 5, 1, f2)>>, TRUE)

FlushStart ==
  /\ fl = "idle" /\ flushes < MaxFlush /\ written <= Len(buffer)
  /\ flushes' = flushes + 1 /\ intr' = 0 /\ script' = <<>>
  /\ IF written < Len(buffer) THEN fl' = "writing" /\ UNCHANGED <<buffer, written>>
     ELSE fl' = "wflush" /\ buffer' = <<>> /\ written' = 0
  /\ UNCHANGED <<sink, ref, calls, lying, cancelled, lastr, steps>>

Finish(r, fle) ==
  /\ fl' = "idle" /\ lastr' = r
  /\ steps' = Append(steps, [a |-> IF r = "cancelled" THEN "cancel" ELSE "flush", script |-> script', fl |-> fle, r |-> r,
                            sink |-> sink', buffered |-> IF written' <= Len(buffer') THEN Len(buffer') - written' ELSE 0 - 1])

WriteOk(n) ==
  /\ fl = "writing" /\ n \in 1..Buffered
  /\ sink' = sink \o SubSeq(buffer, written + 1, written + n)
  /\ script' = Append(script, [w |-> "ok", n |-> n])
  /\ IF written + n = Len(buffer)
     THEN /\ buffer' = <<>> /\ written' = 0 /\ fl' = "wflush" /\ UNCHANGED <<lastr, steps>>
     ELSE /\ written' = written + n /\ UNCHANGED <<buffer, fl, lastr, steps>>
  /\ UNCHANGED <<ref, calls, flushes, intr, lying, cancelled>>

WriteFail(w, r) ==
  /\ fl = "writing"
  /\ script' = Append(script, [w |-> w, n |-> 0])
  /\ UNCHANGED <<buffer, written, sink, ref, calls, flushes, intr, cancelled>>
  /\ lying' = (lying \/ w = "toomany")
  /\ Finish(r, "ok")

WriteIntr ==
  /\ fl = "writing" /\ intr < MaxIntr
  /\ intr' = intr + 1 /\ script' = Append(script, [w |-> "intr", n |-> 0])
  /\ UNCHANGED <<buffer, written, sink, ref, fl, calls, flushes, lying, cancelled, lastr, steps>>

\* the write stays pending and the future returned by flush() is dropped: mem::take left an empty buffer behind
CancelFlush ==
  /\ AllowCancel /\ fl = "writing" /\ ~cancelled
  /\ buffer' = <<>> /\ written' = (IF FixCancel THEN 0 ELSE written)
  /\ ref' = sink                                         \* what was handed to the writer is gone with the operation
  /\ cancelled' = TRUE
  /\ script' = Append(script, [w |-> "pending", n |-> 0])
  /\ UNCHANGED <<sink, calls, flushes, intr, lying>>
  /\ Finish("cancelled", "ok")

WriterFlush(ok) ==
  /\ fl = "wflush"
  /\ script' = script
  /\ UNCHANGED <<buffer, written, sink, ref, calls, flushes, intr, lying, cancelled>>
  /\ Finish(IF ok THEN "ok" ELSE "flush_err", IF ok THEN "ok" ELSE "err")

Next == \/ Queue \/ QueueMany \/ FlushStart
        \/ \E n \in 1..3 : WriteOk(n)
        \/ WriteFail("zero", "write_zero") \/ WriteFail("err", "err")
        \/ (AllowLie /\ WriteFail("toomany", "invalid"))
        \/ WriteIntr \/ CancelFlush \/ WriterFlush(TRUE) \/ WriterFlush(FALSE)
Spec == Init /\ [][Next]_vars
FairSpec == Spec /\ WF_vars(\E n \in 1..3 : WriteOk(n)) /\ WF_vars(WriterFlush(TRUE)) /\ WF_vars(FlushStart)

\* ---------------------------------------------------------------- properties
TypeOK == /\ fl \in {"idle", "writing", "wflush"} /\ written \in 0..20 /\ calls \in 0..MaxCalls /\ flushes \in 0..MaxFlush
\* bytes at the writer + bytes still queued = ANSI of the successfully queued commands, in order, each once
Conservation == (~lying /\ ~cancelled) => (written <= Len(buffer) /\ sink \o Pending = ref)
\* strict: also after a cancelled flush nothing queued later is skipped (violated by the pinned code)
ConservationStrict == ~lying => (written <= Len(buffer) /\ sink \o Pending = ref)
AfterOk == (fl = "idle" /\ lastr = "ok" /\ steps # <<>> /\ steps[Len(steps)].a = "flush" /\ ~lying /\ (cancelled => FixCancel)) => sink = ref /\ buffer = <<>> /\ written = 0
FailedAddsNothing == (~cancelled /\ steps # <<>> /\ steps[Len(steps)].a \in {"queue", "queue_many"} /\ lastr = "err" /\ Len(steps) >= 2) =>
                        steps[Len(steps)].buffered = steps[Len(steps) - 1].buffered
\* strict (violated by the pinned code after CancelFlush): `written` never points beyond the buffer
WrittenInRange == written <= Len(buffer)
WrittenInRangeUnlessCancelled == cancelled \/ written <= Len(buffer)
\* every started flush can finish when the writer takes bytes
FlushCompletes == (fl # "idle") ~> (fl = "idle")

Complete == fl = "idle" /\ calls = MaxCalls /\ flushes = MaxFlush
Emit == Complete => PrintT(<<"REPLAY", ToJson([k |-> "queue", steps |-> steps])>>)
View == core
=============================================================================
