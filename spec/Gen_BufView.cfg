CONSTANTS
  Cap = 4
  InitLens = {0, 2}
  Kinds = {"exact", "grow", "fixed"}
  MaxDepth = 2
  MaxSteps = 4
SPECIFICATION GSpec
INVARIANTS Emit
