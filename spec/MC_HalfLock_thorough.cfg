CONSTANTS
  Readers = {r1, r2, r3}
  Writers = {w1, w2}
  MaxWrites = 3
  MaxReads = 1
  Perpetual = FALSE
  Muts <- MutsNone
SPECIFICATION Spec
INVARIANTS Safe CurrentAlive NoLeak LockBalanced MutexOwned ReadWaitFree TypeOK
SYMMETRY Perms
