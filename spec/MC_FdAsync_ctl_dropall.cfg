CONSTANTS
  RW = {"a", "c"}
  WW = {}
  MaxPW = 1
  MaxFill = 0
  AllowShut = FALSE
  Eager = FALSE
  Strict = FALSE
  Mut = "dropall"
SPECIFICATION Spec
INVARIANTS Covered
