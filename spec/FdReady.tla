------------------------------ MODULE FdReady ------------------------------
(* X02 - descriptor readiness: compio-runtime fd::PollFd (unix).

   Implementation-shaped model of
     compio-runtime/src/fd/poll_fd/unix.rs   PollFd { read_submit, write_submit : RefCell<Option<Submit<PollOnce>>> },
                                             poll_read_ready / poll_write_ready (one loop, one critical section)
     compio-runtime/src/fd/poll_fd/mod.rs    read_ready / write_ready (poll_fn over the above),
                                             poll_read_with / poll_write_with (try the syscall first, on WouldBlock
                                             wait for readiness, loop), AsyncRead / AsyncWrite for &PollFd
     compio-runtime/src/future/future.rs     Submit::poll (Idle -> push, cancel.register of the FIRST poller's token,
                                             Submitted -> pop or update_waker: ONE waker per operation)
     compio-driver  sys/op/general/{iour,poll}.rs   PollOnce = PollAdd(POLLIN|POLLOUT) / wait_for(fd, interest)

   One descriptor (a connected stream socket) with a peer the environment controls:
     read direction   pw units written by the peer, rd units consumed at our end, shut = peer shut its write half
     write direction  wfull = our send buffer is full (environment: Fill / Drain)
   Per direction d the PollFd has one slot:   none | armed (PollOnce in flight) | ok | cancelled (result not yet
   taken), the single waker stored in the operation (opwk), the waiter whose cancel token the operation was
   registered with when it was pushed (optok), and a pending cancel request (creq).
   Waiters are hand-polled futures: kind "ready" = read_ready()/write_ready(), kind "io" = AsyncRead::poll_read /
   AsyncWrite::poll_write of &PollFd; token mode "no" | "slow" = with_cancel(tok) | "fast" = with_cancel(tok).fail_fast().

   Actions are named after the code: PollW = one call of Future::poll of the waiter (the whole call is one critical
   section: single-threaded runtime), DrvComplete / DrvPoll = Proactor::poll delivering the completion of the
   PollOnce, CancelTok = CancelToken::cancel, DropW = drop of the waiter's future (does NOT touch the slot).

   Named deviations of the real code (kept so that the rest stays checked; Strict = TRUE turns them into errors):
     WakerReplaced   two waiters of the SAME direction share the one operation; update_waker keeps only the last
                     waker, the earlier waiter is never woken (ghost set repl)
     ForeignCancel   the operation is registered with the first poller's cancel token; when that token is cancelled
                     the ECANCELED result stays in the slot and is handed to whoever polls next (ghost dev)
     RdHupWrite      io_uring only: PollAdd always listens for EPOLLRDHUP (IO_POLL_UNMASK), so the PollOnce of the
                     WRITE direction completes as soon as the peer has shut down its write half although the send
                     buffer is full; write_ready() then reports readiness that never existed (ghost hupw, dev)

   Eager = TRUE is the generator variant (Gen_FdReady): every environment step is followed by a full driver poll
   (DrvPoll) before anything else happens, and steps whose outcome depends on kernel timing are excluded.
   Mut selects a model mutation for the control configurations (must violate). *)
EXTENDS Naturals, FiniteSets, TLC

CONSTANTS RW,        \* waiter slots of the read direction
          WW,        \* waiter slots of the write direction
          Kinds,     \* subset of {"ready","io"}
          TokModes,  \* subset of {"no","slow","fast"}
          MaxPW,     \* the peer writes at most MaxPW units
          MaxFill,   \* at most MaxFill Fill steps
          AllowShut, \* the peer may shut down its write half
          Eager,     \* generator variant
          Strict,    \* known deviations count as errors
          Mut,       \* "none" | "cross" | "nowake" | "norearm"
          Driver     \* "iour" | "poll" | "any" (= what both drivers agree on; generator only)

W == RW \cup WW
NoW == "-"
Dirs == {"r", "w"}
Dir(w) == IF w \in RW THEN "r" ELSE "w"
Other(d) == IF d = "r" THEN "w" ELSE "r"

VARIABLES pw, rd, shut, wfull, fills,         \* kernel / peer
          slot, opwk, optok, creq, seen,      \* PollFd slot + the PollOnce in the driver, per direction
          fst, fkind, ftok, tokc, woken,      \* waiters: future state, kind, token mode, token cancelled, waker fired
          repl,                               \* ghost: waiters whose registered waker was overwritten (WakerReplaced)
          hupw,                               \* ghost: the result in the write slot is due to EPOLLRDHUP only
          backed,                             \* ghost per direction: "idle" nobody has waited since the last report,
                                              \* "no"/"yes" the direction was (not) ready since somebody started to wait
          err, dev,                           \* ghost: property violations / known deviations seen
          needPoll                            \* Eager only: a driver poll must come next

vars == <<pw, rd, shut, wfull, fills, slot, opwk, optok, creq, seen, fst, fkind, ftok, tokc, woken, repl,
          hupw, backed, err, dev, needPoll>>

K0 == CHOOSE k \in Kinds : TRUE
T0 == CHOOSE t \in TokModes : TRUE

Ready(d) == IF d = "r" THEN (rd < pw \/ shut) ELSE ~wfull

TypeOK ==
  /\ pw \in 0..MaxPW /\ rd \in 0..pw /\ shut \in BOOLEAN /\ wfull \in BOOLEAN /\ fills \in 0..MaxFill
  /\ slot \in [Dirs -> {"none", "armed", "ok", "cancelled"}]
  /\ opwk \in [Dirs -> W \cup {NoW}] /\ optok \in [Dirs -> W \cup {NoW}]
  /\ creq \in [Dirs -> BOOLEAN] /\ seen \in [Dirs -> BOOLEAN]
  /\ fst \in [W -> {"none", "new", "pend"}] /\ fkind \in [W -> Kinds] /\ ftok \in [W -> TokModes]
  /\ tokc \in [W -> BOOLEAN] /\ woken \in [W -> BOOLEAN] /\ repl \subseteq W
  /\ backed \in [Dirs -> {"idle", "no", "yes"}] /\ hupw \in BOOLEAN /\ needPoll \in BOOLEAN

Init ==
  /\ pw = 0 /\ rd = 0 /\ shut = FALSE /\ wfull = FALSE /\ fills = 0
  /\ slot = [d \in Dirs |-> "none"] /\ opwk = [d \in Dirs |-> NoW] /\ optok = [d \in Dirs |-> NoW]
  /\ creq = [d \in Dirs |-> FALSE] /\ seen = [d \in Dirs |-> FALSE]
  /\ fst = [w \in W |-> "none"]
  /\ fkind = [w \in W |-> K0] /\ ftok = [w \in W |-> T0]
  /\ tokc = [w \in W |-> FALSE] /\ woken = [w \in W |-> FALSE] /\ repl = {}
  /\ backed = [d \in Dirs |-> "idle"] /\ hupw = FALSE /\ err = {} /\ dev = {} /\ needPoll = FALSE

Guard == ~(Eager /\ needPoll)

\* state-space normalisation: kind and token of a slot without future are forgotten once no operation is
\* registered with the token any more (to be used after fst' and optok' are determined)
NormTok ==
  /\ fkind' = [x \in W |-> IF fst'[x] = "none" THEN K0 ELSE fkind[x]]
  /\ ftok' = [x \in W |-> IF fst'[x] = "none" /\ (\A d \in Dirs : optok'[d] # x) THEN T0 ELSE ftok[x]]
  /\ tokc' = [x \in W |-> IF fst'[x] = "none" /\ (\A d \in Dirs : optok'[d] # x) THEN FALSE ELSE tokc[x]]

-----------------------------------------------------------------------------
(* What one call of the waiter's Future::poll returns, as a function of the state before the call.
   fast + cancelled token : WithCancelFailFast returns Err(Cancelled) without polling the inner future.
   ready : poll_X_ready : slot ok -> Ok, cancelled -> Err(ECANCELED), none/armed -> Pending.
   io    : poll_X_with  : the syscall first (data / eof / wrote), on WouldBlock poll_X_ready and loop:
                          ok is consumed and the loop re-arms (Pending), cancelled -> Err(ECANCELED). *)
FastCancelled(w) == ftok[w] = "fast" /\ tokc[w]

PollRes(w) ==
  LET d == Dir(w) IN
  IF FastCancelled(w) THEN "cancelled"
  ELSE IF fkind[w] = "ready"
       THEN (IF slot[d] = "ok" THEN "ok" ELSE IF slot[d] = "cancelled" THEN "ecanceled" ELSE "pending")
  ELSE IF d = "r" /\ rd < pw THEN "data"
  ELSE IF d = "r" /\ shut THEN "eof"
  ELSE IF d = "w" /\ ~wfull THEN "wrote"
  ELSE IF slot[d] = "cancelled" THEN "ecanceled" ELSE "pending"

\* Start(w, k, t): the waiter creates a future (and a fresh token); nothing in the PollFd changes.
Start(w, k, t) ==
  /\ fst[w] = "none" /\ Guard
  /\ fst' = [fst EXCEPT ![w] = "new"] /\ fkind' = [fkind EXCEPT ![w] = k] /\ ftok' = [ftok EXCEPT ![w] = t]
  /\ tokc' = [tokc EXCEPT ![w] = FALSE] /\ woken' = [woken EXCEPT ![w] = FALSE]
  \* the previous token of this slot is forgotten by the user: it can no longer be cancelled
  /\ optok' = [d \in Dirs |-> IF optok[d] = w THEN NoW ELSE optok[d]]
  /\ UNCHANGED <<pw, rd, shut, wfull, fills, slot, opwk, creq, seen, repl, hupw, backed, err, dev, needPoll>>

PollW(w) ==
  /\ fst[w] \in {"new", "pend"} /\ Guard
  /\ LET d == Dir(w)
         res == PollRes(w)
         reach == ~FastCancelled(w) /\ (fkind[w] = "ready" \/ ~Ready(d))   \* the call gets to poll_X_ready
         arm == reach /\ (slot[d] = "none" \/ (slot[d] = "ok" /\ fkind[w] = "io" /\ Mut # "norearm"))
         share == reach /\ slot[d] = "armed"
         take == reach /\ slot[d] \in {"ok", "cancelled"} /\ ~arm
         done == res # "pending"
         newcreq == ftok[w] # "no" /\ tokc[w]        \* register() on a cancelled token cancels at once
         foreign == res = "ecanceled" /\ ~(ftok[w] # "no" /\ tokc[w])
         thin == res = "ok" /\ backed[d] # "yes"
         rdhup == thin /\ d = "w" /\ hupw
     IN
     /\ Eager => ~(arm /\ newcreq /\ (Ready(d) \/ (d = "w" /\ Driver = "iour" /\ shut)))   \* driver dependent: not replayed
     /\ slot' = [slot EXCEPT ![d] = IF arm THEN "armed" ELSE IF take THEN "none" ELSE @]
     /\ opwk' = [x \in Dirs |-> IF x = d /\ (arm \/ share) THEN w
                                ELSE IF done /\ opwk[x] = w THEN NoW ELSE opwk[x]]
     /\ optok' = [optok EXCEPT ![d] = IF arm THEN (IF ftok[w] # "no" THEN w ELSE NoW) ELSE IF take THEN NoW ELSE @]
     /\ creq' = [creq EXCEPT ![d] = IF arm THEN newcreq ELSE IF take THEN FALSE ELSE @]
     /\ seen' = [seen EXCEPT ![d] = IF arm THEN Ready(d) ELSE IF take THEN FALSE ELSE @]
     /\ repl' = IF share /\ opwk[d] \notin {w, NoW} THEN (repl \ {w}) \cup {opwk[d]} ELSE repl \ {w}
     /\ rd' = IF res = "data" THEN rd + 1 ELSE rd
     /\ fst' = [fst EXCEPT ![w] = IF done THEN "none" ELSE "pend"]
     /\ woken' = [woken EXCEPT ![w] = FALSE]
     /\ backed' = [backed EXCEPT ![d] = IF res = "ok" THEN "idle"
                                       ELSE IF reach /\ @ = "idle" THEN (IF Ready(d) THEN "yes" ELSE "no") ELSE @]
     /\ hupw' = IF d = "w" /\ (take \/ arm) THEN FALSE ELSE hupw
     /\ dev' = dev \cup (IF foreign THEN {"foreign_cancel"} ELSE {}) \cup (IF rdhup THEN {"rdhup_write"} ELSE {})
     /\ err' = err \cup (IF thin /\ (~rdhup \/ Strict) THEN {"thin_air"} ELSE {})
                   \cup (IF foreign /\ Strict THEN {"foreign_cancel"} ELSE {})
     /\ needPoll' = (needPoll \/ (Eager /\ arm /\ newcreq))
  /\ NormTok
  /\ UNCHANGED <<pw, shut, wfull, fills>>

\* DropW: the future is dropped. poll_fn holds no state: the Submit stays in the slot, the waker stays in the op
\* (a stale waker wakes nobody we track).
DropW(w) ==
  /\ fst[w] \in {"new", "pend"} /\ Guard
  /\ fst' = [fst EXCEPT ![w] = "none"]
  /\ opwk' = [d \in Dirs |-> IF opwk[d] = w THEN NoW ELSE opwk[d]]
  /\ woken' = [woken EXCEPT ![w] = FALSE]
  /\ repl' = repl \ {w}
  /\ UNCHANGED <<pw, rd, shut, wfull, fills, slot, optok, creq, seen, hupw, backed, err, dev, needPoll>>
  /\ NormTok

\* CancelToken::cancel of the waiter's token (the future may already be gone): notify_all wakes a fail-fast
\* listener, every operation registered with the token gets Proactor::cancel.
CancelTok(w) ==
  /\ ftok[w] # "no" /\ ~tokc[w] /\ Guard
  /\ (fst[w] # "none" \/ \E d \in Dirs : optok[d] = w)
  /\ LET hit(d) == optok[d] = w /\ slot[d] = "armed" IN
     /\ Eager => \A d \in Dirs : hit(d) => ~(Ready(d) \/ (d = "w" /\ Driver = "iour" /\ shut))
     /\ tokc' = [tokc EXCEPT ![w] = TRUE]
     /\ creq' = [d \in Dirs |-> creq[d] \/ hit(d)]
     /\ woken' = [woken EXCEPT ![w] = @ \/ (ftok[w] = "fast" /\ fst[w] = "pend")]
     /\ needPoll' = (needPoll \/ (Eager /\ \E d \in Dirs : hit(d)))
  /\ UNCHANGED <<pw, rd, shut, wfull, fills, slot, opwk, optok, seen, fst, fkind, ftok, repl, hupw, backed, err, dev>>

-----------------------------------------------------------------------------
(* Environment: the peer and the send buffer. A step that makes a direction ready marks it for the ghosts. *)
MarkReady(d) ==
  /\ backed' = [backed EXCEPT ![d] = IF @ = "no" THEN "yes" ELSE @]
  /\ seen' = [seen EXCEPT ![d] = @ \/ slot[d] = "armed"]

PeerWrite ==
  /\ Guard /\ pw < MaxPW /\ ~shut
  /\ pw' = pw + 1 /\ MarkReady("r") /\ needPoll' = Eager
  /\ UNCHANGED <<rd, shut, wfull, fills, slot, opwk, optok, creq, fst, fkind, ftok, tokc, woken, repl, hupw, err, dev>>

PeerShut ==
  /\ Guard /\ AllowShut /\ ~shut /\ (Driver = "any" => ~wfull)
  /\ shut' = TRUE /\ MarkReady("r") /\ needPoll' = Eager
  /\ UNCHANGED <<pw, rd, wfull, fills, slot, opwk, optok, creq, fst, fkind, ftok, tokc, woken, repl, hupw, err, dev>>

Fill ==
  /\ Guard /\ ~wfull /\ fills < MaxFill /\ (Driver = "any" => ~shut)
  /\ wfull' = TRUE /\ fills' = fills + 1 /\ needPoll' = Eager
  /\ UNCHANGED <<pw, rd, shut, slot, opwk, optok, creq, seen, fst, fkind, ftok, tokc, woken, repl, hupw, backed, err, dev>>

Drain ==
  /\ Guard /\ wfull
  /\ wfull' = FALSE /\ MarkReady("w") /\ needPoll' = Eager
  /\ UNCHANGED <<pw, rd, shut, fills, slot, opwk, optok, creq, fst, fkind, ftok, tokc, woken, repl, hupw, err, dev>>

-----------------------------------------------------------------------------
(* Driver: Proactor::poll delivers the completion of a PollOnce. The operation completes with Ok when the kernel
   reports the direction ready (checking: also when it WAS ready since the operation was armed - a transient
   readiness may or may not be reported, depending on driver and timing), with ECANCELED when a cancel was requested.
   Entry::notify stores the result and wakes the one waker of the operation. *)
RdyFor(d) == IF Mut = "cross" THEN Ready(Other(d)) ELSE Ready(d)
RdHup(d) == d = "w" /\ Driver = "iour" /\ shut                    \* RdHupWrite
CanOk(d) == slot[d] = "armed" /\ (RdyFor(d) \/ RdHup(d) \/ (~Eager /\ seen[d]))
HupOnly(d) == RdHup(d) /\ ~RdyFor(d) /\ ~seen[d]
CanCancel(d) == slot[d] = "armed" /\ creq[d]

\* checking variant: one completion at a time, both outcomes when both are possible
DrvComplete(d) ==
  /\ ~Eager
  /\ \E how \in {"ok", "cancelled"} :
       /\ (how = "ok" => CanOk(d)) /\ (how = "cancelled" => CanCancel(d))
       /\ slot' = [slot EXCEPT ![d] = how]
       /\ hupw' = IF d = "w" THEN (how = "ok" /\ HupOnly(d)) ELSE hupw
  /\ creq' = [creq EXCEPT ![d] = FALSE] /\ seen' = [seen EXCEPT ![d] = FALSE]
  /\ optok' = [optok EXCEPT ![d] = NoW]
  /\ woken' = [w \in W |-> woken[w] \/ (opwk[d] = w /\ Mut # "nowake")]
  /\ opwk' = [opwk EXCEPT ![d] = NoW]
  /\ UNCHANGED <<pw, rd, shut, wfull, fills, fst, repl, backed, err, dev, needPoll>>
  /\ NormTok

\* generator variant: one driver poll processes everything that is due, deterministically
DrvPoll ==
  /\ Eager /\ (needPoll \/ \E d \in Dirs : CanOk(d) \/ CanCancel(d))
  /\ LET how(d) == IF CanCancel(d) /\ ~RdyFor(d) /\ ~RdHup(d) THEN "cancelled" ELSE IF CanOk(d) THEN "ok" ELSE slot[d]
         fin(d) == slot[d] = "armed" /\ how(d) # "armed"
     IN
     /\ slot' = [d \in Dirs |-> how(d)]
     /\ hupw' = IF fin("w") THEN (how("w") = "ok" /\ HupOnly("w")) ELSE hupw
     /\ creq' = [d \in Dirs |-> IF fin(d) THEN FALSE ELSE creq[d]]
     /\ seen' = [d \in Dirs |-> IF fin(d) THEN FALSE ELSE seen[d]]
     /\ optok' = [d \in Dirs |-> IF fin(d) THEN NoW ELSE optok[d]]
     /\ woken' = [w \in W |-> woken[w] \/ (\E d \in Dirs : fin(d) /\ opwk[d] = w /\ Mut # "nowake")]
     /\ opwk' = [d \in Dirs |-> IF fin(d) THEN NoW ELSE opwk[d]]
  /\ needPoll' = FALSE
  /\ UNCHANGED <<pw, rd, shut, wfull, fills, fst, repl, backed, err, dev>>
  /\ NormTok

Next ==
  \/ \E w \in W, k \in Kinds, t \in TokModes : Start(w, k, t)
  \/ \E w \in W : PollW(w) \/ DropW(w) \/ CancelTok(w)
  \/ PeerWrite \/ PeerShut \/ Fill \/ Drain
  \/ \E d \in Dirs : DrvComplete(d)
  \/ DrvPoll

Spec == Init /\ [][Next]_vars

\* fairness: the driver delivers what is due; a woken waiter is polled again
RePoll(w) == woken[w] /\ PollW(w)
FairSpec == Spec /\ (\A d \in Dirs : WF_vars(DrvComplete(d))) /\ (\A w \in W : WF_vars(RePoll(w)))

-----------------------------------------------------------------------------
(* Properties *)
NoErr == err = {}

\* the waker stored in an operation belongs to a pending future of the operation's own direction:
\* a completion of one direction can never wake (steal the wake-up of) the other direction
NoSteal == \A d \in Dirs : opwk[d] # NoW => (Dir(opwk[d]) = d /\ fst[opwk[d]] = "pend" /\ slot[d] = "armed")

Unwoken(w) == fst[w] = "pend" /\ ~woken[w]
Covered(w) == slot[Dir(w)] = "armed" /\ opwk[Dir(w)] = w
\* a pending waiter that has not been woken has its waker in an armed operation (safety half of "no lost wake-up")
CoveredModuloKnown == \A w \in W : Unwoken(w) => (Covered(w) \/ w \in repl)
CoveredStrict == \A w \in W : Unwoken(w) => Covered(w)

\* results waiting in a slot are not cancel requests, an empty slot has no operation state
SlotSane == \A d \in Dirs : slot[d] # "armed" => (~creq[d] /\ ~seen[d] /\ optok[d] = NoW /\ opwk[d] = NoW)

\* ready implies backed (the ghost is maintained correctly)
BackedOK == \A d \in Dirs : Ready(d) => backed[d] # "no"

\* liveness (FairSpec): a pending waiter of a ready direction is eventually woken (or the direction stops being
\* ready, or the waiter is dropped); WokenModuloKnown excuses waiters whose waker was overwritten
WokenModuloKnown == \A w \in W : (Unwoken(w) /\ Ready(Dir(w))) ~> (~Unwoken(w) \/ ~Ready(Dir(w)) \/ w \in repl)
WokenStrict == \A w \in W : (Unwoken(w) /\ Ready(Dir(w))) ~> (~Unwoken(w) \/ ~Ready(Dir(w)))
\* and, polled again when woken, it completes
ServedModuloKnown == \A w \in W : (fst[w] = "pend" /\ Ready(Dir(w))) ~> (fst[w] # "pend" \/ ~Ready(Dir(w)) \/ w \in repl)
=============================================================================
