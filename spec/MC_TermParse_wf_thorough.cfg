SPECIFICATION Spec
CONSTANTS
  RawMode = TRUE
  Inputs <- InputsWfThorough
  FixStaleTimer = FALSE
  AllowLongCsi = TRUE
  MaxTok = 24
  Mut = ""
INVARIANTS
  TypeOK
  NoPanic
  TimerOnlyForEsc
  EscAlwaysTimed
  CutIsNeedMore
  BufferBounded
  BufferShort
PROPERTIES
  Progress
