CONSTANTS
  RW = {"a"}
  WW = {"b"}
  Kinds = {"ready", "io"}
  TokModes = {"no", "slow", "fast"}
  MaxPW = 2
  MaxFill = 1
  AllowShut = TRUE
  Eager = TRUE
  Strict = FALSE
  Mut = "none"
  Driver = "any"
  MaxSteps = 10
SPECIFICATION GSpec
VIEW GView
INVARIANTS Emit NoErr
