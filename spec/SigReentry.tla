----------------------------- MODULE SigReentry -----------------------------
(* X01, part 3: what the signal handler does to the runtime it interrupts.

   compio-signal's handler calls Waker::wake() of the listener's task directly in signal context
   (unix/mod.rs signal_handler -> AsyncFlagHandle::notify -> AtomicWaker::wake -> Task::schedule).
   Task::schedule takes the LOCAL path when the calling thread is the thread of the task's executor
   (compio-executor task/mod.rs view(): tracker.valid()), and Local::schedule mutates the executor's run
   queue in place: TaskQueue::make_hot = unlink::<COLD> + link_tail::<HOT> on an UnsafeCell (queue.rs).
   When the kernel runs the handler on the runtime's own thread, that thread may be in the middle of the
   same functions (tick: make_cold / a task waking itself: make_hot).  The queue code is not reentrant.

   This module transcribes unlink / link_tail store by store (program order) for the interrupted thread
   and lets the handler run make_hot(L) as a whole between any two of them:

     Mode = "local"   the code as it is: WellFormed is violated (a scheduled task becomes unreachable from
                      hot.head, i.e. is never polled again, or the lists become cyclic / cross-linked)
     Mode = "remote"  what an async-signal-safe handler has to do: only push the id to the lock-free sync
                      queue (the path every other thread takes); the runtime thread drains it between two
                      queue operations: WellFormed holds

   The code-level reproduction is extra/harness/hx01 bin stress_signal. *)
EXTENDS Naturals, FiniteSets, Sequences, TLC

CONSTANTS N,          \* tasks 1..N
          L,          \* the listener task
          Modes,      \* set of modes, one is chosen in Init
          MaxSignals

VARIABLES Mode, prev, next, hot, head, tail,    \* items and the two lists: head/tail are functions of BOOLEAN (TRUE = hot list)
          pc, key, q, rp, rn, rt,         \* the interrupted thread: program counter, arguments, registers
          sync, nsig

vars == <<Mode, prev, next, hot, head, tail, pc, key, q, rp, rn, rt, sync, nsig>>
None == 0
Tasks == 1..N

\* all tasks cold, linked in ascending order
Init ==
  /\ Mode \in Modes
  /\ prev = [k \in Tasks |-> k - 1]
  /\ next = [k \in Tasks |-> IF k = N THEN None ELSE k + 1]
  /\ hot = [k \in Tasks |-> FALSE]
  /\ head = [b \in BOOLEAN |-> IF b THEN None ELSE 1]
  /\ tail = [b \in BOOLEAN |-> IF b THEN None ELSE N]
  /\ pc = "idle" /\ key = None /\ q = FALSE /\ rp = None /\ rn = None /\ rt = None
  /\ sync = {} /\ nsig = 0

(* ----- the interrupted thread: make_hot(k) / make_cold(k), one store per step ----- *)
\* tick: queue.make_cold(id) for a hot task; a task or the driver waking a cold task: queue.make_hot(id)
Begin(k) ==
  /\ pc = "idle" /\ sync = {}
  /\ k # L                       \* the listener task itself only moves when the handler (or the drain) wakes it
  /\ key' = k /\ q' = hot[k]     \* q = list it is unlinked from
  /\ pc' = "u1"
  /\ UNCHANGED <<prev, next, hot, head, tail, rp, rn, rt, sync, nsig, Mode>>

\* between operations the thread drains the sync queue (drain_sync -> make_hot), in normal context
Drain(k) ==
  /\ pc = "idle" /\ k \in sync
  /\ sync' = sync \ {k}
  /\ (IF hot[k] THEN UNCHANGED <<key, q, pc>> ELSE key' = k /\ q' = FALSE /\ pc' = "u1")
  /\ UNCHANGED <<prev, next, hot, head, tail, rp, rn, rt, nsig, Mode>>

U1 == /\ pc = "u1" /\ rp' = prev[key] /\ rn' = next[key] /\ pc' = "u2"
      /\ UNCHANGED <<prev, next, hot, head, tail, key, q, rt, sync, nsig, Mode>>
U2 == /\ pc = "u2" /\ head' = (IF head[q] = key THEN [head EXCEPT ![q] = rn] ELSE head) /\ pc' = "u3"
      /\ UNCHANGED <<prev, next, hot, tail, key, q, rp, rn, rt, sync, nsig, Mode>>
U3 == /\ pc = "u3" /\ tail' = (IF tail[q] = key THEN [tail EXCEPT ![q] = rp] ELSE tail) /\ pc' = "u4"
      /\ UNCHANGED <<prev, next, hot, head, key, q, rp, rn, rt, sync, nsig, Mode>>
U4 == /\ pc = "u4" /\ next' = (IF rp # None THEN [next EXCEPT ![rp] = rn] ELSE next) /\ pc' = "u5"
      /\ UNCHANGED <<prev, hot, head, tail, key, q, rp, rn, rt, sync, nsig, Mode>>
U5 == /\ pc = "u5" /\ prev' = (IF rn # None THEN [prev EXCEPT ![rn] = rp] ELSE prev) /\ pc' = "l1"
      /\ UNCHANGED <<next, hot, head, tail, key, q, rp, rn, rt, sync, nsig, Mode>>
\* link_tail::<!q>(key)
L1 == /\ pc = "l1" /\ rt' = tail[~q] /\ pc' = "l2"
      /\ UNCHANGED <<prev, next, hot, head, tail, key, q, rp, rn, sync, nsig, Mode>>
L2 == /\ pc = "l2" /\ tail' = [tail EXCEPT ![~q] = key] /\ pc' = "l3"
      /\ UNCHANGED <<prev, next, hot, head, key, q, rp, rn, rt, sync, nsig, Mode>>
L3 == /\ pc = "l3" /\ head' = (IF head[~q] = None THEN [head EXCEPT ![~q] = key] ELSE head) /\ pc' = "l4"
      /\ UNCHANGED <<prev, next, hot, tail, key, q, rp, rn, rt, sync, nsig, Mode>>
L4 == /\ pc = "l4" /\ prev' = [prev EXCEPT ![key] = rt] /\ next' = [next EXCEPT ![key] = None]
      /\ hot' = [hot EXCEPT ![key] = ~q] /\ pc' = "l5"
      /\ UNCHANGED <<head, tail, key, q, rp, rn, rt, sync, nsig, Mode>>
L5 == /\ pc = "l5" /\ next' = (IF rt # None THEN [next EXCEPT ![rt] = key] ELSE next) /\ pc' = "idle"
      /\ UNCHANGED <<prev, hot, head, tail, key, q, rp, rn, rt, sync, nsig, Mode>>

(* ----- the handler: runs as a whole on top of the thread, at any of the points above ----- *)
\* make_hot(L) exactly as the code does it, on whatever the interrupted thread left behind
HMakeHot ==
  IF hot[L] THEN UNCHANGED <<prev, next, hot, head, tail>>
  ELSE
    LET p == prev[L]  n == next[L]
        head1 == IF head[FALSE] = L THEN [head EXCEPT ![FALSE] = n] ELSE head
        tail1 == IF tail[FALSE] = L THEN [tail EXCEPT ![FALSE] = p] ELSE tail
        next1 == IF p # None THEN [next EXCEPT ![p] = n] ELSE next
        prev1 == IF n # None THEN [prev EXCEPT ![n] = p] ELSE prev
        ot == tail1[TRUE]
        tail2 == [tail1 EXCEPT ![TRUE] = L]
        head2 == IF head1[TRUE] = None THEN [head1 EXCEPT ![TRUE] = L] ELSE head1
        prev2 == [prev1 EXCEPT ![L] = ot]
        next2 == [next1 EXCEPT ![L] = None]
        next3 == IF ot # None THEN [next2 EXCEPT ![ot] = L] ELSE next2
    IN /\ prev' = prev2 /\ next' = next3 /\ head' = head2 /\ tail' = tail2
       /\ hot' = [hot EXCEPT ![L] = TRUE]

Handler ==
  /\ nsig < MaxSignals
  /\ nsig' = nsig + 1
  /\ (IF Mode = "local"
        THEN HMakeHot /\ UNCHANGED sync
        ELSE sync' = sync \cup {L} /\ UNCHANGED <<prev, next, hot, head, tail>>)
  /\ UNCHANGED <<pc, key, q, rp, rn, rt, Mode>>

Next == (\E k \in Tasks : Begin(k) \/ Drain(k)) \/ U1 \/ U2 \/ U3 \/ U4 \/ U5 \/ L1 \/ L2 \/ L3 \/ L4 \/ L5 \/ Handler
Spec == Init /\ [][Next]_vars

(* ------------------------------ properties ------------------------------- *)
\* the tasks reachable from head[b] by following next (bounded walk)
Walk(b) ==
  LET RECURSIVE F(_, _, _)
      F(k, seen, fuel) == IF k = None \/ fuel = 0 \/ k \in seen THEN seen ELSE F(next[k], seen \cup {k}, fuel - 1)
  IN F(head[b], {}, Cardinality(Tasks) + 1)

\* between two queue operations: both lists are exactly the tasks with that temperature, properly terminated
WellFormed ==
  pc = "idle" =>
    \A b \in BOOLEAN :
      /\ Walk(b) = {k \in Tasks : hot[k] = b}
      /\ (Walk(b) = {}) <=> (head[b] = None)
      /\ (Walk(b) # {}) => (tail[b] \in Walk(b) /\ next[tail[b]] = None)
NoLostTaskP == pc = "idle" => \A k \in Tasks : hot[k] => k \in Walk(TRUE)
\* one run for both modes: the remote mode must keep the queue well formed, the local mode (the code as it
\* is) must reach a state where it is not: CtlSeen is always TRUE and prints "local" the first time
RemoteWellFormed == (Mode = "remote") => (WellFormed /\ NoLostTaskP)
CtlInit == TLCSet(21, 0)
CtlSeen == (Mode = "local" /\ ~(WellFormed /\ NoLostTaskP) /\ TLCGet(21) = 0) => (TLCSet(21, 1) /\ PrintT(<<"CTL", Mode>>))
CtlCons == Mode = "remote" \/ TLCGet(21) = 0
CtlSpec == CtlInit /\ Spec
\* the user-visible consequence: a task that was scheduled (hot) but will never be reached by tick's iteration
NoLostTask == NoLostTaskP
=============================================================================
