------------------------------- MODULE Task -------------------------------
(* C04, single-threaded part: task and join-handle lifecycle of compio-executor.

   Implementation-shaped transcription of
     compio-executor/src/task/state.rs   (the state word: bits + reference count)
     compio-executor/src/task/mod.rs     (Task::run, Task::cancel, Task::drop, Drop for Task)
     compio-executor/src/task/local.rs   (Local::schedule, Local::poll)
     compio-executor/src/queue.rs        (hot / cold lists, snapshot iterator, clear)
     compio-executor/src/lib.rs          (Executor::spawn, tick, clear, Drop)
     compio-executor/src/join_handle.rs  (poll, cancel, detach, Drop)
   Everything happens on the home thread, so one API call is a sequence of steps of the
   single program counter pc; the commands of a program (Spawn, WakeLocal, Tick, PollLocal,
   Cancel, Detach, HandleDrop, WakerClone, WakerDrop, Clear, ExecDrop) start at pc = "idle".
   Tick is split into the steps of the code: TickBegin, TickNext (iterator next + make_cold +
   take), Unschedule, RunFuture, FinishRunning, WakeJoiner, TaskDrop, QueueRemove, Reset.

   The world w is one record so that the helper operators (one per Rust function) compose;
   fields polls .. err are ghosts (never read by the transcribed code). *)
EXTENDS Integers, Sequences, FiniteSets, TLC

CONSTANTS NT,        \* number of task ids
          MI,        \* ExecutorConfig::max_interval
          MaxPolls,  \* a future is Ready or panics at the latest at this poll
          MaxW,      \* waker clones the program may hold per task
          NJ,        \* number of distinct joiner wakers used by PollLocal
          Outcomes,  \* subset of {"pend","stash","selfwake","ready","panic"}
          Mut        \* "none", or a deliberately broken variant for the control runs:
                     \*   "drop_result_in_taskdrop" (Task::drop also drops a present result)
                     \*   "take_one_less"           (iter_hot().take(max_interval - 1))

T == 1..NT
DwCap == 9   \* the ghost count of driver wakes saturates (keeps the state space finite)
Bits == {"SCHEDULED", "SCHEDULING", "NSW", "HAS_WAKER", "COMPLETED", "HAS_RESULT", "NC"}
\* NSW = NOT_SETTING_WAKER, NC = NOT_CANCELLED (state.rs stores both negated)

VARIABLES w, pc, cur, it, clr, dropping, hd, wk, ex, nsp
vars == <<w, pc, cur, it, clr, dropping, hd, wk, ex, nsp>>

Zero == [t \in T |-> 0]
W0 == [alloc |-> [t \in T |-> "none"], bits |-> [t \in T |-> {}], rc |-> Zero,
       cell |-> [t \in T |-> "none"], wslot |-> Zero, sh |-> [t \in T |-> FALSE],
       map |-> {}, hot |-> <<>>, cold |-> <<>>,
       \* ghosts
       polls |-> Zero, fdrops |-> Zero, rtaken |-> Zero, rdrops |-> Zero, deallocs |-> Zero,
       jwoken |-> Zero, produced |-> [t \in T |-> "none"], frozen |-> [t \in T |-> -1],
       joinres |-> [t \in T |-> "none"], mustwake |-> [t \in T |-> FALSE],
       budget |-> Zero, fresh |-> {}, cleared |-> {}, dw |-> 0, order |-> <<>>, ret |-> FALSE,
       err |-> {}]

InSeq(s, x) == \E i \in 1..Len(s) : s[i] = x
SeqRemove(s, x) == SelectSeq(s, LAMBDA y : y # x)
Pos(s, x) == CHOOSE i \in 1..Len(s) : s[i] = x
CeilDiv(a, b) == (a + b - 1) \div b
Err(W, e) == [W EXCEPT !.err = @ \cup {e}]

\* every access to the task allocation goes through Touch: an access after dealloc is recorded
Touch(W, t) == IF W.alloc[t] # "live" THEN Err(W, "access-after-dealloc") ELSE W

\* ---- queue.rs ---------------------------------------------------------------------------
\* Inner::make_hot: no-op when the key is gone or already hot; else unlink from cold, link at hot tail
MakeHot(W, t) ==
  IF t \notin W.map \/ InSeq(W.hot, t) THEN W
  ELSE [W EXCEPT !.cold = SeqRemove(@, t), !.hot = Append(@, t),
                 !.budget[t] = CeilDiv(Len(W.hot) + 1, MI),
                 !.fresh = IF pc = "idle" THEN @ ELSE @ \cup {t}]
\* Inner::make_cold (only called by tick on a hot key)
MakeCold(W, t) ==
  IF t \notin W.map THEN W
  ELSE IF ~InSeq(W.hot, t) THEN Err(W, "make_cold-of-cold")
  ELSE [W EXCEPT !.hot = SeqRemove(@, t), !.cold = Append(@, t), !.budget[t] = 0]
\* TaskQueue::next_hot
NextHot(W, t) == IF ~InSeq(W.hot, t) THEN 0
                 ELSE IF Pos(W.hot, t) = Len(W.hot) THEN 0 ELSE W.hot[Pos(W.hot, t) + 1]

\* ---- task/local.rs, task/mod.rs ---------------------------------------------------------
\* Local::schedule: null shared pointer -> return; drain_sync (nothing pending on one thread);
\* make_hot(id); wake the driver waker of ExecutorConfig
LocalSchedule(W, t) ==
  LET W1 == Touch(W, t) IN
  IF ~W1.sh[t] THEN W1
  ELSE IF ex = "dropped" THEN Err(W1, "shared-used-after-free")
  ELSE [MakeHot(W1, t) EXCEPT !.dw = IF @ < DwCap THEN @ + 1 ELSE @]

DropFuture(W, t) == IF W.cell[t] # "future" THEN Err(W, "drop_future-without-future")
                    ELSE [W EXCEPT !.cell[t] = "empty", !.fdrops[t] = @ + 1]
DropResult(W, t) == IF W.cell[t] \notin {"ok", "panic"} THEN Err(W, "drop_result-without-result")
                    ELSE [W EXCEPT !.cell[t] = "empty", !.rdrops[t] = @ + 1]
Freeze(W, t) == IF W.frozen[t] >= 0 THEN W ELSE [W EXCEPT !.frozen[t] = W.polls[t]]

\* Drop for Task: state.dec(); the last reference drops a present result, a present waker, deallocates
Dec(W, t) ==
  LET W1 == Touch(W, t)
      old == W1.bits[t]
      cnt == W1.rc[t]
      W2 == [W1 EXCEPT !.rc[t] = cnt - 1]
      W3 == IF "HAS_RESULT" \in old THEN DropResult(W2, t) ELSE W2
      W4 == IF "HAS_WAKER" \in old THEN [W3 EXCEPT !.wslot[t] = 0] ELSE W3
      W5 == IF ({"COMPLETED"} \cap old = {} /\ "NC" \in old) \/ "NSW" \notin old
              THEN Err(W4, "debug_assert-in-Task-drop") ELSE W4
  IN IF cnt = 0 THEN Err(W1, "refcount-underflow")
     ELSE IF cnt > 1 THEN W2
     ELSE [W5 EXCEPT !.alloc[t] = "freed", !.deallocs[t] = @ + 1]

\* Task::cancel(drop_result): schedule(); set_cancelled(); drop a present result if asked to
CancelOp(W, t, dropres) ==
  LET W1 == LocalSchedule(W, t)
      old == W1.bits[t]
      W2 == Freeze([W1 EXCEPT !.bits[t] = old \ {"NC"}], t)
  IN IF dropres /\ "HAS_RESULT" \in old
       THEN DropResult([W2 EXCEPT !.bits[t] = @ \ {"HAS_RESULT"}], t)
       ELSE W2

\* Task::drop (called by the executor once per task): set_dropped(); shared = null; drop the
\* future unless completed; drop the joiner's waker unless a remote joiner is inside SETTING_WAKER
TaskDropOp(W, t) ==
  LET W1 == Touch(W, t)
      old == W1.bits[t]
      W2 == [W1 EXCEPT !.bits[t] = old \ {"HAS_WAKER", "NC"}, !.sh[t] = FALSE]
      W3 == IF "COMPLETED" \notin old THEN DropFuture(W2, t) ELSE W2
      W4 == IF Mut = "drop_result_in_taskdrop" /\ "HAS_RESULT" \in old THEN DropResult(W3, t) ELSE W3
  IN IF "HAS_WAKER" \in old /\ "NSW" \in old THEN [W4 EXCEPT !.wslot[t] = 0] ELSE W4

\* ---- program commands (start at pc = "idle") ------------------------------------------------
Init == /\ w = W0 /\ pc = "idle" /\ cur = 0 /\ it = [curr |-> 0, n |-> 0] /\ clr = {}
        /\ dropping = FALSE /\ hd = [t \in T |-> "none"] /\ wk = Zero /\ ex = "alive" /\ nsp = 0

Idle == pc = "idle"
Same == UNCHANGED <<pc, cur, it, clr, dropping>>

\* Executor::spawn -> TaskQueue::insert: Task::new::<2> (queue + JoinHandle), linked at the hot tail
Spawn ==
  /\ Idle /\ ex = "alive" /\ nsp < NT
  /\ LET t == nsp + 1 IN
     /\ w' = [w EXCEPT !.alloc[t] = "live", !.bits[t] = {"NSW", "NC"}, !.rc[t] = 2,
                       !.cell[t] = "future", !.sh[t] = TRUE, !.map = @ \cup {t},
                       !.hot = Append(@, t), !.budget[t] = CeilDiv(Len(w.hot) + 1, MI)]
     /\ hd' = [hd EXCEPT ![t] = "held"]
     /\ nsp' = t
  /\ Same /\ UNCHANGED <<wk, ex>>

\* Waker::wake_by_ref on a waker clone the program holds -> Task::schedule -> Local::schedule
WakeLocal(t) ==
  /\ Idle /\ wk[t] > 0
  /\ w' = LocalSchedule(w, t)
  /\ Same /\ UNCHANGED <<hd, wk, ex, nsp>>

\* Waker::clone -> Task::increment_count
WakerClone(t) ==
  /\ Idle /\ wk[t] > 0 /\ wk[t] < MaxW
  /\ w' = [Touch(w, t) EXCEPT !.rc[t] = @ + 1]
  /\ wk' = [wk EXCEPT ![t] = @ + 1]
  /\ Same /\ UNCHANGED <<hd, ex, nsp>>

\* drop(Waker) -> Drop for Task
WakerDrop(t) ==
  /\ Idle /\ wk[t] > 0
  /\ w' = Dec(w, t)
  /\ wk' = [wk EXCEPT ![t] = @ - 1]
  /\ Same /\ UNCHANGED <<hd, ex, nsp>>

\* JoinHandle::poll on the home thread with joiner waker j -> Local::poll
PollLocal(t, j) ==
  /\ Idle /\ hd[t] = "held"
  /\ LET W1 == Touch(w, t)
         st == W1.bits[t]
     IN IF "HAS_RESULT" \in st
          THEN \* set_has_result(false); take_result; Ready(Some(..)); self.task = None
               /\ w' = Dec([W1 EXCEPT !.bits[t] = st \ {"HAS_RESULT"}, !.rtaken[t] = @ + 1,
                                      !.joinres[t] = W1.cell[t], !.cell[t] = "empty"], t)
               /\ hd' = [hd EXCEPT ![t] = "done"]
          ELSE IF "NC" \notin st
          THEN /\ w' = Dec([W1 EXCEPT !.joinres[t] = "cancelled"], t)
               /\ hd' = [hd EXCEPT ![t] = "done"]
          ELSE IF "COMPLETED" \notin st
          THEN \* keep the waker if will_wake, else drop the old one, clone the new one, set_has_waker
               /\ w' = [W1 EXCEPT !.wslot[t] = j, !.bits[t] = st \cup {"HAS_WAKER"}]
               /\ hd' = hd
          ELSE /\ w' = Err(W1, "unreachable-completed-without-result")
               /\ hd' = hd
  /\ Same /\ UNCHANGED <<wk, ex, nsp>>

\* JoinHandle::cancel(self).await, first poll: Task::cancel(false), then Local::poll (always Ready)
Cancel(t) ==
  /\ Idle /\ hd[t] = "held"
  /\ LET W1 == CancelOp(w, t, FALSE)
         st == W1.bits[t]
     IN IF "HAS_RESULT" \in st
          THEN w' = Dec([W1 EXCEPT !.bits[t] = st \ {"HAS_RESULT"}, !.rtaken[t] = @ + 1,
                                   !.joinres[t] = W1.cell[t], !.cell[t] = "empty"], t)
          ELSE w' = Dec([W1 EXCEPT !.joinres[t] = "cancelled"], t)
  /\ hd' = [hd EXCEPT ![t] = "done"]
  /\ Same /\ UNCHANGED <<wk, ex, nsp>>

\* JoinHandle::detach: drops the Task reference without cancelling
Detach(t) ==
  /\ Idle /\ hd[t] = "held"
  /\ w' = Dec(w, t)
  /\ hd' = [hd EXCEPT ![t] = "detached"]
  /\ Same /\ UNCHANGED <<wk, ex, nsp>>

\* Drop for JoinHandle: Task::cancel(true), then the Task reference is dropped
HandleDrop(t) ==
  /\ Idle /\ hd[t] = "held"
  /\ w' = Dec(CancelOp(w, t, TRUE), t)
  /\ hd' = [hd EXCEPT ![t] = "dropped"]
  /\ Same /\ UNCHANGED <<wk, ex, nsp>>

\* ---- Executor::tick --------------------------------------------------------------------------
\* drain_sync (nothing pending) and queue.iter_hot(): Iter { curr: hot_head() }, take(max_interval)
TickBegin ==
  /\ Idle /\ ex = "alive"
  /\ it' = [curr |-> IF w.hot = <<>> THEN 0 ELSE Head(w.hot), n |-> IF Mut = "take_one_less" THEN MI - 1 ELSE MI]
  /\ w' = [w EXCEPT !.order = <<>>, !.fresh = {}]
  /\ pc' = "iter"
  /\ UNCHANGED <<cur, clr, dropping, hd, wk, ex, nsp>>

\* Take::next + Iter::next: the successor of the yielded id is read BEFORE the loop body runs;
\* body start: queue.make_cold(id); queue.take(id).expect(..)
TickNext ==
  /\ pc = "iter" /\ it.n > 0 /\ it.curr # 0
  /\ LET id == it.curr IN
     /\ it' = [curr |-> NextHot(w, id), n |-> it.n - 1]
     /\ w' = IF id \notin w.map THEN Err(w, "take-expect-panics") ELSE MakeCold(w, id)
     /\ cur' = id
  /\ pc' = "unsched"
  /\ UNCHANGED <<clr, dropping, hd, wk, ex, nsp>>

\* loop exhausted: tick returns queue.has_hot()
TickEnd ==
  /\ pc = "iter" /\ (it.n = 0 \/ it.curr = 0)
  /\ w' = [w EXCEPT !.ret = (w.hot # <<>>),
                    !.budget = [t \in T |-> IF InSeq(w.hot, t) /\ t \notin w.fresh /\ @[t] > 0
                                              THEN @[t] - 1 ELSE @[t]],
                    !.fresh = {}]
  /\ pc' = "idle" /\ cur' = 0
  /\ UNCHANGED <<it, clr, dropping, hd, wk, ex, nsp>>

\* Task::run: state.unschedule(); a cancelled task is not polled, run returns Ready
Unschedule ==
  /\ pc = "unsched"
  /\ LET W1 == Touch(w, cur)
         old == W1.bits[cur]
     IN /\ w' = [W1 EXCEPT !.bits[cur] = old \ {"SCHEDULED"}]
        /\ pc' = IF "NC" \notin old THEN "tdrop" ELSE "poll"
  /\ UNCHANGED <<cur, it, clr, dropping, hd, wk, ex, nsp>>

\* vtable.run_future: poll under catch_unwind; on Ready/panic drop the future, store the result.
\* "stash": the future keeps a clone of its waker for the program; "selfwake": wake_by_ref in poll
RunFuture(o) ==
  /\ pc = "poll" /\ o \in Outcomes
  /\ (w.polls[cur] + 1 >= MaxPolls => o \in {"ready", "panic"})
  /\ (o = "stash" => wk[cur] < MaxW)
  /\ LET t == cur
         W0a == IF w.cell[t] # "future" THEN Err(w, "poll-of-non-future") ELSE w
         W1 == [W0a EXCEPT !.polls[t] = @ + 1, !.order = Append(@, <<t, o>>)]
         W2 == IF W1.frozen[t] >= 0 THEN Err(W1, "poll-after-cancel-or-finish") ELSE W1
     IN CASE o = "pend" -> w' = W2 /\ wk' = wk /\ pc' = "reset"
          [] o = "stash" -> w' = [W2 EXCEPT !.rc[t] = @ + 1] /\ wk' = [wk EXCEPT ![t] = @ + 1] /\ pc' = "reset"
          [] o = "selfwake" -> w' = LocalSchedule(W2, t) /\ wk' = wk /\ pc' = "reset"
          [] o \in {"ready", "panic"} ->
               /\ w' = Freeze([DropFuture(W2, t) EXCEPT !.cell[t] = IF o = "ready" THEN "ok" ELSE "panic",
                                                        !.produced[t] = IF o = "ready" THEN "ok" ELSE "panic"], t)
               /\ wk' = wk /\ pc' = "finish"
  /\ UNCHANGED <<cur, it, clr, dropping, hd, ex, nsp>>

\* state.finish_running(): COMPLETED | HAS_RESULT; wake the joiner iff has_waker && !setting_waker
FinishRunning ==
  /\ pc = "finish"
  /\ LET old == w.bits[cur] IN
     /\ w' = [w EXCEPT !.bits[cur] = old \cup {"COMPLETED", "HAS_RESULT"},
                       !.mustwake[cur] = ("HAS_WAKER" \in old)]
     /\ pc' = IF "HAS_WAKER" \in old /\ "NSW" \in old THEN "wakej" ELSE "tdrop"
  /\ UNCHANGED <<cur, it, clr, dropping, hd, wk, ex, nsp>>

WakeJoiner ==
  /\ pc = "wakej"
  /\ w' = IF w.wslot[cur] = 0 THEN Err(w, "wake-of-uninitialised-waker")
          ELSE [w EXCEPT !.jwoken[cur] = @ + 1]
  /\ pc' = "tdrop"
  /\ UNCHANGED <<cur, it, clr, dropping, hd, wk, ex, nsp>>

\* run returned Ready: unsafe { task.drop() }
TaskDrop ==
  /\ pc = "tdrop"
  /\ w' = Freeze(TaskDropOp(w, cur), cur)
  /\ pc' = "remove"
  /\ UNCHANGED <<cur, it, clr, dropping, hd, wk, ex, nsp>>

\* queue.remove(id): unlink from its list, remove from the map; the returned Task is dropped
QueueRemove ==
  /\ pc = "remove"
  /\ w' = Dec([w EXCEPT !.map = @ \ {cur}, !.hot = SeqRemove(@, cur), !.cold = SeqRemove(@, cur),
                        !.budget[cur] = 0], cur)
  /\ pc' = "iter"
  /\ UNCHANGED <<cur, it, clr, dropping, hd, wk, ex, nsp>>

\* run returned Pending: queue.reset(id, task)
Reset ==
  /\ pc = "reset"
  /\ w' = w /\ pc' = "iter"
  /\ UNCHANGED <<cur, it, clr, dropping, hd, wk, ex, nsp>>

\* ---- Executor::clear / Drop for Executor --------------------------------------------------
\* clear(): pop the sync queue; TaskQueue::clear(): empty map -> return; unlink both lists;
\* for every task of map.drain(): task.drop(); task.wait_for_scheduling(); then the Task is dropped
ClearBegin(drop) ==
  /\ Idle /\ ex = "alive"
  /\ dropping' = drop
  /\ IF w.map = {} THEN /\ w' = w /\ clr' = {}
     ELSE /\ w' = [w EXCEPT !.hot = <<>>, !.cold = <<>>, !.map = {}, !.budget = Zero]
          /\ clr' = w.map
  /\ pc' = "clearing"
  /\ UNCHANGED <<cur, it, hd, wk, ex, nsp>>

Clear == ClearBegin(FALSE)
ExecDrop == ClearBegin(TRUE)

\* one iteration of the drain loop (slot order; the order is not observable per command)
ClearTask ==
  /\ pc = "clearing" /\ clr # {}
  /\ LET t == CHOOSE x \in clr : \A y \in clr : x <= y
         W1 == Freeze(TaskDropOp(w, t), t)
         \* wait_for_scheduling: SCHEDULING is never set on the home thread
         W2 == IF "SCHEDULING" \in W1.bits[t] THEN Err(W1, "wait_for_scheduling-spins") ELSE W1
     IN /\ w' = Dec([W2 EXCEPT !.cleared = @ \cup {t}], t)
        /\ clr' = clr \ {t}
  /\ UNCHANGED <<pc, cur, it, dropping, hd, wk, ex, nsp>>

\* end of clear; Drop for Executor then frees the Shared block
ClearEnd ==
  /\ pc = "clearing" /\ clr = {}
  /\ pc' = "idle"
  /\ ex' = IF dropping THEN "dropped" ELSE ex
  /\ dropping' = FALSE
  /\ UNCHANGED <<w, cur, it, clr, hd, wk, nsp>>

Command == \/ Spawn \/ TickBegin \/ Clear \/ ExecDrop
           \/ \E t \in T : \/ WakeLocal(t) \/ WakerClone(t) \/ WakerDrop(t)
                           \/ Cancel(t) \/ Detach(t) \/ HandleDrop(t)
                           \/ \E j \in 1..NJ : PollLocal(t, j)
Internal == \/ TickNext \/ TickEnd \/ Unschedule \/ \E o \in Outcomes : RunFuture(o)
            \/ FinishRunning \/ WakeJoiner \/ TaskDrop \/ QueueRemove \/ Reset
            \/ ClearTask \/ ClearEnd
Next == Command \/ Internal
Spec == Init /\ [][Next]_vars

\* ---- what TLC checks -------------------------------------------------------------------------
Refs(t) == (IF t \in w.map \/ t \in clr THEN 1 ELSE 0) + (IF hd[t] = "held" THEN 1 ELSE 0) + wk[t]

\* no internal inconsistency of the transcribed code: no access after dealloc, no double drop of
\* the cell, no poll of a non-future, no poll after cancel/finish, no debug_assert, no underflow
NoErr == w.err = {}

\* the future is dropped at most once, exactly once when the task is gone; the output or panic is
\* taken by the handle or dropped, exactly once in total when the task is gone; dealloc once
ExactlyOnce == \A t \in T :
  /\ w.fdrops[t] <= 1 /\ w.rtaken[t] + w.rdrops[t] <= 1 /\ w.deallocs[t] <= 1
  /\ (w.alloc[t] = "freed" =>
        /\ w.fdrops[t] = 1 /\ w.deallocs[t] = 1 /\ w.wslot[t] = 0
        /\ (w.produced[t] # "none" => w.rtaken[t] + w.rdrops[t] = 1)
        /\ (w.produced[t] = "none" => w.rtaken[t] + w.rdrops[t] = 0))
  /\ (w.joinres[t] \in {"ok", "panic"} => w.rtaken[t] = 1 /\ w.joinres[t] = w.produced[t])
  /\ (w.rtaken[t] = 1 => w.joinres[t] \in {"ok", "panic"})

\* the reference count is the number of holders; the allocation lives exactly as long as a holder exists
RcMatches == \A t \in T :
  /\ (w.alloc[t] = "live" => w.rc[t] = Refs(t) /\ w.rc[t] > 0)
  /\ (w.alloc[t] # "live" => Refs(t) = 0)

\* representation invariants of the state word on the home thread
WordOk == \A t \in T : w.alloc[t] = "live" =>
  /\ ("HAS_RESULT" \in w.bits[t] => w.cell[t] \in {"ok", "panic"} /\ "COMPLETED" \in w.bits[t])
  /\ ("HAS_WAKER" \in w.bits[t] <=> w.wslot[t] # 0)
  /\ (w.cell[t] = "future" <=> w.fdrops[t] = 0)
  /\ "NSW" \in w.bits[t] /\ {"SCHEDULED", "SCHEDULING"} \cap w.bits[t] = {}
  /\ (w.sh[t] => ex # "dropped")

\* a detached task is only ever cancelled by Executor::clear
DetachKeepsRunning == \A t \in T :
  (hd[t] = "detached" /\ w.alloc[t] = "live" /\ t \notin w.cleared)
     => ("NC" \in w.bits[t] \/ "COMPLETED" \in w.bits[t])

\* a registered joiner has been woken when the tick that completed the task is over
JoinerWoken == Idle => \A t \in T : w.mustwake[t] => w.jwoken[t] >= 1

\* no starvation: a task that became hot at position p is run within ceil(p / MI) ticks
NoStarvation == Idle => \A t \in T : InSeq(w.hot, t) => w.budget[t] >= 1

QueueOk == /\ \A t \in T : InSeq(w.hot, t) \/ InSeq(w.cold, t) <=> t \in w.map
           /\ \A t \in T : ~(InSeq(w.hot, t) /\ InSeq(w.cold, t))
           /\ Len(w.hot) + Len(w.cold) = Cardinality(w.map)

\* a panicking task leaves the others untouched (action property)
Others(t) == [u \in T \ {t} |-> <<w.alloc[u], w.bits[u], w.rc[u], w.cell[u], w.wslot[u], w.polls[u],
                                 w.fdrops[u], w.rdrops[u], w.rtaken[u]>>]
PanicIsolated == [][(pc = "poll" /\ pc' = "finish") => Others(cur)' = Others(cur)]_vars

\* ---- liveness (MC_Task_live.cfg): with Outcomes = {"selfwake","ready","panic"} every future is
\* runnable until it finishes; if the program keeps ticking, a detached task runs to completion
Fair == WF_vars(Internal) /\ WF_vars(TickBegin)
LiveSpec == Spec /\ Fair
DetachCompletes == \A t \in T :
  (hd[t] = "detached") ~> ("COMPLETED" \in w.bits[t] \/ w.alloc[t] = "freed" \/ t \in w.cleared \/ ex = "dropped")
\* every started tick terminates
TickTerminates == (pc # "idle") ~> (pc = "idle")

View == <<[w EXCEPT !.dw = 0, !.order = <<>>, !.ret = FALSE], pc, cur, it, clr, dropping, hd, wk, ex, nsp>>
=============================================================================
