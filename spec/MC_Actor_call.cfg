\* calls: one running actor capacity 1, 2 callers x 2 calls, stop racing
CONSTANTS
  Actors = {1}
  Procs = {0, 1, 2}
  Names = {}
  Caps = {1}
  Kinds = {"call"}
  Spawners = {}
  Senders = {1, 2}
  Stoppers = {0}
  Lookers = {}
  GSenders = {}
  Joiners = {}
  Prestarted = {1}
  Prejoined = FALSE
  InitialActors = {}
  Replacements = {}
  MsgsPer = 2
  StopsPer = 1
  LooksPer = 0
  JoinsPer = 0
  SupChoices = {FALSE}
  SupProc = 99
  SupCap = 1
  PreMayFail = FALSE
  PostMayFail = FALSE
  StopHooksMayFail = FALSE
  DrainOnClose = FALSE
  ReportBeforeRelease = FALSE
  ReserveIgnoresStarting = FALSE
SPECIFICATION Spec
INVARIANTS TypeOK SerialFifo Conservation HandlingOnlyWhileRunning HookOrder CallSound RegistrySound FailedStartFreesName SupervisionSound GroupExactlyOne GroupLockSound GroupTriesEachOnce
