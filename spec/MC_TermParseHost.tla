---------------------------- MODULE MC_TermParseHost ----------------------------
(* an input family of TermParse in a module of its own: TLC evaluates every constant definition of the modules it
   loads when it starts *)
EXTENDS MC_TermParse
InputsHostile == (Strings(Sigma, 3) \cup Strings(SigmaSmall, 5)) \ {<<>>}
=============================================================================
